#!/usr/bin/env python3
"""Generates the static third-party vectors with the OpenSSL 3.5 binary that happens to be in the image.
Run once; the JSON files are committed. OpenSSL is NOT needed when the checks run."""
import subprocess, json, os, tempfile, hashlib, random
OSSL = "/root/miniconda/bin/openssl"
rnd = random.Random(20260927)
tmp = tempfile.mkdtemp()

def run(args, inp=None):
    return subprocess.run([OSSL] + args, input=inp, stdout=subprocess.PIPE, stderr=subprocess.PIPE, check=True).stdout

# SM3: lengths 0..300 and a few long ones
sm3 = []
for n in list(range(0, 301)) + [511, 512, 513, 1000, 4096, 8191, 8192, 8193]:
    m = bytes(rnd.getrandbits(8) for _ in range(n))
    out = run(["dgst", "-sm3", "-binary"], m)
    sm3.append(dict(msg=m.hex(), digest=out.hex()))
json.dump(dict(source="openssl 3.5.6 dgst -sm3", vectors=sm3), open("sm3_openssl.json", "w"))

def der_sig(b):
    # SEQUENCE { INTEGER r, INTEGER s }
    assert b[0] == 0x30
    i = 2 if b[1] < 0x80 else 2 + (b[1] & 0x7f)
    def rd(i):
        assert b[i] == 2
        l = b[i + 1]
        v = int.from_bytes(b[i + 2:i + 2 + l], "big")
        return v, i + 2 + l
    r, i = rd(i)
    s, i = rd(i)
    return r, s

sm2 = []
for kidx in range(6):
    key = os.path.join(tmp, "k%d.pem" % kidx)
    run(["genpkey", "-algorithm", "SM2", "-out", key])
    txt = run(["pkey", "-in", key, "-text", "-noout"]).decode()
    # parse priv / pub hex blocks
    import re
    priv = re.search(r"priv:\s*((?:[0-9a-f:\s]+))pub:", txt, re.S).group(1)
    pub = re.search(r"pub:\s*((?:[0-9a-f:\s]+))ASN1", txt, re.S).group(1)
    priv = bytes.fromhex(re.sub(r"[^0-9a-f]", "", priv))
    pub = bytes.fromhex(re.sub(r"[^0-9a-f]", "", pub))
    assert pub[0] == 4 and len(pub) == 65
    priv = priv[-32:].rjust(32, b"\0")
    for idlen, msglen in [(16, 14), (0, 0), (1, 55), (31, 56), (32, 63), (55, 64), (64, 65), (200, 119), (8191, 33), (1000, 300)]:
        ident = bytes(rnd.getrandbits(8) for _ in range(idlen)) if idlen != 16 else b"1234567812345678"
        if idlen == 0:
            continue  # openssl refuses an empty distid on the command line
        msg = bytes(rnd.getrandbits(8) for _ in range(msglen))
        mf = os.path.join(tmp, "m.bin"); open(mf, "wb").write(msg)
        sf = os.path.join(tmp, "s.bin")
        try:
            run(["pkeyutl", "-sign", "-in", mf, "-rawin", "-digest", "sm3", "-inkey", key, "-pkeyopt", "hexdistid:" + ident.hex(), "-out", sf])
            # check that openssl verifies its own signature
            run(["pkeyutl", "-verify", "-in", mf, "-rawin", "-digest", "sm3", "-inkey", key, "-pkeyopt", "hexdistid:" + ident.hex(), "-sigfile", sf])
        except subprocess.CalledProcessError as ex:
            print("skipped id length", idlen, ex.stderr[-200:])
            continue
        r, s = der_sig(open(sf, "rb").read())
        sm2.append(dict(priv=priv.hex(), px=pub[1:33].hex(), py=pub[33:].hex(), id=ident.hex(), msg=msg.hex(), r="%064x" % r, s="%064x" % s))
json.dump(dict(source="openssl 3.5.6 genpkey -algorithm SM2; pkeyutl -sign -rawin -digest sm3 -pkeyopt hexdistid:<id>", vectors=sm2), open("sm2_openssl.json", "w"))
print(len(sm3), "sm3 vectors;", len(sm2), "sm2 vectors")
