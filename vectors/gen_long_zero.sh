#!/bin/sh
# Regenerates the digests of vectors/sm3_openssl_long_zero.json with the OpenSSL command line tool (third-party oracle for C04).
for n in 268435455 268435456 268435521 536870911 536870912 536870977 1073741827 2147483708 2147483715 4294967295 4294967296 4294967493; do
  printf '%s ' $n; head -c $n /dev/zero | openssl dgst -sm3 | sed 's/.*= //'
done
