// Package sm3ref is an SM3 written directly from GB/T 32905-2016: explicit
// padding of the whole message, full W / W' expansion, T_j and the boolean
// functions evaluated per round. Slow and shares nothing with the repository.
package sm3ref

import "encoding/binary"

func rotl(x uint32, n uint) uint32 { n %= 32; return x<<n | x>>(32-n) }
func p0(x uint32) uint32           { return x ^ rotl(x, 9) ^ rotl(x, 17) }
func p1(x uint32) uint32           { return x ^ rotl(x, 15) ^ rotl(x, 23) }
func tj(j int) uint32 {
	if j <= 15 {
		return 0x79cc4519
	}
	return 0x7a879d8a
}
func ff(j int, x, y, z uint32) uint32 {
	if j <= 15 {
		return x ^ y ^ z
	}
	return (x & y) | (x & z) | (y & z)
}
func gg(j int, x, y, z uint32) uint32 {
	if j <= 15 {
		return x ^ y ^ z
	}
	return (x & y) | (^x & z)
}

var IV = [8]uint32{0x7380166f, 0x4914b2b9, 0x172442d7, 0xda8a0600, 0xa96f30bc, 0x163138aa, 0xe38dee4d, 0xb0fb0e4e}

func cf(v [8]uint32, b []byte) [8]uint32 {
	var w [68]uint32
	var w1 [64]uint32
	for i := 0; i < 16; i++ {
		w[i] = binary.BigEndian.Uint32(b[4*i:])
	}
	for j := 16; j < 68; j++ {
		w[j] = p1(w[j-16]^w[j-9]^rotl(w[j-3], 15)) ^ rotl(w[j-13], 7) ^ w[j-6]
	}
	for j := 0; j < 64; j++ {
		w1[j] = w[j] ^ w[j+4]
	}
	a, bb, c, d, e, f, g, h := v[0], v[1], v[2], v[3], v[4], v[5], v[6], v[7]
	for j := 0; j < 64; j++ {
		ss1 := rotl(rotl(a, 12)+e+rotl(tj(j), uint(j)), 7)
		ss2 := ss1 ^ rotl(a, 12)
		tt1 := ff(j, a, bb, c) + d + ss2 + w1[j]
		tt2 := gg(j, e, f, g) + h + ss1 + w[j]
		d = c
		c = rotl(bb, 9)
		bb = a
		a = tt1
		h = g
		g = rotl(f, 19)
		f = e
		e = p0(tt2)
	}
	return [8]uint32{v[0] ^ a, v[1] ^ bb, v[2] ^ c, v[3] ^ d, v[4] ^ e, v[5] ^ f, v[6] ^ g, v[7] ^ h}
}

// Sum returns the SM3 digest of msg.
func Sum(msg []byte) [32]byte {
	l := uint64(len(msg)) * 8
	m := append([]byte{}, msg...)
	m = append(m, 0x80)
	for len(m)%64 != 56 {
		m = append(m, 0)
	}
	var lb [8]byte
	binary.BigEndian.PutUint64(lb[:], l)
	m = append(m, lb[:]...)
	v := IV
	for i := 0; i < len(m); i += 64 {
		v = cf(v, m[i:i+64])
	}
	var out [32]byte
	for i := 0; i < 8; i++ {
		binary.BigEndian.PutUint32(out[4*i:], v[i])
	}
	return out
}

// Tj returns T_j <<< (j mod 32), the value the round j uses.
func Tj(j int) uint32 { return rotl(tj(j), uint(j)) }

// Stream is an incremental form of the same reference (padding by explicit
// bit-length arithmetic in 64 bits), for messages too long to hold in memory.
type Stream struct {
	v     [8]uint32
	buf   []byte
	total uint64
}

func NewStream() *Stream { return &Stream{v: IV} }

func (s *Stream) Write(p []byte) {
	s.total += uint64(len(p))
	s.buf = append(s.buf, p...)
	for len(s.buf) >= 64 {
		s.v = cf(s.v, s.buf[:64])
		s.buf = s.buf[64:]
	}
}

func (s *Stream) Sum() [32]byte {
	m := append([]byte{}, s.buf...)
	m = append(m, 0x80)
	for len(m)%64 != 56 {
		m = append(m, 0)
	}
	var lb [8]byte
	binary.BigEndian.PutUint64(lb[:], s.total*8)
	m = append(m, lb[:]...)
	v := s.v
	for i := 0; i < len(m); i += 64 {
		v = cf(v, m[i:i+64])
	}
	var out [32]byte
	for i := 0; i < 8; i++ {
		binary.BigEndian.PutUint32(out[4*i:], v[i])
	}
	return out
}

// Compress is the compression function on one 64-byte block (exported for the corpus search tool).
func Compress(v [8]uint32, block []byte) [8]uint32 { return cf(v, block) }
