package sm3ref

import (
	"encoding/hex"
	"encoding/json"
	"os"
	"testing"
)

// GB/T 32905-2016 appendix A examples.
func TestVectors(t *testing.T) {
	cases := []struct{ msg, want string }{
		{"616263", "66c7f0f462eeedd9d1f2d46bdc10e4e24167c4875cf2f7a2297da02b8f4ba8e0"},
		{"61626364616263646162636461626364616263646162636461626364616263646162636461626364616263646162636461626364616263646162636461626364", "debe9ff92275b8a138604889c18e5a4d6fdb70e5387e5765293dcba39c0c5732"},
		{"", "1ab21d8355cfa17f8e61194831e81a8f22bec8c728fefb747ed035eb5082aa2b"},
	}
	for _, c := range cases {
		m, _ := hex.DecodeString(c.msg)
		got := Sum(m)
		if hex.EncodeToString(got[:]) != c.want {
			t.Fatalf("sm3ref(%s) = %x want %s", c.msg, got, c.want)
		}
	}
}

// Static third-party vectors (OpenSSL 3.5 dgst -sm3; lengths 0..300 and some long ones).
func TestOpenSSLVectors(t *testing.T) {
	b, err := os.ReadFile("../../../vectors/sm3_openssl.json")
	if err != nil {
		t.Skip("vectors not found: ", err)
	}
	var f struct {
		Vectors []struct{ Msg, Digest string }
	}
	if err := json.Unmarshal(b, &f); err != nil {
		t.Fatal(err)
	}
	for _, v := range f.Vectors {
		m, _ := hex.DecodeString(v.Msg)
		got := Sum(m)
		if hex.EncodeToString(got[:]) != v.Digest {
			t.Fatalf("len %d: %x want %s", len(m), got, v.Digest)
		}
	}
	t.Logf("%d OpenSSL SM3 vectors agree", len(f.Vectors))
}
