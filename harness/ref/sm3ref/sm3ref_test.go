package sm3ref

import (
	"encoding/hex"
	"testing"
)

// GB/T 32905-2016 appendix A examples.
func TestVectors(t *testing.T) {
	cases := []struct{ msg, want string }{
		{"616263", "66c7f0f462eeedd9d1f2d46bdc10e4e24167c4875cf2f7a2297da02b8f4ba8e0"},
		{"61626364616263646162636461626364616263646162636461626364616263646162636461626364616263646162636461626364616263646162636461626364", "debe9ff92275b8a138604889c18e5a4d6fdb70e5387e5765293dcba39c0c5732"},
		{"", "1ab21d8355cfa17f8e61194831e81a8f22bec8c728fefb747ed035eb5082aa2b"},
	}
	for _, c := range cases {
		m, _ := hex.DecodeString(c.msg)
		got := Sum(m)
		if hex.EncodeToString(got[:]) != c.want {
			t.Fatalf("sm3ref(%s) = %x want %s", c.msg, got, c.want)
		}
	}
}
