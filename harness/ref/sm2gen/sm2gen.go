// Package sm2gen builds SM2 inputs by construction: signatures with a chosen
// shape of r, s or t=(r+s) mod n, nonce streams that hit each rejection rule,
// and verification inputs that satisfy the verification equation while
// breaking exactly one side condition. All arithmetic through sm2ref/math/big;
// every random choice is a rapid draw.
package sm2gen

import (
	"fmt"
	"math/big"

	"pgregory.net/rapid"
	"verif.local/ref/gen"
	"verif.local/ref/sm2ref"
)

var (
	N    = sm2ref.N
	P    = sm2ref.P
	one  = big.NewInt(1)
	two  = big.NewInt(2)
	NM1  = new(big.Int).Sub(N, one)
	NM2  = new(big.Int).Sub(N, two)
	T256 = new(big.Int).Lsh(one, 256)
)

func modn(x *big.Int) *big.Int { return x.Mod(x, N) }

// ExtremeX1Nonces are nonces k whose point [k]G has an abscissa in the top 2^-32 of the field (x1 >= 2n - 2^256), so that
// e + x1 can reach 2n for a large digest. Such k cannot be constructed, only searched for (about 2^32 point additions); the one
// below was found by such a walk and is kept as a corpus seed; it is re-validated with sm2ref when the package is initialised
// (an entry that does not have the property is dropped).
var ExtremeX1Nonces []*big.Int

func init() {
	k0, _ := new(big.Int).SetString("2030000000036E83", 16)
	lim := new(big.Int).Sub(new(big.Int).Lsh(N, 1), T256) // 2n - 2^256
	for _, k := range []*big.Int{k0, new(big.Int).Sub(N, k0)} {
		if pt := sm2ref.Mul(k, sm2ref.G); !pt.Inf && pt.X.Cmp(lim) >= 0 {
			ExtremeX1Nonces = append(ExtremeX1Nonces, k)
		}
	}
}

// ScalarShape draws a value in [1, n-1] with a labelled shape.
func ScalarShape(t *rapid.T, label string) (*big.Int, string) {
	cls := gen.Pick(t, label+".shape", "uniform", "uniform", "lead00", "tiny", "top")
	r := gen.Rand(t, label+".seed")
	var v *big.Int
	switch cls {
	case "uniform":
		v = new(big.Int).SetBytes(gen.RandBytes(r, 40))
		v.Mod(v, NM1)
		v.Add(v, one)
	case "lead00":
		k := gen.Uniform(t, label+".zeros", 1, 31)
		b := gen.RandBytes(r, 32-k)
		if gen.Bool(t, label+".highbit") {
			b[0] |= 0x80
		}
		v = new(big.Int).SetBytes(b)
		if v.Sign() == 0 {
			v = big.NewInt(1)
		}
		cls = fmt.Sprintf("lead00x%d", 32-len(v.Bytes()))
		if 32-len(v.Bytes()) >= 4 {
			cls = "lead00x>=4"
		}
	case "tiny":
		v = big.NewInt(int64(gen.Int(t, label+".tiny", 1, 5)))
	case "top":
		v = new(big.Int).Sub(N, big.NewInt(int64(gen.Int(t, label+".top", 1, 5))))
	}
	return v, cls
}

// PrivKey draws a valid private key d in [1, n-2] and its byte encoding, which
// is 32 bytes or (class "short") the minimal-or-padded shorter encoding.
func PrivKey(t *rapid.T, label string) (d *big.Int, enc []byte, cls string) {
	cls = gen.Pick(t, label+".class", "uniform", "uniform", "uniform", "boundary", "short", "lead00", "carry")
	r := gen.Rand(t, label+".seed")
	switch cls {
	case "uniform":
		d = new(big.Int).SetBytes(gen.RandBytes(r, 40))
		d.Mod(d, NM2)
		d.Add(d, one)
		enc = gen.Pad32(d)
	case "boundary":
		if gen.Bool(t, label+".low") {
			d = big.NewInt(int64(gen.Int(t, label+".v", 1, 4)))
		} else {
			d = new(big.Int).Sub(N, big.NewInt(int64(gen.Int(t, label+".v", 2, 5))))
		}
		enc = gen.Pad32(d)
	case "lead00":
		k := gen.Uniform(t, label+".zeros", 1, 31)
		d = new(big.Int).SetBytes(gen.RandBytes(r, 32-k))
		if d.Sign() == 0 {
			d = big.NewInt(1)
		}
		enc = gen.Pad32(d)
	case "carry":
		// d ends in a run of 0xFF bytes (1+d carries); in a short encoding the run may be the whole string
		l := 32
		if gen.Bool(t, label+".shortenc") {
			l = gen.Uniform(t, label+".len", 1, 31)
		}
		k := gen.Uniform(t, label+".ffrun", 1, l)
		b := gen.RandBytes(r, l)
		for i := l - k; i < l; i++ {
			b[i] = 0xff
		}
		d = new(big.Int).SetBytes(b)
		if !sm2ref.ValidPrivate(d) {
			b[0] &= 0x7f
			d = new(big.Int).SetBytes(b)
		}
		if d.Sign() == 0 {
			b[l-1] = 1
			d = big.NewInt(1)
		}
		enc = b
	case "short":
		l := gen.Int(t, label+".len", 1, 31)
		b := gen.RandBytes(r, l)
		d = new(big.Int).SetBytes(b)
		if d.Sign() == 0 {
			b[l-1] = 1
			d = big.NewInt(1)
		}
		enc = b
	}
	return
}

// Pub returns the affine public key of d as 32-byte strings (by sm2ref).
func Pub(d *big.Int) (px, py []byte, pt sm2ref.Point) {
	pt = sm2ref.Mul(d, sm2ref.G)
	return gen.Pad32(pt.X), gen.Pad32(pt.Y), pt
}

// SolveSig returns (e, k) such that the standard signature of digest e under
// key d with nonce k is exactly (r, s) = (t-s mod n, s): k = s + t d, e = r - x([k]G).
// ok=false if the construction degenerates (k=0, r=0, r+k=n).
func SolveSig(d, s, tt *big.Int) (e []byte, k *big.Int, r *big.Int, ok bool) {
	k = new(big.Int).Mul(tt, d)
	k.Add(k, s)
	modn(k)
	r = new(big.Int).Sub(tt, s)
	modn(r)
	if k.Sign() == 0 || r.Sign() == 0 || s.Sign() == 0 || new(big.Int).Add(r, k).Cmp(N) == 0 {
		return nil, nil, nil, false
	}
	kg := sm2ref.Mul(k, sm2ref.G)
	ev := new(big.Int).Sub(r, kg.X)
	modn(ev)
	return gen.Pad32(ev), k, r, true
}

// SignCase is a generated signing input.
type SignCase struct {
	D        *big.Int
	DEnc     []byte
	E        []byte
	Stream   []byte   // nonce candidates (32 bytes each) followed by trailing bytes
	Cands    int      // number of candidates the signer must consume
	Rejected []string // expected rejection reasons, in order
	Classes  []string
	Shaped   bool // r, s or t was solved to have a chosen shape
}

func geN(t *rapid.T, label string) *big.Int {
	switch gen.Pick(t, label, "n", "n+1", "max", "uniform") {
	case "n":
		return new(big.Int).Set(N)
	case "n+1":
		return new(big.Int).Add(N, one)
	case "max":
		return new(big.Int).Sub(T256, one)
	}
	r := gen.Rand(t, label+".seed")
	span := new(big.Int).Sub(T256, N)
	v := new(big.Int).SetBytes(gen.RandBytes(r, 40))
	v.Mod(v, span)
	return v.Add(v, N)
}

// DrawSignCase draws key, digest and nonce stream. The stream starts with
// 0..4 candidates that must be rejected, each for a named reason, then one
// acceptable candidate, then 0..40 trailing bytes that must not be consumed.
func DrawSignCase(t *rapid.T) SignCase {
	var c SignCase
	var kcls string
	c.D, c.DEnc, kcls = PrivKey(t, "d")
	c.Classes = append(c.Classes, "key:"+kcls)
	r := gen.Rand(t, "content")
	mode := gen.Pick(t, "mode", "plain", "plain", "shaped", "shaped", "r=0", "r+k=n", "s=0", "extreme-x1", "near-rejection")
	if mode == "extreme-x1" && len(ExtremeX1Nonces) == 0 {
		mode = "plain"
	}
	var eDep []*big.Int // e-dependent rejected candidates (all for the same e)
	var eDepReason string
	var good *big.Int
	switch mode {
	case "plain":
		c.E = gen.RandBytes(r, 32)
		if gen.Int(t, "e.ext", 0, 5) == 0 {
			c.E, _ = gen.Bytes32(t, "e")
		}
	case "near-rejection":
		// the first candidate is ACCEPTABLE, but only just: the digest is tied to the nonce so that r (to be compared with 0) or r+k
		// (to be compared with n) differs from its constant by one power of two, or only in the upper halves of some 64-bit words
		// (D = sum of c_i * 2^(32+64i)) — what a comparison that folds words or halves carelessly takes for equal
		for try := 0; try < 50; try++ {
			k1 := new(big.Int).SetBytes(gen.RandBytes(r, 40))
			k1.Mod(k1, NM1).Add(k1, one)
			D := new(big.Int)
			if gen.Bool(t, "nr.pow2") {
				D.Lsh(one, uint(gen.Uniform(t, "nr.j", 0, 255)))
			} else {
				for i := 0; i < 4; i++ {
					if c := int64(gen.Uniform(t, fmt.Sprintf("nr.c%d", i), 0, 3)); c != 0 {
						D.Add(D, new(big.Int).Lsh(big.NewInt(c*int64(1+r.Intn(0xffffff))), uint(32+64*i)))
					}
				}
			}
			if gen.Bool(t, "nr.neg") {
				D.Neg(D)
			}
			if D.Sign() == 0 {
				continue
			}
			var rr *big.Int
			if gen.Bool(t, "nr.onR") {
				rr = modn(new(big.Int).Set(D)) // r = D (or n - |D|)
			} else {
				rr = new(big.Int).Add(N, D) // r + k = n + D
				rr.Sub(rr, k1)
			}
			if rr.Sign() <= 0 || rr.Cmp(N) >= 0 {
				continue
			}
			x1 := sm2ref.Mul(k1, sm2ref.G).X
			c.E = gen.Pad32(modn(new(big.Int).Sub(rr, x1)))
			good = k1
			c.Classes = append(c.Classes, "near-rejection")
			break
		}
		if good == nil {
			c.E = gen.RandBytes(r, 32)
		}
	case "extreme-x1":
		// a nonce whose x([k]G) is within 2^224 of p, with a digest at the top of the 256-bit range: e + x1 >= 2n
		good = ExtremeX1Nonces[gen.Uniform(t, "xk", 0, len(ExtremeX1Nonces)-1)]
		switch gen.Pick(t, "xe", "allFF", "top", "n+", "uniform") {
		case "allFF":
			c.E = gen.Pad32(new(big.Int).Sub(T256, one))
		case "top":
			c.E = gen.Pad32(new(big.Int).Sub(T256, big.NewInt(int64(gen.Int(t, "eoff", 1, 100000)))))
		case "n+":
			c.E = gen.Pad32(new(big.Int).Add(N, big.NewInt(int64(gen.Int(t, "eoff", -1000, 1000)))))
		default:
			c.E = gen.RandBytes(r, 32)
		}
	case "shaped":
		// choose which of r, s, t gets the shape
		which := gen.Pick(t, "which", "t", "t", "s", "r")
		var s, tt *big.Int
		var shape string
		for try := 0; ; try++ {
			switch which {
			case "t":
				tt, shape = ScalarShape(t, "t")
				s, _ = ScalarShape(t, "s")
			case "s":
				s, shape = ScalarShape(t, "s")
				tt, _ = ScalarShape(t, "t")
			default:
				var rr *big.Int
				rr, shape = ScalarShape(t, "r")
				s, _ = ScalarShape(t, "s")
				tt = modn(new(big.Int).Add(rr, s))
			}
			e, k, _, ok := SolveSig(c.D, s, tt)
			if ok {
				c.E, good = e, k
				break
			}
			if try > 20 {
				t.Fatalf("sm2gen: cannot solve a shaped signature")
			}
		}
		c.Shaped = true
		c.Classes = append(c.Classes, "shaped:"+which+":"+shape)
	case "r=0", "r+k=n", "s=0":
		k1 := new(big.Int).SetBytes(gen.RandBytes(r, 40))
		k1.Mod(k1, NM1)
		k1.Add(k1, one)
		x1 := sm2ref.Mul(k1, sm2ref.G).X
		var ev *big.Int
		switch mode {
		case "r=0":
			ev = modn(new(big.Int).Neg(x1))
			eDep = append(eDep, k1)
			if gen.Bool(t, "alsoNeg") {
				eDep = append(eDep, new(big.Int).Sub(N, k1)) // x([-k]G) = x([k]G)
			}
		case "r+k=n":
			ev = new(big.Int).Sub(N, k1)
			ev.Sub(ev, x1)
			modn(ev)
			eDep = append(eDep, k1)
		case "s=0":
			// s=0 <=> k = r d, so pick k, r = k/d, e = r - x([k]G)
			dinv := new(big.Int).ModInverse(c.D, N)
			rr := modn(new(big.Int).Mul(k1, dinv))
			ev = modn(new(big.Int).Sub(rr, x1))
			eDep = append(eDep, k1)
		}
		if gen.Bool(t, "repeat") {
			eDep = append(eDep, eDep[0])
		}
		eDepReason = mode
		c.E = gen.Pad32(ev)
		// e may also be given as a non-reduced representative when it fits
		if v := new(big.Int).Add(ev, N); v.Cmp(T256) < 0 && gen.Bool(t, "e+n") {
			c.E = gen.Pad32(v)
		}
	}
	c.Classes = append(c.Classes, "mode:"+mode)
	// interleave e-independent rejected candidates
	nIndep := gen.Int(t, "nIndep", 0, 3)
	if gen.Int(t, "noRej", 0, 2) == 0 {
		nIndep = 0
	}
	type cand struct {
		k      *big.Int
		reason string
	}
	var cands []cand
	for _, k := range eDep {
		cands = append(cands, cand{k, eDepReason})
	}
	if gen.Int(t, "manyRej", 0, 24) == 0 {
		// a long run of out-of-range candidates before anything else
		nIndep = []int{10, 100, 999, 1000, 1001, 2500}[gen.Uniform(t, "manyN", 0, 5)]
		c.Classes = append(c.Classes, "many-rejected")
	}
	for i := 0; i < nIndep; i++ {
		var cd cand
		if gen.Bool(t, "zero") {
			cd = cand{big.NewInt(0), sm2ref.RejKZero}
		} else {
			cd = cand{geN(t, "geN"), sm2ref.RejKGeN}
		}
		pos := gen.Uniform(t, "pos", 0, len(cands))
		cands = append(cands[:pos], append([]cand{cd}, cands[pos:]...)...)
	}
	for _, cd := range cands {
		c.Stream = append(c.Stream, gen.Pad32(cd.k)...)
		c.Rejected = append(c.Rejected, cd.reason)
	}
	if good == nil {
		good = new(big.Int).SetBytes(gen.RandBytes(r, 40))
		good.Mod(good, NM1)
		good.Add(good, one)
	}
	c.Stream = append(c.Stream, gen.Pad32(good)...)
	c.Cands = len(cands) + 1
	c.Stream = append(c.Stream, gen.RandBytes(r, gen.Int(t, "trailing", 0, 40))...)
	if len(cands) > 0 {
		c.Classes = append(c.Classes, fmt.Sprintf("rejected:%d", min(len(cands), 7)))
	}
	return c
}

// VerifyCase is a generated verification input with the verdict the standard gives.
type VerifyCase struct {
	Px, Py, E, R, S []byte
	Class           string
	Special         bool // constructed (not a plain valid signature / garbage)
}

// DrawVerifyCase draws (pubx, puby, e, r, s).
func DrawVerifyCase(t *rapid.T) VerifyCase {
	r := gen.Rand(t, "content")
	d, _, _ := PrivKey(t, "d")
	px, py, pub := Pub(d)
	cls := gen.Pick(t, "vclass", "valid", "valid-shaped", "bitflip", "bitflip", "length", "r=0", "s=0", "s=n", "r+s=n", "R=inf", "r+n", "s+n",
		"x+p", "y>=p", "offcurve", "negY", "zeroKey", "garbage", "swap", "r>=n", "e+n", "chosen-R", "chosen-R", "chosen-R", "modshift", "modshift", "midway-infinity", "midway-infinity", "special-key")
	// a valid signature to start from
	mk := func(shaped bool) (e, rb, sb []byte) {
		for {
			s, _ := ScalarShape(t, "vs")
			tt, _ := ScalarShape(t, "vt")
			if !shaped {
				s = new(big.Int).SetBytes(gen.RandBytes(r, 40))
				s.Mod(s, NM1).Add(s, one)
				tt = new(big.Int).SetBytes(gen.RandBytes(r, 40))
				tt.Mod(tt, NM1).Add(tt, one)
			}
			ev, _, rr, ok := SolveSig(d, s, tt)
			if ok {
				return ev, gen.Pad32(rr), gen.Pad32(s)
			}
		}
	}
	// equation-satisfying triple from free (s,t): R=[s]G+[t]P, r=t-s, e=r-x_R
	solve := func(s, tt *big.Int) (e, rb, sb []byte, inf bool) {
		R := sm2ref.Add(sm2ref.Mul(s, sm2ref.G), sm2ref.Mul(tt, pub))
		rr := modn(new(big.Int).Sub(tt, s))
		xr := big.NewInt(0)
		if !R.Inf {
			xr = R.X
		}
		ev := modn(new(big.Int).Sub(rr, xr))
		return gen.Pad32(ev), gen.Pad32(rr), gen.Pad32(s), R.Inf
	}
	uni := func() *big.Int {
		v := new(big.Int).SetBytes(gen.RandBytes(r, 40))
		return v.Mod(v, NM1).Add(v, one)
	}
	c := VerifyCase{Px: px, Py: py, Class: cls, Special: true}
	switch cls {
	case "valid":
		c.E, c.R, c.S = mk(false)
		c.Special = false
	case "valid-shaped":
		c.E, c.R, c.S = mk(true)
	case "bitflip":
		c.E, c.R, c.S = mk(gen.Bool(t, "shaped"))
		f := gen.Int(t, "field", 0, 4)
		bit := gen.Uniform(t, "bit", 0, 255)
		tgt := [][]byte{c.Px, c.Py, c.E, c.R, c.S}[f]
		tgt = append([]byte(nil), tgt...)
		tgt[bit>>3] ^= 0x80 >> uint(bit&7)
		switch f {
		case 0:
			c.Px = tgt
		case 1:
			c.Py = tgt
		case 2:
			c.E = tgt
		case 3:
			c.R = tgt
		case 4:
			c.S = tgt
		}
		c.Class = fmt.Sprintf("bitflip:%s", []string{"px", "py", "e", "r", "s"}[f])
	case "length":
		c.E, c.R, c.S = mk(false)
		f := gen.Int(t, "field", 0, 4)
		ptr := []*[]byte{&c.Px, &c.Py, &c.E, &c.R, &c.S}[f]
		switch gen.Pick(t, "how", "dropFirst", "dropLast", "prepend0", "append", "empty", "stripZeros") {
		case "dropFirst":
			*ptr = append([]byte(nil), (*ptr)[1:]...)
		case "dropLast":
			*ptr = append([]byte(nil), (*ptr)[:31]...)
		case "prepend0":
			*ptr = append([]byte{0}, *ptr...)
		case "append":
			*ptr = append(append([]byte(nil), *ptr...), gen.RandBytes(r, gen.Int(t, "extra", 1, 8))...)
		case "empty":
			*ptr = []byte{}
		case "stripZeros":
			// make the value short first (only meaningful for r and s through shaping), then strip
			*ptr = new(big.Int).SetBytes(*ptr).Bytes()
		}
	case "r=0":
		s := uni()
		c.E, c.R, c.S, _ = solve(s, s)
	case "s=0":
		c.E, c.R, c.S, _ = solve(big.NewInt(0), uni())
	case "s=n":
		// s = n is 0 mod n: the equation holds for s = 0; presented as the 32-byte value n (out of range)
		c.E, c.R, c.S, _ = solve(big.NewInt(0), uni())
		c.S = gen.Pad32(N)
	case "r+s=n":
		c.E, c.R, c.S, _ = solve(uni(), big.NewInt(0))
	case "R=inf":
		// s = -t d  =>  [s]G + [t]P = O ; then e = r
		tt := uni()
		s := modn(new(big.Int).Neg(new(big.Int).Mul(tt, d)))
		if s.Sign() == 0 || modn(new(big.Int).Sub(tt, s)).Sign() == 0 {
			s = uni() // degenerate, fall back to an ordinary valid one
		}
		var inf bool
		c.E, c.R, c.S, inf = solve(s, tt)
		if !inf {
			c.Class = "valid"
			c.Special = false
		}
	case "r+n", "s+n", "e+n":
		// need a value < 2^256 - n
		lim := new(big.Int).Sub(T256, N)
		small := new(big.Int).SetBytes(gen.RandBytes(r, 40))
		small.Mod(small, new(big.Int).Sub(lim, one)).Add(small, one)
		switch cls {
		case "r+n":
			// r small: t = r + s
			s := uni()
			c.E, c.R, c.S, _ = solve(s, modn(new(big.Int).Add(small, s)))
			c.R = gen.Pad32(new(big.Int).Add(small, N))
		case "s+n":
			c.E, c.R, c.S, _ = solve(small, uni())
			c.S = gen.Pad32(new(big.Int).Add(small, N))
		case "e+n":
			// e is an input of signing: sign a digest e < 2^256-n, then present e+n (same residue mod n, still 32 bytes): stays valid
			k := uni()
			rr, ss, _, _, err := sm2ref.Sign(d, gen.Pad32(small), gen.Pad32(k))
			if err != nil {
				c.E, c.R, c.S = mk(false)
				c.Class = "valid"
			} else {
				c.E, c.R, c.S = gen.Pad32(new(big.Int).Add(small, N)), gen.Pad32(rr), gen.Pad32(ss)
			}
		}
	case "chosen-R":
		// Full control over (e, x_R): pick the point R (x near p / near n / near 0 / with leading zeros / uniform), the digest e
		// (all-FF, near 2^256, near n, 0, uniform) and s; then r = (e+x_R) mod n, t = r+s, and the PUBLIC KEY is solved:
		// P = [t^-1](R - [s]G). A valid signature by construction (the private key is unknown and not needed).
		for try := 0; ; try++ {
			var R sm2ref.Point
			xcls := gen.Pick(t, "Rx", "near-p", "near-p", "near-n", "near-0", "lead00", "uniform")
			var x0 *big.Int
			switch xcls {
			case "near-p":
				x0 = new(big.Int).Sub(P, big.NewInt(int64(gen.Int(t, "xoff", 1, 3000))))
			case "near-n":
				x0 = new(big.Int).Add(N, big.NewInt(int64(gen.Int(t, "xoff", -1500, 1500))))
			case "near-0":
				x0 = big.NewInt(int64(gen.Int(t, "xoff", 0, 3000)))
			case "lead00":
				x0 = new(big.Int).SetBytes(gen.RandBytes(r, 32-gen.Uniform(t, "xz", 1, 24)))
			default:
				x0 = new(big.Int).SetBytes(gen.RandBytes(r, 40))
				x0.Mod(x0, P)
			}
			for {
				var ok bool
				if R, ok = sm2ref.LiftX(x0); ok {
					break
				}
				x0.Add(x0, one).Mod(x0, P)
			}
			if gen.Bool(t, "Rneg") {
				R = sm2ref.Neg(R)
			}
			var ev *big.Int
			ecls := gen.Pick(t, "ecls", "allFF", "near-2^256", "near-n", "zero", "uniform", ">=n")
			switch ecls {
			case "allFF":
				ev = new(big.Int).Sub(T256, one)
			case "near-2^256":
				ev = new(big.Int).Sub(T256, big.NewInt(int64(gen.Int(t, "eoff", 1, 1000))))
			case "near-n":
				ev = new(big.Int).Add(N, big.NewInt(int64(gen.Int(t, "eoff", -500, 500))))
			case "zero":
				ev = big.NewInt(int64(gen.Int(t, "eoff", 0, 3)))
			case ">=n":
				span := new(big.Int).Sub(T256, N)
				ev = new(big.Int).SetBytes(gen.RandBytes(r, 40))
				ev.Mod(ev, span).Add(ev, N)
			default:
				ev = new(big.Int).SetBytes(gen.RandBytes(r, 32))
			}
			rr := modn(new(big.Int).Add(ev, R.X))
			s := uni()
			tt := modn(new(big.Int).Add(rr, s))
			if rr.Sign() == 0 || tt.Sign() == 0 {
				continue
			}
			// P = t^-1 (R - sG)
			Q := sm2ref.Add(R, sm2ref.Neg(sm2ref.Mul(s, sm2ref.G)))
			if Q.Inf {
				continue
			}
			pk := sm2ref.Mul(new(big.Int).ModInverse(tt, N), Q)
			c.Px, c.Py, c.E, c.R, c.S = gen.Pad32(pk.X), gen.Pad32(pk.Y), gen.Pad32(ev), gen.Pad32(rr), gen.Pad32(s)
			c.Class = "chosen-R:x=" + xcls + ",e=" + ecls
			break
		}
	case "special-key":
		// public keys that are small multiples of the generator or their negatives: G, -G (the image of the EXCLUDED private key
		// n-1 — no signer has it, but it is a valid point, and verification is defined for it), 2G, -2G, ... The tuple comes from
		// the equation-solving route, which needs only the public point.
		k := int64(gen.Uniform(t, "gmult", 1, 4))
		pt := sm2ref.Mul(big.NewInt(k), sm2ref.G)
		name := fmt.Sprintf("%dG", k)
		if gen.Uniform(t, "gneg", 0, 2) != 0 {
			pt = sm2ref.Neg(pt)
			name = "-" + name
		}
		pub = pt
		c.Px, c.Py = gen.Pad32(pt.X), gen.Pad32(pt.Y)
		var inf bool
		c.E, c.R, c.S, inf = solve(uni(), uni())
		c.Class = "special-key:" + name
		if inf {
			c.Class += ",R=inf"
		}
	case "x+p", "y>=p":
		// key with a tiny x so that x+p fits in 32 bytes; the secret key of such a point is unknown, so the
		// signature comes from the equation-solving route (needs only the public point)
		lim := new(big.Int).Sub(T256, P)
		x := big.NewInt(int64(gen.Int(t, "tinyx", 0, 2000)))
		var pt sm2ref.Point
		for {
			var ok bool
			if pt, ok = sm2ref.LiftX(x); ok {
				break
			}
			x.Add(x, one)
		}
		if gen.Bool(t, "negy") {
			pt = sm2ref.Neg(pt)
		}
		pub = pt
		c.Px, c.Py = gen.Pad32(pt.X), gen.Pad32(pt.Y)
		c.E, c.R, c.S, _ = solve(uni(), uni())
		if cls == "x+p" {
			if gen.Int(t, "keepValid", 0, 3) == 0 || pt.X.Cmp(lim) >= 0 {
				c.Class = "tinyx-valid"
			} else {
				c.Px = gen.Pad32(new(big.Int).Add(pt.X, P))
			}
		} else {
			// y replaced by a value in [p, 2^256): never canonical
			v := new(big.Int).SetBytes(gen.RandBytes(r, 40))
			v.Mod(v, lim).Add(v, P)
			c.Py = gen.Pad32(v)
		}
	case "offcurve":
		c.E, c.R, c.S = mk(false)
		y := new(big.Int).SetBytes(py)
		y.Add(y, big.NewInt(int64(gen.Int(t, "dy", 1, 3))))
		y.Mod(y, P)
		c.Py = gen.Pad32(y)
	case "negY":
		// (x, p-y) is a valid key, but not the signer's: the signature must be rejected
		c.E, c.R, c.S = mk(false)
		c.Py = gen.Pad32(new(big.Int).Sub(P, new(big.Int).SetBytes(py)))
	case "zeroKey":
		c.E, c.R, c.S = mk(false)
		c.Px, c.Py = make([]byte, 32), make([]byte, 32)
	case "garbage":
		c.Px, c.Py, c.E, c.R, c.S = gen.RandBytes(r, 32), gen.RandBytes(r, 32), gen.RandBytes(r, 32), gen.RandBytes(r, 32), gen.RandBytes(r, 32)
		if gen.Bool(t, "validKey") {
			c.Px, c.Py = px, py
		}
	case "midway-infinity":
		// A VALID signature whose public key is solved so that, while the verifier computes [s]G + [t]P, the accumulator of its
		// interleaved loop is the point at infinity right after a chosen inner addition (see MidwayInfinity).
		sv, tv := uni(), uni()
		if gen.Bool(t, "small-t") {
			tv = new(big.Int).SetBytes(gen.RandBytes(r, gen.Uniform(t, "t-bytes", 1, 4)))
			if tv.Sign() == 0 {
				tv.SetInt64(5)
			}
		}
		pk, _, ok := MidwaySpecial(t, "mid", sv, tv)
		rr := modn(new(big.Int).Sub(tv, sv))
		if !ok || rr.Sign() == 0 {
			c.E, c.R, c.S = mk(false)
			c.Class, c.Special = "valid", false
			break
		}
		c.Px, c.Py = gen.Pad32(pk.X), gen.Pad32(pk.Y)
		R := sm2ref.Add(sm2ref.Mul(sv, sm2ref.G), sm2ref.Mul(tv, pk))
		if R.Inf {
			c.E, c.R, c.S = mk(false)
			c.Px, c.Py = px, py
			c.Class, c.Special = "valid", false
			break
		}
		c.E, c.R, c.S = gen.Pad32(modn(new(big.Int).Sub(rr, R.X))), gen.Pad32(rr), gen.Pad32(sv)
	case "modshift":
		// A valid signature with ONE field moved by a difference of the moduli in play (n, p, 2^256): the values an implementation
		// confusing two reductions (mod n vs mod p vs mod 2^256, or a wrapped second candidate for x_R) would treat as equivalent.
		// The reference decides (almost always: reject; +-n on e stays valid).
		c.E, c.R, c.S = mk(gen.Bool(t, "shaped"))
		var delta *big.Int
		dn := gen.Pick(t, "delta", "n", "p", "p-n", "2^256-n", "2^256-p", "2(p-n)")
		switch dn {
		case "n":
			delta = new(big.Int).Set(N)
		case "p":
			delta = new(big.Int).Set(gen.P)
		case "p-n":
			delta = new(big.Int).Sub(gen.P, N)
		case "2^256-n":
			delta = new(big.Int).Sub(T256, N)
		case "2^256-p":
			delta = new(big.Int).Sub(T256, gen.P)
		default:
			delta = new(big.Int).Lsh(new(big.Int).Sub(gen.P, N), 1)
		}
		if gen.Bool(t, "neg") {
			delta.Neg(delta)
			dn = "-" + dn
		}
		f := gen.Pick(t, "mfield", "e", "e", "r", "s")
		red := gen.Pick(t, "reduce", "mod n", "mod 2^256")
		ptr := map[string]*[]byte{"e": &c.E, "r": &c.R, "s": &c.S}[f]
		v := new(big.Int).SetBytes(*ptr)
		v.Add(v, delta)
		if red == "mod n" {
			v.Mod(v, N)
		} else {
			v.Mod(v, T256)
		}
		*ptr = gen.Pad32(v)
		c.Class = "modshift:" + f + dn
	case "swap":
		c.E, c.R, c.S = mk(false)
		c.R, c.S = c.S, c.R
	case "r>=n":
		c.E, c.R, c.S = mk(false)
		if gen.Bool(t, "which") {
			c.R = gen.Pad32(geN(t, "rv"))
		} else {
			c.S = gen.Pad32(geN(t, "sv"))
		}
	}
	return c
}

// NearMissY returns, for an x on the curve, a y' such that (x, y') is OFF the curve but y'^2 agrees with x^3-3x+b in most of a word-level
// representation: the four 64-bit limbs of the right-hand side (plain or Montgomery form) are changed only in a chosen part of one limb
// (high half, low half, one bit, or the high halves of a limb entirely), and y' is a square root of that value. A curve check that
// compares limbs partially (one half, folded words, ...) accepts such points. ok=false if no square root was found in 40 tries.
func NearMissY(t *rapid.T, label string, x *big.Int) (y *big.Int, ok bool) {
	rinv := new(big.Int).ModInverse(T256, P)
	for try := 0; try < 40; try++ {
		rhs := new(big.Int).Exp(x, big.NewInt(3), P)
		rhs.Sub(rhs, new(big.Int).Mul(big.NewInt(3), x)).Add(rhs, sm2ref.B).Mod(rhs, P)
		mont := gen.Bool(t, label+".montdomain")
		v := new(big.Int).Set(rhs)
		if mont {
			v.Lsh(v, 256).Mod(v, P)
		}
		var mask uint64
		switch gen.Pick(t, label+".part", "high32", "high32", "low32", "onebit", "high32-all", "high32-every-limb") {
		case "high32":
			mask = uint64(gen.Uniform(t, label+".m", 1, 1<<31-1)) << 32
		case "low32":
			mask = uint64(gen.Uniform(t, label+".m", 1, 1<<31-1))
		case "onebit":
			mask = 1 << uint(gen.Uniform(t, label+".bitpos", 0, 63))
		case "high32-all":
			mask = 0xffffffff00000000
		case "high32-every-limb":
			m := uint64(gen.Uniform(t, label+".m", 1, 1<<31-1)) << 32
			for l := 0; l < 4; l++ {
				v.Xor(v, new(big.Int).Lsh(new(big.Int).SetUint64(m), uint(64*l)))
			}
		}
		if mask != 0 {
			v.Xor(v, new(big.Int).Lsh(new(big.Int).SetUint64(mask), uint(64*gen.Uniform(t, label+".limb", 0, 3))))
		}
		if v.Cmp(P) >= 0 {
			continue
		}
		if mont {
			v.Mul(v, rinv).Mod(v, P)
		}
		if v.Cmp(rhs) == 0 {
			continue
		}
		if r, ok := sm2ref.SqrtP(v); ok {
			return r, true
		}
	}
	return nil, false
}

// MidwayInfinity models the EVALUATION ORDER of the library's double-scalar routine [g]G + [t]P (interleaved: from position 256 down
// to 0 double, add the 6-3-14 comb entries of g for positions below 14, add the signed width-4 NAF digit of t; then the remainder
// table) and returns a private key d such that, for P = [d]G, the accumulator is THE POINT AT INFINITY right after a chosen inner
// step (a comb addition or a NAF addition) — although the final result is an ordinary point. A formula that is not complete for an
// accumulator at infinity in the middle of the loop is reached only this way. The model is used to CHOOSE inputs; the oracle stays
// the reference multiplication, so a library that evaluates in another order just sees ordinary inputs.
func MidwayInfinity(t *rapid.T, label string, g, tt *big.Int) (d *big.Int, where string, ok bool) {
	// signed NAF of t with digits odd, |digit| < 16, at least 4 zeros after a non-zero digit
	naf := make([]int64, 258)
	k := new(big.Int).Set(tt)
	for i := 0; k.Sign() > 0 && i < 258; i++ {
		if k.Bit(0) == 1 {
			dgt := int64(new(big.Int).And(k, big.NewInt(31)).Int64())
			if dgt >= 16 {
				dgt -= 32
			}
			naf[i] = dgt
			k.Sub(k, big.NewInt(dgt))
		}
		k.Rsh(k, 1)
	}
	type ev struct {
		alpha, beta *big.Int
		name        string
	}
	var evs []ev
	alpha, beta := new(big.Int), new(big.Int)
	for i := 256; i >= 0; i-- {
		alpha.Lsh(alpha, 1)
		beta.Lsh(beta, 1)
		if i < 14 {
			for j := 0; j < 3; j++ {
				v := new(big.Int)
				for b := 0; b < 6; b++ {
					if g.Bit(b*42+i+j*14+4) == 1 {
						v.SetBit(v, b*42+j*14+4, 1)
					}
				}
				if v.Sign() != 0 {
					alpha.Add(alpha, v)
					evs = append(evs, ev{new(big.Int).Set(alpha), new(big.Int).Set(beta), fmt.Sprintf("after the comb addition at position %d, sub-table %d", i, j)})
				}
			}
		}
		if naf[i] != 0 {
			beta.Add(beta, big.NewInt(naf[i]))
			evs = append(evs, ev{new(big.Int).Set(alpha), new(big.Int).Set(beta), fmt.Sprintf("after the NAF addition at position %d", i)})
		}
	}
	var cands []ev
	for _, e := range evs[:max(len(evs)-1, 0)] { // not the very last event: something must follow
		a, b := new(big.Int).Mod(e.alpha, N), new(big.Int).Mod(e.beta, N)
		if a.Sign() != 0 && b.Sign() != 0 {
			cands = append(cands, e)
		}
	}
	if len(cands) == 0 {
		return nil, "", false
	}
	// prefer late events (positions below 14, where comb additions follow)
	e := cands[len(cands)-1-gen.Uniform(t, label+".event", 0, min(len(cands)-1, 40))]
	d = new(big.Int).ModInverse(new(big.Int).Mod(e.beta, N), N)
	d.Mul(d, e.alpha).Neg(d).Mod(d, N)
	if d.Sign() == 0 || d.Cmp(NM1) >= 0 {
		return nil, "", false
	}
	return d, e.name, true
}

// MidwaySpecial generalises MidwayInfinity: with the same model of the evaluation order it returns a point P such that, in the
// computation of [g]G + [t]P, the accumulator holds a SPECIAL value right before a chosen inner addition: the point at infinity, one of
// the two points with x = 0 ((0, +-sqrt b): finite points a "x is zero means empty" shortcut mistakes for infinity), the very point
// that is about to be added (the doubling case of an addition formula) or its negative (the sum is infinity). P is solved as
// [1/beta](Q - [alpha]G); no discrete logarithm of Q is needed. The oracle stays the reference multiplication.
func MidwaySpecial(t *rapid.T, label string, g, tt *big.Int) (P sm2ref.Point, where string, ok bool) {
	naf := make([]int64, 258)
	k := new(big.Int).Set(tt)
	for i := 0; k.Sign() > 0 && i < 258; i++ {
		if k.Bit(0) == 1 {
			dgt := int64(new(big.Int).And(k, big.NewInt(31)).Int64())
			if dgt >= 16 {
				dgt -= 32
			}
			naf[i] = dgt
			k.Sub(k, big.NewInt(dgt))
		}
		k.Rsh(k, 1)
	}
	type ev struct {
		alpha, beta *big.Int // accumulator = alpha*G + beta*P right BEFORE this addition
		comb        *big.Int // addend is [comb]G, or
		digit       int64    // addend is [digit]P
		name        string
	}
	var evs []ev
	alpha, beta := new(big.Int), new(big.Int)
	add := func(comb *big.Int, digit int64, name string) {
		evs = append(evs, ev{new(big.Int).Set(alpha), new(big.Int).Set(beta), comb, digit, name})
		if comb != nil {
			alpha.Add(alpha, comb)
		} else {
			beta.Add(beta, big.NewInt(digit))
		}
	}
	for i := 256; i >= 0; i-- {
		alpha.Lsh(alpha, 1)
		beta.Lsh(beta, 1)
		if i < 14 {
			for j := 0; j < 3; j++ {
				v := new(big.Int)
				for b := 0; b < 6; b++ {
					if g.Bit(b*42+i+j*14+4) == 1 {
						v.SetBit(v, b*42+j*14+4, 1)
					}
				}
				if v.Sign() != 0 {
					add(v, 0, fmt.Sprintf("before the comb addition at position %d, sub-table %d", i, j))
				}
			}
		}
		if naf[i] != 0 {
			add(nil, naf[i], fmt.Sprintf("before the NAF addition at position %d", i))
		}
	}
	if low := new(big.Int).And(g, big.NewInt(15)); low.Sign() != 0 {
		add(low, 0, "before the remainder-table addition")
	}
	var cands []ev
	for _, e := range evs {
		if new(big.Int).Mod(e.beta, N).Sign() != 0 {
			cands = append(cands, e)
		}
	}
	if len(cands) == 0 {
		return sm2ref.Point{}, "", false
	}
	e := cands[len(cands)-1-gen.Uniform(t, label+".event", 0, min(len(cands)-1, 45))]
	target := gen.Pick(t, label+".target", "infinity", "x=0,+y", "x=0,-y", "the addend itself", "minus the addend")
	binv := new(big.Int).ModInverse(new(big.Int).Mod(e.beta, N), N)
	var Q sm2ref.Point
	switch target {
	case "infinity":
		Q = sm2ref.Point{Inf: true}
	case "x=0,+y", "x=0,-y":
		q, okq := sm2ref.LiftX(big.NewInt(0))
		if !okq {
			return sm2ref.Point{}, "", false
		}
		if target == "x=0,-y" {
			q = sm2ref.Neg(q)
		}
		Q = q
	default:
		sign := int64(1)
		if target == "minus the addend" {
			sign = -1
		}
		if e.comb != nil {
			Q = sm2ref.Mul(modn(new(big.Int).Mul(e.comb, big.NewInt(sign))), sm2ref.G)
		} else {
			// accumulator = +-[digit]P:  alpha + beta*d = +-digit*d  =>  d = -alpha / (beta -+ digit)
			den := modn(new(big.Int).Sub(e.beta, big.NewInt(sign*e.digit)))
			if den.Sign() == 0 || new(big.Int).Mod(e.alpha, N).Sign() == 0 {
				return sm2ref.Point{}, "", false
			}
			d := new(big.Int).ModInverse(den, N)
			d.Mul(d, e.alpha).Neg(d)
			modn(d)
			if d.Sign() == 0 {
				return sm2ref.Point{}, "", false
			}
			return sm2ref.Mul(d, sm2ref.G), "accumulator = " + target + " " + e.name, true
		}
	}
	// P = [1/beta](Q - [alpha]G)
	P = sm2ref.Mul(binv, sm2ref.Add(Q, sm2ref.Neg(sm2ref.Mul(modn(new(big.Int).Set(e.alpha)), sm2ref.G))))
	if P.Inf {
		return sm2ref.Point{}, "", false
	}
	return P, "accumulator = " + target + " " + e.name, true
}
