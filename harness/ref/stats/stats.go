// Package stats records what a verification test process actually explored and
// writes it to $VERIF_STATS_DIR so the driver (/verif/vcheck) can merge shards
// into /verif/evidence/<id>.json.
//
// Nothing in here decides a property; it only counts.
package stats

import (
	"encoding/binary"
	"encoding/hex"
	"encoding/json"
	"fmt"
	"hash/fnv"
	"os"
	"path/filepath"
	"sort"
	"sync"
)

const (
	maxHashes         = 200000 // per process; beyond that distinct_nontrivial is a lower bound
	maxSamplesPerCls  = 2
	maxSamplesOverall = 40
)

type Sample struct {
	Class string      `json:"class"`
	Case  interface{} `json:"case"`
}

type Recorder struct {
	mu         sync.Mutex
	prop, sub  string
	evals      int64
	ntCount    int64 // non-trivial evaluations (not distinct)
	enumerated int64 // cases of a complete enumeration, distinct by construction
	hashes     map[uint64]struct{}
	capped     bool
	classes    map[string]int64
	samples    []Sample
	perClass   map[string]int
	knownHits  map[string]int64
	violations []map[string]interface{}
	notes      []string
	skipped    []string
	exhaustive *bool
	rule       string
}

var (
	regMu sync.Mutex
	reg   = map[string]*Recorder{}
)

// Get returns the process-wide recorder for (property, sub-check).
func Get(prop, sub string) *Recorder {
	regMu.Lock()
	defer regMu.Unlock()
	k := prop + "/" + sub
	if r, ok := reg[k]; ok {
		return r
	}
	r := &Recorder{prop: prop, sub: sub, hashes: map[uint64]struct{}{}, classes: map[string]int64{},
		perClass: map[string]int{}, knownHits: map[string]int64{}}
	reg[k] = r
	return r
}

// Rule states how cases are generated and what makes one non-trivial.
func (r *Recorder) Rule(s string) { r.mu.Lock(); r.rule = s; r.mu.Unlock() }

// Exhaustive marks that this sub-check enumerated its (finite) space completely.
func (r *Recorder) Exhaustive(b bool) { r.mu.Lock(); r.exhaustive = &b; r.mu.Unlock() }

func (r *Recorder) Note(format string, a ...interface{}) {
	r.mu.Lock()
	if len(r.notes) < 50 {
		r.notes = append(r.notes, fmt.Sprintf(format, a...))
	}
	r.mu.Unlock()
}

// Skipped records a sub-check that could not be run (never a violation).
func (r *Recorder) Skipped(what string) {
	r.mu.Lock()
	r.skipped = append(r.skipped, what)
	r.mu.Unlock()
}

// Hash is a helper: FNV-1a over the given byte strings with length framing.
func Hash(parts ...[]byte) uint64 {
	h := fnv.New64a()
	var l [8]byte
	for _, p := range parts {
		binary.LittleEndian.PutUint64(l[:], uint64(len(p)))
		h.Write(l[:])
		h.Write(p)
	}
	return h.Sum64()
}

// HashS hashes strings.
func HashS(parts ...string) uint64 {
	bs := make([][]byte, len(parts))
	for i, p := range parts {
		bs[i] = []byte(p)
	}
	return Hash(bs...)
}

// Case records one evaluated case. key identifies the case for distinctness,
// nontrivial says whether it satisfies the sub-check's stated rule, classes are
// generator/shape labels whose distribution is reported.
func (r *Recorder) Case(key uint64, nontrivial bool, classes ...string) {
	r.mu.Lock()
	r.evals++
	if nontrivial {
		r.ntCount++
		if len(r.hashes) < maxHashes {
			r.hashes[key] = struct{}{}
		} else if _, ok := r.hashes[key]; !ok {
			r.capped = true
		}
	}
	for _, c := range classes {
		if c != "" {
			r.classes[c]++
		}
	}
	flush := autoFlush && r.evals%4000 == 0
	r.mu.Unlock()
	if flush {
		FlushAll() // fuzz workers are killed without running cleanups
	}
}

var autoFlush = os.Getenv("VERIF_STATS_AUTOFLUSH") != ""

// Enumerated records n cases of a complete enumeration: each is evaluated once
// and is distinct from every other by construction of the enumerating loops
// (shards partition the space), so they are counted rather than hashed.
func (r *Recorder) Enumerated(n int64, classes ...string) {
	r.mu.Lock()
	r.evals += n
	r.ntCount += n
	r.enumerated += n
	for _, c := range classes {
		if c != "" {
			r.classes[c] += n
		}
	}
	r.mu.Unlock()
}

// WantSample tells whether a sample of this class would still be kept (so the
// caller can avoid rendering it otherwise).
func (r *Recorder) WantSample(class string) bool {
	r.mu.Lock()
	defer r.mu.Unlock()
	return len(r.samples) < maxSamplesOverall && r.perClass[class] < maxSamplesPerCls
}

// Sample keeps a rendered case (at most a few per class).
func (r *Recorder) Sample(class string, c interface{}) {
	r.mu.Lock()
	if len(r.samples) < maxSamplesOverall && r.perClass[class] < maxSamplesPerCls {
		r.perClass[class]++
		r.samples = append(r.samples, Sample{class, c})
	}
	r.mu.Unlock()
}

// KnownHit records that a violation matching a listed known finding was met
// (and deliberately not reported as a new violation).
func (r *Recorder) KnownHit(sig string) { r.mu.Lock(); r.knownHits[sig]++; r.mu.Unlock() }

// Violation records a violation found by a non-rapid (enumerating/tracing)
// check, with a replayable description. It also writes the description to
// $VERIF_REPLAY_DIR so the driver can point at it.
func (r *Recorder) Violation(sig string, desc map[string]interface{}) string {
	r.mu.Lock()
	defer r.mu.Unlock()
	if desc == nil {
		desc = map[string]interface{}{}
	}
	desc["signature"] = sig
	desc["property"] = r.prop
	desc["sub"] = r.sub
	path := ""
	if dir := os.Getenv("VERIF_REPLAY_DIR"); dir != "" && len(r.violations) < 5 {
		os.MkdirAll(dir, 0o755)
		path = filepath.Join(dir, fmt.Sprintf("%s-%s-%d-%d.json", r.prop, r.sub, os.Getpid(), len(r.violations)))
		b, _ := json.MarshalIndent(desc, "", " ")
		os.WriteFile(path, b, 0o644)
		desc["replay"] = path
	}
	if len(r.violations) < 20 {
		r.violations = append(r.violations, desc)
	}
	return path
}

// Hex renders bytes for samples.
func Hex(b []byte) string {
	if len(b) > 96 {
		return fmt.Sprintf("%s…(%d bytes)", hex.EncodeToString(b[:48]), len(b))
	}
	return hex.EncodeToString(b)
}

type out struct {
	Prop       string                   `json:"property"`
	Sub        string                   `json:"sub"`
	Evals      int64                    `json:"evaluations"`
	NTEvals    int64                    `json:"nontrivial_evaluations"`
	Distinct   int                      `json:"distinct_hashed"`
	Enumerated int64                    `json:"distinct_enumerated"`
	Capped     bool                     `json:"distinct_capped"`
	HashFile   string                   `json:"hash_file"`
	Classes    map[string]int64         `json:"classes"`
	Samples    []Sample                 `json:"samples"`
	KnownHits  map[string]int64         `json:"known_hits"`
	Violations []map[string]interface{} `json:"violations"`
	Notes      []string                 `json:"notes"`
	Skipped    []string                 `json:"skipped"`
	Exhaustive *bool                    `json:"exhaustive,omitempty"`
	Rule       string                   `json:"rule"`
}

// FlushAll writes every recorder of this process. Call from TestMain or via
// t.Cleanup of each test (idempotent: rewrites the same files).
func FlushAll() {
	dir := os.Getenv("VERIF_STATS_DIR")
	if dir == "" {
		return
	}
	os.MkdirAll(dir, 0o755)
	regMu.Lock()
	rs := make([]*Recorder, 0, len(reg))
	for _, r := range reg {
		rs = append(rs, r)
	}
	regMu.Unlock()
	for _, r := range rs {
		r.mu.Lock()
		base := fmt.Sprintf("%s-%s-%d", r.prop, r.sub, os.Getpid())
		hs := make([]uint64, 0, len(r.hashes))
		for h := range r.hashes {
			hs = append(hs, h)
		}
		sort.Slice(hs, func(i, j int) bool { return hs[i] < hs[j] })
		hb := make([]byte, 8*len(hs))
		for i, h := range hs {
			binary.LittleEndian.PutUint64(hb[8*i:], h)
		}
		hf := filepath.Join(dir, base+".hashes")
		os.WriteFile(hf, hb, 0o644)
		o := out{r.prop, r.sub, r.evals, r.ntCount, len(hs), r.enumerated, r.capped, hf, r.classes, r.samples, r.knownHits,
			r.violations, r.notes, r.skipped, r.exhaustive, r.rule}
		b, err := json.Marshal(o)
		if err == nil {
			os.WriteFile(filepath.Join(dir, base+".json"), b, 0o644)
		} else {
			os.WriteFile(filepath.Join(dir, base+".err"), []byte(err.Error()), 0o644)
		}
		r.mu.Unlock()
	}
}

// Tally counts a generator class without counting an evaluation (for side information such as "a foreign call preceded this case").
func (r *Recorder) Tally(class string) {
	r.mu.Lock()
	r.classes[class]++
	r.mu.Unlock()
}

// TallyN adds n to a side-information counter.
func (r *Recorder) TallyN(class string, n int) {
	r.mu.Lock()
	r.classes[class] += int64(n)
	r.mu.Unlock()
}
