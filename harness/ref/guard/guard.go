// Package guard allocates byte slices that end exactly at, or start exactly
// after, an inaccessible (PROT_NONE) page, with canary bytes on the accessible
// side. Together with debug.SetPanicOnFault(true) an out-of-range access by
// assembly or unsafe code becomes a recoverable panic or a damaged canary.
package guard

import (
	"fmt"
	"runtime/debug"
	"sync"
	"syscall"
	"unsafe"
)

const Page = 4096
const canary = 0xA5

// Buf is a guarded allocation. B is the usable slice (len == cap == n unless
// made with spare capacity).
type Buf struct {
	B      []byte
	region []byte // whole mapping incl. guard pages
	data   []byte // accessible pages
	off    int    // offset of B in data
	n      int    // len(B) at allocation (cap may be larger for AllocCap)
	capn   int
}

func mmap(pages int) []byte {
	m, err := syscall.Mmap(-1, 0, pages*Page, syscall.PROT_READ|syscall.PROT_WRITE, syscall.MAP_ANON|syscall.MAP_PRIVATE)
	if err != nil {
		panic("guard: mmap: " + err.Error())
	}
	return m
}

func alloc(n int, atEnd bool, spare int) *Buf {
	total := n + spare
	dp := (total + Page - 1) / Page
	if dp == 0 {
		dp = 1
	}
	region := mmap(dp + 2)
	if err := syscall.Mprotect(region[:Page], syscall.PROT_NONE); err != nil {
		panic(err)
	}
	if err := syscall.Mprotect(region[(dp+1)*Page:], syscall.PROT_NONE); err != nil {
		panic(err)
	}
	data := region[Page : (dp+1)*Page]
	for i := range data {
		data[i] = canary
	}
	off := 0
	if atEnd {
		off = len(data) - total
	}
	b := data[off : off+n : off+total]
	return &Buf{B: b, region: region, data: data, off: off, n: n, capn: total}
}

// End returns n bytes whose last byte is immediately followed by an inaccessible page.
func End(n int) *Buf { return alloc(n, true, 0) }

// Start returns n bytes whose first byte immediately follows an inaccessible page.
func Start(n int) *Buf { return alloc(n, false, 0) }

// EndCap returns a slice of length n and capacity n+spare whose capacity ends at an inaccessible page.
func EndCap(n, spare int) *Buf { return alloc(n, true, spare) }

// OverCap gives B a capacity that reaches `over` bytes INTO the inaccessible page behind it (the length is unchanged): the shape
// of a slice cut from a larger mapping whose rest is not accessible. A callee may read an input only up to its length, whatever
// capacity the slice header advertises. Only meaningful for buffers made with End.
func (g *Buf) OverCap(over int) *Buf {
	if len(g.B) == 0 {
		return g
	}
	g.B = unsafe.Slice(&g.B[0], len(g.B)+over)[:len(g.B)]
	return g
}

// Fill copies src into the buffer (len(src) must equal the allocated length).
func (g *Buf) Fill(src []byte) *Buf {
	if len(src) != g.n {
		panic(fmt.Sprintf("guard: Fill %d into %d", len(src), g.n))
	}
	copy(g.B[:g.n], src)
	return g
}

// ReadOnly makes the accessible pages read-only (call after Fill): an input the callee may only read. A write faults.
func (g *Buf) ReadOnly() *Buf {
	if err := syscall.Mprotect(g.data, syscall.PROT_READ); err != nil {
		panic(err)
	}
	return g
}

// RO returns a read-only copy of src whose last byte is followed by an inaccessible page.
func RO(src []byte) *Buf { return End(len(src)).Fill(src).ReadOnly() }

// Ptr returns the address of the first byte (also for n == 0, where it is the guard boundary itself).
func (g *Buf) Ptr() unsafe.Pointer { return unsafe.Pointer(&g.data[:g.off+1][g.off:][0:1][0]) }

// CanariesIntact checks every accessible byte outside B[:upto] (upto counted from the start of B).
func (g *Buf) CanariesIntact(upto int) (bool, int) {
	for i := 0; i < g.off; i++ {
		if g.data[i] != canary {
			return false, i - g.off
		}
	}
	for i := g.off + upto; i < len(g.data); i++ {
		if g.data[i] != canary {
			return false, i - g.off
		}
	}
	return true, 0
}

// Free unmaps the region.
func (g *Buf) Free() {
	if g != nil && g.region != nil {
		syscall.Mprotect(g.region, syscall.PROT_READ|syscall.PROT_WRITE)
		syscall.Munmap(g.region)
		g.region, g.data, g.B = nil, nil, nil
	}
}

// Fault describes a recovered memory fault.
type Fault struct {
	Addr uintptr
	Msg  string
}

// Run executes f with faults turned into panics and reports a fault (nil if none)
// or re-panics with anything that is not a memory fault.
func Run(f func()) (flt *Fault, other interface{}) {
	old := debug.SetPanicOnFault(true)
	defer debug.SetPanicOnFault(old)
	defer func() {
		if r := recover(); r != nil {
			type addrer interface{ Addr() uintptr }
			if e, ok := r.(error); ok {
				if a, ok2 := r.(addrer); ok2 {
					flt = &Fault{Addr: a.Addr(), Msg: e.Error()}
					return
				}
			}
			other = r
		}
	}()
	f()
	return nil, nil
}

// Where describes a fault address relative to a buffer.
func (g *Buf) Where(addr uintptr) string {
	if len(g.data) == 0 {
		return "?"
	}
	base := uintptr(unsafe.Pointer(&g.data[0])) + uintptr(g.off)
	d := int64(addr) - int64(base)
	if d >= -2*Page && d < int64(g.capn)+2*Page {
		return fmt.Sprintf("%+d bytes from the start of the buffer (len %d, cap %d)", d, g.n, g.capn)
	}
	return ""
}

// ---- memory around a 2^32-aligned address ----------------------------------------------------------------------------------

var (
	span4GOnce sync.Once
	span4G     []byte
)

// Span4G returns a process-wide mapping of 2*half bytes (half = 64 KiB) whose MIDDLE byte index `half` lies at an address that is
// a multiple of 2^32 (nil if the kernel grants no such address). Pointers into it differ in their upper 32 bits on the two sides:
// code that compares, increments or bounds-checks an address with a 32-bit instruction goes wrong exactly here, and nowhere else
// in a process whose heap, stack and mappings happen to lie inside one 4 GiB window.
func Span4G() (mem []byte, half int) {
	half = 64 << 10
	span4GOnce.Do(func() {
		const mapFixedNoReplace = 0x100000
		for k := uintptr(0x6f00); k < 0x6f40; k++ {
			boundary := k << 32
			addr, _, errno := syscall.Syscall6(syscall.SYS_MMAP, boundary-uintptr(half), uintptr(2*half),
				syscall.PROT_READ|syscall.PROT_WRITE, syscall.MAP_ANON|syscall.MAP_PRIVATE|mapFixedNoReplace, ^uintptr(0), 0)
			if errno != 0 {
				continue
			}
			if addr != boundary-uintptr(half) { // an old kernel ignored the flag and chose another place
				syscall.Syscall(syscall.SYS_MUNMAP, addr, uintptr(2*half), 0)
				continue
			}
			span4G = unsafe.Slice((*byte)(unsafe.Pointer(addr)), 2*half)
			return
		}
	})
	return span4G, half
}

// Across4G returns n bytes of the Span4G mapping placed so that `before` of them lie below the 2^32-aligned address (0 <= before
// <= n; before == n: the buffer ENDS at the boundary, 0: it starts there). The bytes are filled from src if given. nil if no such
// mapping exists on this machine.
func Across4G(n, before int, src []byte) []byte {
	mem, half := Span4G()
	if mem == nil || before > half || n-before > half || before < 0 {
		return nil
	}
	b := mem[half-before : half-before+n : half-before+n]
	if src != nil {
		copy(b, src)
	}
	return b
}

var (
	cong4GOnce sync.Once
	cong4GLo   []byte
	cong4GHi   []byte
)

// Congruent4G returns two process-wide mappings of 128 KiB each whose addresses differ by EXACTLY 2^32: lo[i] and hi[i] have the same
// low 32 address bits. Code that compares or subtracts two pointers in 32 bits takes them for the same buffer (or for overlapping
// ones). nil, nil if the kernel does not grant the addresses.
func Congruent4G() (lo, hi []byte) {
	cong4GOnce.Do(func() {
		const mapFixedNoReplace = 0x100000
		const size = 128 << 10
		for k := uintptr(0x6e00); k < 0x6e40; k += 2 {
			a0 := k<<32 + 0x10000
			a1 := (k+1)<<32 + 0x10000
			p0, _, e0 := syscall.Syscall6(syscall.SYS_MMAP, a0, size, syscall.PROT_READ|syscall.PROT_WRITE, syscall.MAP_ANON|syscall.MAP_PRIVATE|mapFixedNoReplace, ^uintptr(0), 0)
			if e0 != 0 || p0 != a0 {
				if e0 == 0 {
					syscall.Syscall(syscall.SYS_MUNMAP, p0, size, 0)
				}
				continue
			}
			p1, _, e1 := syscall.Syscall6(syscall.SYS_MMAP, a1, size, syscall.PROT_READ|syscall.PROT_WRITE, syscall.MAP_ANON|syscall.MAP_PRIVATE|mapFixedNoReplace, ^uintptr(0), 0)
			if e1 != 0 || p1 != a1 {
				if e1 == 0 {
					syscall.Syscall(syscall.SYS_MUNMAP, p1, size, 0)
				}
				syscall.Syscall(syscall.SYS_MUNMAP, p0, size, 0)
				continue
			}
			cong4GLo = unsafe.Slice((*byte)(unsafe.Pointer(p0)), size)
			cong4GHi = unsafe.Slice((*byte)(unsafe.Pointer(p1)), size)
			return
		}
	})
	return cong4GLo, cong4GHi
}
