package guard

import (
	"testing"
	"unsafe"
)

var sink byte

func TestGuard(t *testing.T) {
	g := End(10)
	defer g.Free()
	flt, other := Run(func() {
		p := (*byte)(unsafe.Add(unsafe.Pointer(&g.B[0]), 10))
		sink = *p
	})
	if flt == nil || other != nil {
		t.Fatalf("expected a fault, got %v %v", flt, other)
	}
	if g.Where(flt.Addr) == "" {
		t.Fatal("where")
	}
	s := Start(5)
	defer s.Free()
	flt, _ = Run(func() {
		p := (*byte)(unsafe.Add(unsafe.Pointer(&s.B[0]), -1))
		*p = 1
	})
	if flt == nil {
		t.Fatal("expected a fault before start")
	}
	s.B[4] = 1
	if ok, _ := s.CanariesIntact(5); !ok {
		t.Fatal("canary false alarm")
	}
	p := (*byte)(unsafe.Add(unsafe.Pointer(&s.B[0]), 5))
	*p = 0
	if ok, at := s.CanariesIntact(5); ok || at != 5 {
		t.Fatal("canary missed", at)
	}
	flt, other = Run(func() { panic("x") })
	if flt != nil || other != "x" {
		t.Fatal("non-fault panic")
	}
}

func TestAcross4G(t *testing.T) {
	b := Across4G(128, 64, nil)
	if b == nil {
		t.Skip("no mapping at a 2^32-aligned address on this machine")
	}
	a0 := uintptr(unsafe.Pointer(&b[0]))
	a1 := uintptr(unsafe.Pointer(&b[127]))
	if a0>>32 == a1>>32 || (a0+64)&0xffffffff != 0 {
		t.Fatalf("buffer %#x..%#x does not straddle a 2^32-aligned address", a0, a1)
	}
	b[0], b[127] = 1, 2
}
