// Package gcmref is GCM written from NIST SP 800-38D: bit-by-bit multiplication in
// GF(2^128) (Algorithm 1), GHASH (Algorithm 2), GCTR with inc32 (Algorithm 3),
// J0 derivation, authenticated encryption/decryption (Algorithms 4, 5) with tag
// truncation. Generic in the block cipher; shares nothing with crypto/cipher or
// the repository. Also: inversion in the field, to solve nonces for a chosen J0.
package gcmref

import (
	"crypto/subtle"
	"encoding/binary"
	"errors"
)

// Block is the forward cipher function CIPH_K.
type Block interface {
	Encrypt(dst, src []byte)
}

// el is a field element: bit 0 of the standard (leftmost) is the MSB of hi.
type el struct{ hi, lo uint64 }

func load(b []byte) el { return el{binary.BigEndian.Uint64(b[:8]), binary.BigEndian.Uint64(b[8:16])} }
func (x el) bytes() []byte {
	out := make([]byte, 16)
	binary.BigEndian.PutUint64(out[:8], x.hi)
	binary.BigEndian.PutUint64(out[8:], x.lo)
	return out
}
func (x el) xor(y el) el { return el{x.hi ^ y.hi, x.lo ^ y.lo} }

// mul is Algorithm 1: Z = X . Y with R = 11100001 || 0^120.
func mul(x, y el) el {
	var z el
	v := y
	for i := 0; i < 128; i++ {
		var bit uint64
		if i < 64 {
			bit = x.hi >> uint(63-i) & 1
		} else {
			bit = x.lo >> uint(127-i) & 1
		}
		if bit == 1 {
			z = z.xor(v)
		}
		lsb := v.lo & 1
		v.lo = v.lo>>1 | v.hi<<63
		v.hi >>= 1
		if lsb == 1 {
			v.hi ^= 0xe100000000000000
		}
	}
	return z
}

// Mul multiplies two 16-byte field elements.
func Mul(x, y []byte) []byte { return mul(load(x), load(y)).bytes() }

// Inv returns the multiplicative inverse (x^(2^128-2)); Inv(0) = 0.
func Inv(x []byte) []byte {
	a := load(x)
	one := el{0x8000000000000000, 0}
	r := one
	// exponent 2^128-2 = 111...10 (127 ones then a zero)
	sq := a
	for i := 0; i < 128; i++ {
		if i >= 1 {
			r = mul(r, sq)
		}
		sq = mul(sq, sq)
	}
	return r.bytes()
}

func pad16(b []byte) []byte {
	if len(b)%16 == 0 {
		return b
	}
	out := make([]byte, (len(b)+15)/16*16)
	copy(out, b)
	return out
}

// GHASH is Algorithm 2 over a whole number of blocks.
func GHASH(h []byte, x []byte) []byte {
	if len(x)%16 != 0 {
		panic("gcmref.GHASH: not a multiple of the block size")
	}
	H := load(h)
	var y el
	for i := 0; i < len(x); i += 16 {
		y = mul(y.xor(load(x[i:i+16])), H)
	}
	return y.bytes()
}

func inc32(cb []byte) {
	c := binary.BigEndian.Uint32(cb[12:])
	binary.BigEndian.PutUint32(cb[12:], c+1)
}

// GCTR is Algorithm 3.
func GCTR(c Block, icb []byte, x []byte) []byte {
	out := make([]byte, len(x))
	cb := append([]byte(nil), icb...)
	var ks [16]byte
	for i := 0; i < len(x); i += 16 {
		c.Encrypt(ks[:], cb)
		for j := 0; j < 16 && i+j < len(x); j++ {
			out[i+j] = x[i+j] ^ ks[j]
		}
		inc32(cb)
	}
	return out
}

func lenBlock(a, c int) []byte {
	b := make([]byte, 16)
	binary.BigEndian.PutUint64(b[:8], uint64(a)*8)
	binary.BigEndian.PutUint64(b[8:], uint64(c)*8)
	return b
}

// HashKey returns H = CIPH_K(0^128).
func HashKey(c Block) []byte {
	h := make([]byte, 16)
	c.Encrypt(h, make([]byte, 16))
	return h
}

// J0 derives the pre-counter block from the IV (step 2 of Algorithm 4).
func J0(c Block, iv []byte) []byte {
	if len(iv) == 12 {
		return append(append([]byte(nil), iv...), 0, 0, 0, 1)
	}
	h := HashKey(c)
	x := pad16(iv)
	x = append(append([]byte(nil), x...), lenBlock(0, len(iv))...)
	return GHASH(h, x)
}

func tag(c Block, j0, aad, ct []byte, tagSize int) []byte {
	h := HashKey(c)
	x := append([]byte(nil), pad16(aad)...)
	x = append(x, pad16(ct)...)
	x = append(x, lenBlock(len(aad), len(ct))...)
	s := GHASH(h, x)
	return GCTR(c, j0, s)[:tagSize]
}

// Seal is Algorithm 4 (GCM-AE): returns C || T.
func Seal(c Block, iv, plaintext, aad []byte, tagSize int) []byte {
	if len(iv) == 0 {
		panic("gcmref: empty IV")
	}
	j0 := J0(c, iv)
	icb := append([]byte(nil), j0...)
	inc32(icb)
	ct := GCTR(c, icb, plaintext)
	return append(ct, tag(c, j0, aad, ct, tagSize)...)
}

var ErrAuth = errors.New("gcmref: authentication failed")

// Open is Algorithm 5 (GCM-AD).
func Open(c Block, iv, ciphertext, aad []byte, tagSize int) ([]byte, error) {
	if len(ciphertext) < tagSize {
		return nil, ErrAuth
	}
	ct, t := ciphertext[:len(ciphertext)-tagSize], ciphertext[len(ciphertext)-tagSize:]
	j0 := J0(c, iv)
	if subtle.ConstantTimeCompare(tag(c, j0, aad, ct, tagSize), t) != 1 {
		return nil, ErrAuth
	}
	icb := append([]byte(nil), j0...)
	inc32(icb)
	return GCTR(c, icb, ct), nil
}

// SolveNonce16 returns the 16-byte IV whose pre-counter block is j0:
// J0 = ((IV.H) xor L).H with L = 0^64 || [128]_64, hence IV = (J0.H^-1 xor L).H^-1.
func SolveNonce16(c Block, j0 []byte) []byte {
	hinv := load(Inv(HashKey(c)))
	l := load(lenBlock(0, 16))
	return mul(mul(load(j0), hinv).xor(l), hinv).bytes()
}

// SolveNonceLast returns an IV of len(prefix)+16 bytes (prefix a multiple of 16 bytes) whose last block is
// solved so that the pre-counter block is j0.
func SolveNonceLast(c Block, prefix, j0 []byte) []byte {
	if len(prefix)%16 != 0 {
		panic("gcmref.SolveNonceLast: prefix must be whole blocks")
	}
	H := load(HashKey(c))
	hinv := load(Inv(H.bytes()))
	y := load(GHASH(H.bytes(), prefix)) // state after the prefix
	l := load(lenBlock(0, len(prefix)+16))
	// J0 = (((y xor B).H) xor L).H  =>  B = ((J0.H^-1 xor L).H^-1) xor y
	b := mul(mul(load(j0), hinv).xor(l), hinv).xor(y)
	return append(append([]byte(nil), prefix...), b.bytes()...)
}

// GHashStream is GHASH fed incrementally (for inputs too long to concatenate in memory).
type GHashStream struct {
	h, y el
}

func NewGHashStream(h []byte) *GHashStream { return &GHashStream{h: load(h)} }

// Blocks absorbs b, zero-padded to a whole number of blocks (call once per logical field: A, then C).
func (g *GHashStream) Blocks(b []byte) {
	for len(b) >= 16 {
		g.y = mul(g.y.xor(load(b[:16])), g.h)
		b = b[16:]
	}
	if len(b) > 0 {
		var last [16]byte
		copy(last[:], b)
		g.y = mul(g.y.xor(load(last[:])), g.h)
	}
}

// Sum absorbs the length block [len(A)]_64 || [len(C)]_64 (in bits) and returns S.
func (g *GHashStream) Sum(aadLen, ctLen int) []byte {
	y := mul(g.y.xor(load(lenBlock(aadLen, ctLen))), g.h)
	return y.bytes()
}

// CounterBlock returns the i-th counter block after J0 (i >= 1 is the block that encrypts plaintext block i-1).
func CounterBlock(j0 []byte, i uint32) []byte {
	cb := append([]byte(nil), j0...)
	c := binary.BigEndian.Uint32(cb[12:])
	binary.BigEndian.PutUint32(cb[12:], c+i)
	return cb
}

// pow returns h^n in GF(2^128) (square and multiply on the bitwise mul); pow(h,0) = 1 (the element 0x80 00..00).
func pow(h el, n uint64) el {
	r := el{hi: 0x8000000000000000}
	b := h
	for n > 0 {
		if n&1 == 1 {
			r = mul(r, b)
		}
		b = mul(b, b)
		n >>= 1
	}
	return r
}

// BlocksParallel absorbs b like Blocks, but splits it into `workers` runs of whole blocks that are hashed from the zero state
// concurrently and folded with y <- y*H^n xor P (n = blocks in the run, P = the run's GHASH from zero). Same result as Blocks;
// meant for inputs of gigabytes, where the bitwise multiplication would take minutes on one core.
func (g *GHashStream) BlocksParallel(b []byte, workers int) {
	nblk := (len(b) + 15) / 16
	if workers < 2 || nblk < 4*workers {
		g.Blocks(b)
		return
	}
	per := nblk / workers
	type part struct {
		p el
		n uint64
	}
	parts := make([]part, workers)
	done := make(chan int, workers)
	for w := 0; w < workers; w++ {
		lo, hi := w*per*16, (w+1)*per*16
		if w == workers-1 {
			hi = len(b)
		}
		go func(w int, chunk []byte) {
			s := GHashStream{h: g.h}
			s.Blocks(chunk)
			parts[w] = part{s.y, uint64((len(chunk) + 15) / 16)}
			done <- w
		}(w, b[lo:hi])
	}
	for w := 0; w < workers; w++ {
		<-done
	}
	for _, p := range parts {
		g.y = mul(g.y, pow(g.h, p.n)).xor(p.p)
	}
}

// State returns the current GHASH accumulator.
func (g *GHashStream) State() []byte { return g.y.bytes() }

// LenBlock is [len(A)]_64 || [len(C)]_64 in bits.
func LenBlock(aadLen, ctLen int) []byte { return lenBlock(aadLen, ctLen) }

// SolveFirstBlock returns the value of the FIRST ciphertext block for which the GHASH accumulator, after absorbing aad and the whole
// ciphertext ct (whose first 16 bytes are ignored), equals target: the accumulator is affine in that block,
// Y = C1*H^m xor Y(C1=0), m = number of ciphertext blocks. len(ct) >= 16.
func SolveFirstBlock(h, aad, ct, target []byte) []byte {
	c := append([]byte(nil), ct...)
	for i := 0; i < 16; i++ {
		c[i] = 0
	}
	g := NewGHashStream(h)
	g.Blocks(aad)
	g.Blocks(c)
	rest := g.y
	m := uint64((len(ct) + 15) / 16)
	hm := pow(load(h), m)
	inv := load(Inv(hm.bytes()))
	return mul(rest.xor(load(target)), inv).bytes()
}

// SealParallel computes what Seal computes, with the counter-mode pass and the GHASH pass split over `workers` goroutines (the
// block cipher must be safe for concurrent use). For megabyte inputs in checks that need many reference results.
func SealParallel(c Block, iv, plaintext, aad []byte, tagSize, workers int) []byte {
	if workers < 2 || len(plaintext) < 64*workers {
		return Seal(c, iv, plaintext, aad, tagSize)
	}
	j0 := J0(c, iv)
	ct := make([]byte, len(plaintext), len(plaintext)+tagSize)
	nblk := (len(plaintext) + 15) / 16
	per := (nblk + workers - 1) / workers
	done := make(chan struct{}, workers)
	for w := 0; w < workers; w++ {
		go func(w int) {
			defer func() { done <- struct{}{} }()
			var ks [16]byte
			for b := w * per; b < (w+1)*per && b < nblk; b++ {
				c.Encrypt(ks[:], CounterBlock(j0, uint32(b+1)))
				for i := 16 * b; i < 16*b+16 && i < len(plaintext); i++ {
					ct[i] = plaintext[i] ^ ks[i-16*b]
				}
			}
		}(w)
	}
	for w := 0; w < workers; w++ {
		<-done
	}
	g := NewGHashStream(HashKey(c))
	g.Blocks(aad)
	g.BlocksParallel(ct, workers)
	return append(ct, GCTR(c, j0, g.Sum(len(aad), len(ct)))[:tagSize]...)
}
