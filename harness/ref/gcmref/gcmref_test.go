package gcmref

import (
	"bytes"
	"crypto/aes"
	"crypto/cipher"
	"encoding/hex"
	"math/rand"
	"testing"
)

func hx(s string) []byte { b, _ := hex.DecodeString(s); return b }

// SP 800-38D / McGrew-Viega test cases 2, 3, 4 (AES-128) and 6 (60-byte IV).
func TestNISTVectors(t *testing.T) {
	k := hx("feffe9928665731c6d6a8f9467308308")
	c, _ := aes.NewCipher(k)
	pt := hx("d9313225f88406e5a55909c5aff5269a86a7a9531534f7da2e4c303d8a318a721c3c0c95956809532fcf0e2449a6b525b16aedf5aa0de657ba637b39")
	aad := hx("feedfacedeadbeeffeedfacedeadbeefabaddad2")
	iv := hx("cafebabefacedbaddecaf888")
	got := Seal(c, iv, pt, aad, 16)
	want := hx("42831ec2217774244b7221b784d0d49ce3aa212f2c02a4e035c17e2329aca12e21d514b25466931c7d8f6a5aac84aa051ba30b396a0aac973d58e091" + "5bc94fbc3221a5db94fae95ae7121a47")
	if !bytes.Equal(got, want) {
		t.Fatalf("test case 4:\n got %x\nwant %x", got, want)
	}
	iv6 := hx("9313225df88406e555909c5aff5269aa6a7a9538534f7da1e4c303d2a318a728c3c0c95156809539fcf0e2429a6b525416aedbf5a0de6a57a637b39b")
	got = Seal(c, iv6, pt, aad, 16)
	want = hx("8ce24998625615b603a033aca13fb894be9112a5c3a211a8ba262a3cca7e2ca701e4a9a4fba43c90ccdcb281d48c7c6fd62875d2aca417034c34aee5" + "619cc5aefffe0bfa462af43c1699d050")
	if !bytes.Equal(got, want) {
		t.Fatalf("test case 6:\n got %x\nwant %x", got, want)
	}
	z, _ := aes.NewCipher(make([]byte, 16))
	if g := Seal(z, make([]byte, 12), nil, nil, 16); !bytes.Equal(g, hx("58e2fccefa7e3061367f1d57a4e7455a")) {
		t.Fatalf("test case 1: %x", g)
	}
}

// Against the standard library's GCM over AES on random inputs: nonce sizes 1..64, tag sizes 12..16.
func TestAgainstStdlib(t *testing.T) {
	r := rand.New(rand.NewSource(1))
	for i := 0; i < 400; i++ {
		k := make([]byte, 16)
		r.Read(k)
		c, _ := aes.NewCipher(k)
		pt := make([]byte, r.Intn(200))
		aad := make([]byte, r.Intn(100))
		r.Read(pt)
		r.Read(aad)
		var a cipher.AEAD
		var iv []byte
		ts := 16
		if i%2 == 0 {
			ns := 1 + r.Intn(64)
			iv = make([]byte, ns)
			a, _ = cipher.NewGCMWithNonceSize(c, ns)
		} else {
			ts = 12 + r.Intn(5)
			iv = make([]byte, 12)
			a, _ = cipher.NewGCMWithTagSize(c, ts)
		}
		r.Read(iv)
		want := a.Seal(nil, iv, pt, aad)
		got := Seal(c, iv, pt, aad, ts)
		if !bytes.Equal(got, want) {
			t.Fatalf("case %d: mismatch", i)
		}
		back, err := Open(c, iv, got, aad, ts)
		if err != nil || !bytes.Equal(back, pt) {
			t.Fatalf("case %d: open", i)
		}
		got[r.Intn(len(got))] ^= 1
		if _, err := Open(c, iv, got, aad, ts); err == nil {
			t.Fatalf("case %d: forged accepted", i)
		}
	}
}

func TestSolveNonce(t *testing.T) {
	c, _ := aes.NewCipher(hx("feffe9928665731c6d6a8f9467308308"))
	j0 := hx("00112233445566778899aabbfffffffe")
	iv := SolveNonce16(c, j0)
	if !bytes.Equal(J0(c, iv), j0) {
		t.Fatalf("SolveNonce16: %x", J0(c, iv))
	}
	pre := make([]byte, 128)
	for i := range pre {
		pre[i] = byte(i)
	}
	iv2 := SolveNonceLast(c, pre, j0)
	if len(iv2) != 144 || !bytes.Equal(J0(c, iv2), j0) {
		t.Fatalf("SolveNonceLast: %x", J0(c, iv2))
	}
	h := HashKey(c)
	one := hx("80000000000000000000000000000000")
	if !bytes.Equal(Mul(h, Inv(h)), one) {
		t.Fatal("Inv")
	}
}

func TestBlocksParallelEqualsSequential(t *testing.T) {
	h := []byte{0x66, 0xe9, 0x4b, 0xd4, 0xef, 0x8a, 0x2c, 0x3b, 0x88, 0x4c, 0xfa, 0x59, 0xca, 0x34, 0x2b, 0x2e}
	for _, n := range []int{0, 1, 15, 16, 17, 1000, 4096, 65537, 100003} {
		data := make([]byte, n)
		for i := range data {
			data[i] = byte(i*7 + i>>8)
		}
		for _, w := range []int{1, 2, 3, 16} {
			a, b := NewGHashStream(h), NewGHashStream(h)
			a.Blocks([]byte("prefix-field-aad"))
			b.Blocks([]byte("prefix-field-aad"))
			a.Blocks(data)
			b.BlocksParallel(data, w)
			if string(a.Sum(16, n)) != string(b.Sum(16, n)) {
				t.Fatalf("n=%d workers=%d: parallel GHASH differs", n, w)
			}
		}
	}
}

func TestSolveFirstBlock(t *testing.T) {
	h := []byte{0x66, 0xe9, 0x4b, 0xd4, 0xef, 0x8a, 0x2c, 0x3b, 0x88, 0x4c, 0xfa, 0x59, 0xca, 0x34, 0x2b, 0x2e}
	for _, n := range []int{16, 17, 32, 100, 1000} {
		ct := make([]byte, n)
		for i := range ct {
			ct[i] = byte(i*13 + 5)
		}
		aad := []byte("some aad")
		target := LenBlock(len(aad), n)
		copy(ct[:16], SolveFirstBlock(h, aad, ct, target))
		g := NewGHashStream(h)
		g.Blocks(aad)
		g.Blocks(ct)
		if string(g.State()) != string(target) {
			t.Fatalf("n=%d: accumulator %x, want %x", n, g.State(), target)
		}
		// then the final multiplication operates on zero
		if s := g.Sum(len(aad), n); string(s) != string(make([]byte, 16)) {
			t.Fatalf("n=%d: S=%x, want 0", n, s)
		}
	}
}

// SealParallel against the standard library's GCM over AES: sizes around the chunking boundaries, up to 1 MiB+.
func TestSealParallelAgainstStdlib(t *testing.T) {
	r := rand.New(rand.NewSource(2))
	for i, n := range []int{0, 1, 15, 16, 17, 1023, 1024, 1025, 4096 + 11, 100*1024 + 5, 1<<20 + 5, 1<<20 + 16 + 9} {
		k := make([]byte, 16)
		r.Read(k)
		c, _ := aes.NewCipher(k)
		pt := make([]byte, n)
		aad := make([]byte, r.Intn(50))
		iv := make([]byte, 12)
		r.Read(pt)
		r.Read(aad)
		r.Read(iv)
		a, _ := cipher.NewGCM(c)
		want := a.Seal(nil, iv, pt, aad)
		for _, w := range []int{1, 3, 16} {
			if got := SealParallel(c, iv, pt, aad, 16, w); !bytes.Equal(got, want) {
				t.Fatalf("case %d (n=%d, workers=%d): mismatch", i, n, w)
			}
		}
	}
}
