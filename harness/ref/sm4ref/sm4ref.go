// Package sm4ref is SM4 written from GB/T 32907-2016 with the S-box computed
// algebraically (affine map, inversion in GF(2^8) modulo x^8+x^7+x^6+x^5+x^4+x^2+1,
// affine map) instead of copied from a table. Slow; shares nothing with the repository.
package sm4ref

import "encoding/binary"

// gfMul multiplies in GF(2^8) modulo 0x1F5.
func gfMul(a, b byte) byte {
	var r uint16
	aa := uint16(a)
	for i := 0; i < 8; i++ {
		if b>>uint(i)&1 == 1 {
			r ^= aa << uint(i)
		}
	}
	for i := 15; i >= 8; i-- {
		if r>>uint(i)&1 == 1 {
			r ^= 0x1F5 << uint(i-8)
		}
	}
	return byte(r)
}

func gfInv(a byte) byte {
	if a == 0 {
		return 0
	}
	// a^254
	r := byte(1)
	for i := 0; i < 254; i++ {
		r = gfMul(r, a)
	}
	return r
}

func rotr8(x byte, n uint) byte { n %= 8; return x>>n | x<<(8-n) }

func parity(x byte) byte {
	x ^= x >> 4
	x ^= x >> 2
	x ^= x >> 1
	return x & 1
}

// affine: y = A x + C with A the circulant matrix whose first row is 0xD3
// (bits written MSB first, each following row rotated right by one) and C = 0xD3.
func affine(x byte) byte {
	var y byte
	for i := uint(0); i < 8; i++ {
		row := rotr8(0xD3, i)
		y |= parity(row&x) << (7 - i)
	}
	return y ^ 0xD3
}

// Sbox returns S(x) = A (A x + C)^-1 + C.
func Sbox(x byte) byte { return affine(gfInv(affine(x))) }

var sboxT [256]byte

func init() {
	for i := 0; i < 256; i++ {
		sboxT[i] = Sbox(byte(i))
	}
}

func rotl(x uint32, n uint) uint32 { return x<<n | x>>(32-n) }

func Tau(a uint32) uint32 {
	return uint32(sboxT[a>>24])<<24 | uint32(sboxT[a>>16&0xff])<<16 | uint32(sboxT[a>>8&0xff])<<8 | uint32(sboxT[a&0xff])
}

// L is the linear transform of the round function, L' that of the key schedule.
func L(b uint32) uint32      { return b ^ rotl(b, 2) ^ rotl(b, 10) ^ rotl(b, 18) ^ rotl(b, 24) }
func LPrime(b uint32) uint32 { return b ^ rotl(b, 13) ^ rotl(b, 23) }

var FK = [4]uint32{0xA3B1BAC6, 0x56AA3350, 0x677D9197, 0xB27022DC}

// CK returns the i-th key-schedule constant: bytes (4i+j)*7 mod 256.
func CK(i int) uint32 {
	var v uint32
	for j := 0; j < 4; j++ {
		v = v<<8 | uint32(byte((4*i+j)*7))
	}
	return v
}

// RoundKeys returns the 32 encryption round keys.
func RoundKeys(key []byte) [32]uint32 {
	var k [36]uint32
	for i := 0; i < 4; i++ {
		k[i] = binary.BigEndian.Uint32(key[4*i:]) ^ FK[i]
	}
	var rk [32]uint32
	for i := 0; i < 32; i++ {
		k[i+4] = k[i] ^ LPrime(Tau(k[i+1]^k[i+2]^k[i+3]^CK(i)))
		rk[i] = k[i+4]
	}
	return rk
}

func crypt(rk *[32]uint32, dst, src []byte, dec bool) {
	var x [36]uint32
	for i := 0; i < 4; i++ {
		x[i] = binary.BigEndian.Uint32(src[4*i:])
	}
	for i := 0; i < 32; i++ {
		k := rk[i]
		if dec {
			k = rk[31-i]
		}
		x[i+4] = x[i] ^ L(Tau(x[i+1]^x[i+2]^x[i+3]^k))
	}
	for i := 0; i < 4; i++ {
		binary.BigEndian.PutUint32(dst[4*i:], x[35-i])
	}
}

// Cipher is a keyed reference SM4.
type Cipher struct{ rk [32]uint32 }

func New(key []byte) *Cipher {
	if len(key) != 16 {
		panic("sm4ref: key must be 16 bytes")
	}
	return &Cipher{RoundKeys(key)}
}

func (c *Cipher) Encrypt(dst, src []byte) { crypt(&c.rk, dst, src, false) }
func (c *Cipher) Decrypt(dst, src []byte) { crypt(&c.rk, dst, src, true) }
func (c *Cipher) BlockSize() int          { return 16 }

// KeyForRoundKey returns a 16-byte key whose i-th encryption round key (0..31) equals v: the three
// preceding schedule words are set to filler and the key schedule is run backwards (it is invertible).
func KeyForRoundKey(i int, v uint32, filler [3]uint32) []byte {
	var k [36]uint32
	k[i+4] = v
	k[i+1], k[i+2], k[i+3] = filler[0], filler[1], filler[2]
	for idx := i; idx >= 0; idx-- {
		k[idx] = k[idx+4] ^ LPrime(Tau(k[idx+1]^k[idx+2]^k[idx+3]^CK(idx)))
	}
	key := make([]byte, 16)
	for j := 0; j < 4; j++ {
		binary.BigEndian.PutUint32(key[4*j:], k[j]^FK[j])
	}
	return key
}
