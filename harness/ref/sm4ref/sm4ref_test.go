package sm4ref

import (
	"bytes"
	"encoding/hex"
	"testing"
)

func hx(s string) []byte { b, _ := hex.DecodeString(s); return b }

// GB/T 32907-2016 appendix A: one block, and the same block encrypted 1,000,000 times.
func TestStandardVectors(t *testing.T) {
	key := hx("0123456789abcdeffedcba9876543210")
	c := New(key)
	out := make([]byte, 16)
	c.Encrypt(out, key)
	if !bytes.Equal(out, hx("681edf34d206965e86b3e94f536e4246")) {
		t.Fatalf("A.1: %x", out)
	}
	back := make([]byte, 16)
	c.Decrypt(back, out)
	if !bytes.Equal(back, key) {
		t.Fatalf("decrypt: %x", back)
	}
	if Sbox(0) != 0xd6 || Sbox(1) != 0x90 || Sbox(0xff) != 0x48 {
		t.Fatalf("sbox corner values: %x %x %x", Sbox(0), Sbox(1), Sbox(0xff))
	}
	if testing.Short() {
		return
	}
	buf := append([]byte(nil), key...)
	for i := 0; i < 1000000; i++ {
		c.Encrypt(buf, buf)
	}
	if !bytes.Equal(buf, hx("595298c7c6fd271f0402f804c33d3f66")) {
		t.Fatalf("A.2: %x", buf)
	}
}

func TestKeyForRoundKey(t *testing.T) {
	for _, i := range []int{0, 1, 2, 3, 4, 15, 28, 30, 31} {
		for _, v := range []uint32{0, 0xffffffff, 0x80000000, 1} {
			key := KeyForRoundKey(i, v, [3]uint32{0x11111111 * uint32(i+1), 0xdeadbeef, 0x01234567})
			if rk := RoundKeys(key); rk[i] != v {
				t.Fatalf("round key %d = %08x, want %08x", i, rk[i], v)
			}
		}
	}
}
