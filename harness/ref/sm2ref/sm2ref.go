// Package sm2ref is an SM2 signature reference built on affine math/big
// arithmetic, written from GM/T 0003.1/.2-2012 and sharing nothing with the
// repository (no Montgomery form, no projective coordinates, no tables).
package sm2ref

import (
	"errors"
	"math/big"

	"verif.local/ref/sm3ref"
)

func h(s string) *big.Int { v, _ := new(big.Int).SetString(s, 16); return v }

// Curve parameters, GM/T 0003.5-2012.
var (
	P  = h("FFFFFFFEFFFFFFFFFFFFFFFFFFFFFFFFFFFFFFFF00000000FFFFFFFFFFFFFFFF")
	A  = h("FFFFFFFEFFFFFFFFFFFFFFFFFFFFFFFFFFFFFFFF00000000FFFFFFFFFFFFFFFC")
	B  = h("28E9FA9E9D9F5E344D5A9E4BCF6509A7F39789F515AB8F92DDBCBD414D940E93")
	N  = h("FFFFFFFEFFFFFFFFFFFFFFFFFFFFFFFF7203DF6B21C6052B53BBF40939D54123")
	Gx = h("32C4AE2C1F1981195F9904466A39C9948FE30BBFF2660BE1715A4589334C74C7")
	Gy = h("BC3736A2F4F6779C59BDCEE36B692153D0A9877CC62A474002DF32E52139F0A0")
	G  = Point{X: Gx, Y: Gy}
)

var (
	one   = big.NewInt(1)
	two   = big.NewInt(2)
	three = big.NewInt(3)
)

// Point is an affine point or the point at infinity.
type Point struct {
	X, Y *big.Int
	Inf  bool
}

var Infinity = Point{Inf: true}

func modp(x *big.Int) *big.Int { return x.Mod(x, P) }

// OnCurve: y^2 = x^3 + a x + b (mod p) for 0 <= x,y < p.
func OnCurve(x, y *big.Int) bool {
	if x.Sign() < 0 || y.Sign() < 0 || x.Cmp(P) >= 0 || y.Cmp(P) >= 0 {
		return false
	}
	l := new(big.Int).Mul(y, y)
	modp(l)
	r := new(big.Int).Mul(x, x)
	r.Mul(r, x)
	r.Add(r, new(big.Int).Mul(A, x))
	r.Add(r, B)
	modp(r)
	return l.Cmp(r) == 0
}

func (p Point) Equal(q Point) bool {
	if p.Inf || q.Inf {
		return p.Inf == q.Inf
	}
	return p.X.Cmp(q.X) == 0 && p.Y.Cmp(q.Y) == 0
}

func Neg(p Point) Point {
	if p.Inf {
		return p
	}
	y := new(big.Int).Neg(p.Y)
	return Point{X: new(big.Int).Set(p.X), Y: modp(y)}
}

func Double(p Point) Point {
	if p.Inf || p.Y.Sign() == 0 {
		return Infinity
	}
	// lambda = (3x^2 + a) / 2y
	num := new(big.Int).Mul(p.X, p.X)
	num.Mul(num, three)
	num.Add(num, A)
	den := new(big.Int).Mul(p.Y, two)
	den.ModInverse(modp(den), P)
	l := modp(num.Mul(num, den))
	x := new(big.Int).Mul(l, l)
	x.Sub(x, p.X)
	x.Sub(x, p.X)
	modp(x)
	y := new(big.Int).Sub(p.X, x)
	y.Mul(y, l)
	y.Sub(y, p.Y)
	modp(y)
	return Point{X: x, Y: y}
}

func Add(p, q Point) Point {
	if p.Inf {
		return q
	}
	if q.Inf {
		return p
	}
	if p.X.Cmp(q.X) == 0 {
		if p.Y.Cmp(q.Y) == 0 {
			return Double(p)
		}
		return Infinity
	}
	num := new(big.Int).Sub(q.Y, p.Y)
	den := new(big.Int).Sub(q.X, p.X)
	den.ModInverse(modp(den), P)
	l := modp(num.Mul(num, den))
	x := new(big.Int).Mul(l, l)
	x.Sub(x, p.X)
	x.Sub(x, q.X)
	modp(x)
	y := new(big.Int).Sub(p.X, x)
	y.Mul(y, l)
	y.Sub(y, p.Y)
	modp(y)
	return Point{X: x, Y: y}
}

// Mul returns [k]p for any k >= 0 (plain left-to-right double-and-add on the
// integer k itself, no reduction mod n).
func Mul(k *big.Int, p Point) Point {
	if k.Sign() < 0 {
		panic("sm2ref.Mul: negative scalar")
	}
	r := Infinity
	for i := k.BitLen() - 1; i >= 0; i-- {
		r = Double(r)
		if k.Bit(i) == 1 {
			r = Add(r, p)
		}
	}
	return r
}

// MulBytes interprets k as a big-endian integer of any length.
func MulBytes(k []byte, p Point) Point { return Mul(new(big.Int).SetBytes(k), p) }

func pad32(x *big.Int) []byte {
	b := x.Bytes()
	out := make([]byte, 32)
	copy(out[32-len(b):], b)
	return out
}

// Encode returns the SEC1 uncompressed encoding (0x00 for infinity).
func Encode(p Point) []byte {
	if p.Inf {
		return []byte{0}
	}
	out := []byte{4}
	out = append(out, pad32(p.X)...)
	return append(out, pad32(p.Y)...)
}

// Decode accepts exactly: the single byte 0x00, or 65 bytes 0x04||x||y with
// x,y < p on the curve.
func Decode(b []byte) (Point, bool) {
	if len(b) == 1 && b[0] == 0 {
		return Infinity, true
	}
	if len(b) != 65 || b[0] != 4 {
		return Point{}, false
	}
	x := new(big.Int).SetBytes(b[1:33])
	y := new(big.Int).SetBytes(b[33:])
	if !OnCurve(x, y) {
		return Point{}, false
	}
	return Point{X: x, Y: y}, true
}

// ValidPublic: 32-byte canonical coordinates of a curve point.
func ValidPublic(px, py []byte) (Point, bool) {
	if len(px) != 32 || len(py) != 32 {
		return Point{}, false
	}
	x, y := new(big.Int).SetBytes(px), new(big.Int).SetBytes(py)
	if !OnCurve(x, y) {
		return Point{}, false
	}
	return Point{X: x, Y: y}, true
}

// SqrtP returns a square root of v mod p (p = 3 mod 4) if one exists.
func SqrtP(v *big.Int) (*big.Int, bool) {
	e := new(big.Int).Add(P, one)
	e.Rsh(e, 2)
	r := new(big.Int).Exp(v, e, P)
	c := new(big.Int).Mul(r, r)
	modp(c)
	if c.Cmp(new(big.Int).Mod(v, P)) != 0 {
		return nil, false
	}
	return r, true
}

// LiftX returns a curve point with the given x coordinate, if any.
func LiftX(x *big.Int) (Point, bool) {
	r := new(big.Int).Mul(x, x)
	r.Mul(r, x)
	r.Add(r, new(big.Int).Mul(A, x))
	r.Add(r, B)
	modp(r)
	y, ok := SqrtP(r)
	if !ok {
		return Point{}, false
	}
	return Point{X: new(big.Int).Set(x), Y: y}, true
}

// ValidPrivate: d in [1, n-2].
func ValidPrivate(d *big.Int) bool {
	return d.Sign() > 0 && d.Cmp(new(big.Int).Sub(N, two)) <= 0
}

var ErrStream = errors.New("sm2ref: randomness stream exhausted")
var ErrKey = errors.New("sm2ref: private key not in [1, n-2]")

// Reject reasons reported by SignTrace.
const (
	RejKGeN  = "k>=n"
	RejKZero = "k=0"
	RejRZero = "r=0"
	RejRKN   = "r+k=n"
	RejSZero = "s=0"
)

// Sign follows GM/T 0003.2-2012 §6.1 with nonce candidates taken from stream in
// 32-byte big-endian units: a candidate is skipped exactly when k is outside
// [1,n-1], r=0, r+k=n or s=0. Returns r, s, the number of candidates consumed
// and the reasons of the skipped ones.
func Sign(d *big.Int, e []byte, stream []byte) (r, s *big.Int, candidates int, rejected []string, err error) {
	if !ValidPrivate(d) {
		return nil, nil, 0, nil, ErrKey
	}
	eInt := new(big.Int).SetBytes(e)
	d1 := new(big.Int).Add(d, one)
	d1inv := new(big.Int).ModInverse(d1, N)
	for {
		if len(stream) < 32 {
			return nil, nil, candidates, rejected, ErrStream
		}
		k := new(big.Int).SetBytes(stream[:32])
		stream = stream[32:]
		candidates++
		if k.Cmp(N) >= 0 {
			rejected = append(rejected, RejKGeN)
			continue
		}
		if k.Sign() == 0 {
			rejected = append(rejected, RejKZero)
			continue
		}
		kg := Mul(k, G)
		r = new(big.Int).Add(eInt, kg.X)
		r.Mod(r, N)
		if r.Sign() == 0 {
			rejected = append(rejected, RejRZero)
			continue
		}
		if new(big.Int).Add(r, k).Cmp(N) == 0 {
			rejected = append(rejected, RejRKN)
			continue
		}
		// s = (1+d)^-1 (k - r d) mod n
		s = new(big.Int).Mul(r, d)
		s.Sub(k, s)
		s.Mul(s, d1inv)
		s.Mod(s, N)
		if s.Sign() == 0 {
			rejected = append(rejected, RejSZero)
			continue
		}
		return r, s, candidates, rejected, nil
	}
}

// Verify is GM/T 0003.2-2012 §7.1 with every side condition: five 32-byte
// strings, r,s in [1,n-1], t=(r+s) mod n != 0, canonical on-curve public key,
// [s]G+[t]P finite, (e+x1) mod n == r.
func Verify(px, py, e, r, s []byte) bool {
	if len(px) != 32 || len(py) != 32 || len(e) != 32 || len(r) != 32 || len(s) != 32 {
		return false
	}
	rI, sI := new(big.Int).SetBytes(r), new(big.Int).SetBytes(s)
	if rI.Sign() <= 0 || sI.Sign() <= 0 || rI.Cmp(N) >= 0 || sI.Cmp(N) >= 0 {
		return false
	}
	t := new(big.Int).Add(rI, sI)
	t.Mod(t, N)
	if t.Sign() == 0 {
		return false
	}
	pub, ok := ValidPublic(px, py)
	if !ok {
		return false
	}
	R := Add(Mul(sI, G), Mul(t, pub))
	if R.Inf {
		return false
	}
	v := new(big.Int).Add(new(big.Int).SetBytes(e), R.X)
	v.Mod(v, N)
	return v.Cmp(rI) == 0
}

// ZA = SM3(ENTL || id || a || b || Gx || Gy || xA || yA); ok=false if the id's
// bit length does not fit in 16 bits (8192 bytes or more).
func ZA(id, px, py []byte) ([]byte, bool) {
	bits := len(id) * 8
	if bits >= 1<<16 {
		return nil, false
	}
	m := []byte{byte(bits >> 8), byte(bits)}
	m = append(m, id...)
	m = append(m, pad32(A)...)
	m = append(m, pad32(B)...)
	m = append(m, pad32(Gx)...)
	m = append(m, pad32(Gy)...)
	m = append(m, px...)
	m = append(m, py...)
	d := sm3ref.Sum(m)
	return d[:], true
}

// E = SM3(ZA || M).
func E(za, msg []byte) []byte {
	d := sm3ref.Sum(append(append([]byte{}, za...), msg...))
	return d[:]
}

// LiftY returns a curve point with the given y coordinate, if any: a root x of the cubic x^3 + a*x + (b - y^2) mod p, found with
// gcd(f, X^p - X) (polynomials of degree <= 2 modulo f) and, if several roots remain, equal-degree splitting. About two thirds of
// all y have a point. Used to construct points whose Y coordinate has a chosen (word-structured) value.
func LiftY(y *big.Int) (Point, bool) {
	c := new(big.Int).Mul(y, y)
	c.Sub(B, c)
	modp(c)
	// f = X^3 + A*X + c. Polynomials are [3]*big.Int (coefficients of 1, X, X^2), reduced modulo f with X^3 = -A*X - c.
	mul := func(u, v [3]*big.Int) [3]*big.Int {
		var t [5]*big.Int
		for i := range t {
			t[i] = new(big.Int)
		}
		for i := 0; i < 3; i++ {
			for j := 0; j < 3; j++ {
				t[i+j].Add(t[i+j], new(big.Int).Mul(u[i], v[j]))
			}
		}
		for d := 4; d >= 3; d-- { // X^d = X^(d-3) * (-A*X - c)
			t[d].Mod(t[d], P)
			t[d-2].Sub(t[d-2], new(big.Int).Mul(t[d], A))
			t[d-3].Sub(t[d-3], new(big.Int).Mul(t[d], c))
		}
		return [3]*big.Int{modp(t[0]), modp(t[1]), modp(t[2])}
	}
	pow := func(base [3]*big.Int, e *big.Int) [3]*big.Int {
		r := [3]*big.Int{big.NewInt(1), big.NewInt(0), big.NewInt(0)}
		for i := e.BitLen() - 1; i >= 0; i-- {
			r = mul(r, r)
			if e.Bit(i) == 1 {
				r = mul(r, base)
			}
		}
		return r
	}
	// roots of the cubic that are roots of g (degree <= 2) as well: gcd by hand
	var try func(g [3]*big.Int, depth int) (*big.Int, bool)
	evalF := func(x *big.Int) bool {
		v := new(big.Int).Mul(x, x)
		v.Mul(v, x).Add(v, new(big.Int).Mul(A, x)).Add(v, c)
		return modp(v).Sign() == 0
	}
	try = func(g [3]*big.Int, depth int) (*big.Int, bool) {
		switch {
		case g[2].Sign() != 0:
			// quadratic g: its roots by the formula (p = 3 mod 4 square root); check them against f
			inv2a := new(big.Int).ModInverse(new(big.Int).Lsh(g[2], 1), P)
			disc := new(big.Int).Mul(g[1], g[1])
			disc.Sub(disc, new(big.Int).Mul(new(big.Int).Lsh(g[2], 2), g[0]))
			modp(disc)
			s, ok := SqrtP(disc)
			if !ok {
				return nil, false
			}
			for _, sg := range []*big.Int{s, new(big.Int).Neg(s)} {
				x := new(big.Int).Sub(sg, g[1])
				x.Mul(x, inv2a)
				modp(x)
				if evalF(x) {
					return x, true
				}
			}
			return nil, false
		case g[1].Sign() != 0:
			x := new(big.Int).Neg(g[0])
			x.Mul(x, new(big.Int).ModInverse(g[1], P))
			modp(x)
			if evalF(x) {
				return x, true
			}
			return nil, false
		}
		return nil, false
	}
	X := [3]*big.Int{big.NewInt(0), big.NewInt(1), big.NewInt(0)}
	xp := pow(X, P) // X^p mod f
	g := [3]*big.Int{xp[0], modp(new(big.Int).Sub(xp[1], one)), xp[2]}
	if g[0].Sign() == 0 && g[1].Sign() == 0 && g[2].Sign() == 0 {
		// f splits completely (three roots): split with (X+a)^((p-1)/2) - 1 for small a
		e := new(big.Int).Rsh(new(big.Int).Sub(P, one), 1)
		for a := int64(1); a < 40; a++ {
			h := pow([3]*big.Int{big.NewInt(a), big.NewInt(1), big.NewInt(0)}, e)
			h[0] = modp(new(big.Int).Sub(h[0], one))
			if x, ok := try(h, 1); ok {
				return Point{X: x, Y: new(big.Int).Mod(y, P)}, true
			}
		}
		return Point{}, false
	}
	// g = X^p - X mod f has degree <= 2; the common roots of f and g are the roots of f in the field. Reduce f modulo g first when
	// g is quadratic (so that exactly the common roots remain), otherwise use g directly.
	if g[2].Sign() != 0 {
		// f mod g: f = X^3 + A X + c, eliminate with monic g
		inv := new(big.Int).ModInverse(g[2], P)
		g1, g0 := modp(new(big.Int).Mul(g[1], inv)), modp(new(big.Int).Mul(g[0], inv)) // X^2 = -g1 X - g0
		// X^3 = X*X^2 = -g1 X^2 - g0 X = -g1(-g1 X - g0) - g0 X = (g1^2 - g0) X + g1 g0
		r1 := new(big.Int).Mul(g1, g1)
		r1.Sub(r1, g0).Add(r1, A)
		r0 := new(big.Int).Mul(g1, g0)
		r0.Add(r0, c)
		rem := [3]*big.Int{modp(r0), modp(r1), big.NewInt(0)}
		if rem[0].Sign() == 0 && rem[1].Sign() == 0 {
			if x, ok := try(g, 0); ok { // g divides f: both roots of g are roots of f
				return Point{X: x, Y: new(big.Int).Mod(y, P)}, true
			}
			return Point{}, false
		}
		if x, ok := try(rem, 0); ok {
			return Point{X: x, Y: new(big.Int).Mod(y, P)}, true
		}
		return Point{}, false
	}
	if x, ok := try(g, 0); ok {
		return Point{X: x, Y: new(big.Int).Mod(y, P)}, true
	}
	return Point{}, false
}
