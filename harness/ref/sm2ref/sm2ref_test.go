package sm2ref

import (
	"encoding/hex"
	"encoding/json"
	"math/big"
	"os"
	"testing"
)

func hx(s string) []byte { b, _ := hex.DecodeString(s); return b }

// GM/T 0003.5-2012 Annex A.2 (the recommended curve example): id, key, message, k, and the expected r, s.
func TestStandardExample(t *testing.T) {
	d := h("3945208F7B2144B13F36E38AC6D39F95889393692860B51A42FB81EF4DF7C5B8")
	px := hx("09F9DF311E5421A150DD7D161E4BC5C672179FAD1833FC076BB08FF356F35020")
	py := hx("CCEA490CE26775A52DC6EA718CC1AA600AED05FBF35E084A6632F6072DA9AD13")
	pub := Mul(d, G)
	if hex.EncodeToString(pad32(pub.X)) != hex.EncodeToString(px) || hex.EncodeToString(pad32(pub.Y)) != hex.EncodeToString(py) {
		t.Fatalf("public key mismatch %x %x", pub.X, pub.Y)
	}
	za, ok := ZA([]byte("1234567812345678"), px, py)
	if !ok || hex.EncodeToString(za) != "b2e14c5c79c6df5b85f4fe7ed8db7a262b9da7e07ccb0ea9f4747b8ccda8a4f3" {
		t.Fatalf("ZA mismatch %x", za)
	}
	e := E(za, []byte("message digest"))
	if hex.EncodeToString(e) != "f0b43e94ba45accaace692ed534382eb17e6ab5a19ce7b31f4486fdfc0d28640" {
		t.Fatalf("e mismatch %x", e)
	}
	k := hx("59276E27D506861A16680F3AD9C02DCCEF3CC1FA3CDBE4CE6D54B80DEAC1BC21")
	r, s, n, rej, err := Sign(d, e, k)
	if err != nil || n != 1 || len(rej) != 0 {
		t.Fatal(err, n, rej)
	}
	if r.Cmp(h("F5A03B0648D2C4630EEAC513E1BB81A15944DA3827D5B74143AC7EACEEE720B3")) != 0 ||
		s.Cmp(h("B1B6AA29DF212FD8763182BC0D421CA1BB9038FD1F7F42D4840B69C485BBC1AA")) != 0 {
		t.Fatalf("signature mismatch r=%x s=%x", r, s)
	}
	if !Verify(px, py, e, pad32(r), pad32(s)) {
		t.Fatal("verify failed")
	}
	if !Mul(N, G).Inf || !Add(Mul(new(big.Int).Sub(N, one), G), G).Inf {
		t.Fatal("order")
	}
}

// Static third-party vectors: signatures made by OpenSSL 3.5 must verify under the reference,
// and the reference's ZA/e must therefore equal OpenSSL's.
func TestOpenSSLVectors(t *testing.T) {
	b, err := os.ReadFile("../../../vectors/sm2_openssl.json")
	if err != nil {
		t.Skip("vectors not found: ", err)
	}
	var f struct {
		Vectors []struct{ Priv, Px, Py, Id, Msg, R, S string }
	}
	if err := json.Unmarshal(b, &f); err != nil {
		t.Fatal(err)
	}
	for i, v := range f.Vectors {
		px, py := hx(v.Px), hx(v.Py)
		pub := Mul(new(big.Int).SetBytes(hx(v.Priv)), G)
		if !pub.Equal(Point{X: new(big.Int).SetBytes(px), Y: new(big.Int).SetBytes(py)}) {
			t.Fatalf("vector %d: public key mismatch", i)
		}
		za, ok := ZA(hx(v.Id), px, py)
		if !ok {
			t.Fatalf("vector %d: id refused", i)
		}
		e := E(za, hx(v.Msg))
		if !Verify(px, py, e, hx(v.R), hx(v.S)) {
			t.Fatalf("vector %d: OpenSSL signature does not verify under the reference", i)
		}
		bad := hx(v.Id)
		bad[0] ^= 1
		za2, _ := ZA(bad, px, py)
		if Verify(px, py, E(za2, hx(v.Msg)), hx(v.R), hx(v.S)) {
			t.Fatalf("vector %d: verifies with a different id", i)
		}
	}
	t.Logf("%d OpenSSL SM2 vectors verify", len(f.Vectors))
}

func TestLiftY(t *testing.T) {
	found := 0
	for i := int64(1); i <= 60; i++ {
		y := new(big.Int).Lsh(big.NewInt(1), 255)
		y.Sub(y, big.NewInt(i))
		pt, ok := LiftY(y)
		if !ok {
			continue
		}
		found++
		if !OnCurve(pt.X, pt.Y) || pt.Y.Cmp(y) != 0 {
			t.Fatalf("LiftY(%x) returned a point off the curve or with another y", y)
		}
	}
	// a point known to exist: G's own y
	if pt, ok := LiftY(G.Y); !ok || !OnCurve(pt.X, pt.Y) {
		t.Fatalf("LiftY(Gy) failed")
	}
	if found < 20 || found > 55 {
		t.Fatalf("LiftY found points for %d of 60 values of y (about two thirds expected)", found)
	}
}
