module verif.local/ref

go 1.23

require pgregory.net/rapid v1.3.0
