// Package gen holds the generators shared by the property files. Every random
// choice is a rapid draw (structure directly; bulk byte content through a PRG
// whose 64-bit seed is a rapid draw), so cases shrink and replay from a rapid
// fail file.
package gen

import (
	"encoding/json"
	"math/big"
	"math/rand"
	"os"
	"path/filepath"
	"sync"

	"pgregory.net/rapid"
)

// Rand returns a deterministic PRG seeded by a rapid draw; use it for bulk
// content only (message bytes, uniform scalars), never for structure.
func Rand(t *rapid.T, label string) *rand.Rand {
	// rapid's Uint64 is heavily biased towards short bit lengths (seeds would collide);
	// eight byte draws give a well spread seed and still shrink towards zero.
	bs := rapid.SliceOfN(rapid.Byte(), 8, 8).Draw(t, label)
	var s uint64
	for _, b := range bs {
		s = s<<8 | uint64(b)
	}
	return rand.New(rand.NewSource(int64(s)))
}

func RandBytes(r *rand.Rand, n int) []byte {
	b := make([]byte, n)
	r.Read(b)
	return b
}

// Uniform draws an integer in [lo,hi] without rapid's bias towards small
// values (rapid's own integer and index generators favour short bit lengths,
// which starves high positions and late list entries): four byte draws are
// hashed and reduced. Still a pure function of rapid's bit stream.
func Uniform(t *rapid.T, label string, lo, hi int) int {
	if hi <= lo {
		return lo
	}
	bs := rapid.SliceOfN(rapid.Byte(), 4, 4).Draw(t, label)
	h := uint64(14695981039346656037)
	for _, b := range bs {
		h = (h ^ uint64(b)) * 1099511628211
	}
	h ^= h >> 29
	return lo + int(h%uint64(hi-lo+1))
}

// Pick draws one of the given strings, uniformly (repeat an entry to weight it).
func Pick(t *rapid.T, label string, xs ...string) string {
	return xs[Uniform(t, label, 0, len(xs)-1)]
}

func Int(t *rapid.T, label string, lo, hi int) int { return rapid.IntRange(lo, hi).Draw(t, label) }
func Bool(t *rapid.T, label string) bool           { return rapid.Bool().Draw(t, label) }

// Curve constants of SM2 (GM/T 0003.5), written out here, not read from the repo.
var (
	P, _   = new(big.Int).SetString("FFFFFFFEFFFFFFFFFFFFFFFFFFFFFFFFFFFFFFFF00000000FFFFFFFFFFFFFFFF", 16)
	N, _   = new(big.Int).SetString("FFFFFFFEFFFFFFFFFFFFFFFFFFFFFFFF7203DF6B21C6052B53BBF40939D54123", 16)
	Two256 = new(big.Int).Lsh(big.NewInt(1), 256)
)

// Pad32 left-pads the big-endian encoding of x (0 <= x < 2^256) to 32 bytes.
func Pad32(x *big.Int) []byte {
	b := x.Bytes()
	if len(b) > 32 {
		panic("Pad32: value too large")
	}
	out := make([]byte, 32)
	copy(out[32-len(b):], b)
	return out
}

var extremeBytes = []byte{0x00, 0x01, 0x7f, 0x80, 0xfe, 0xff}

// Bytes32 draws a 32-byte string from a mixture that favours the shapes the
// properties single out: uniform; leading 0x00 / 0xFF runs; values around 0, n,
// p and 2^256; long runs; single bits; word-structured values (see Limbs). The class label is returned.
func Bytes32(t *rapid.T, label string) ([]byte, string) {
	cls := rapid.SampledFrom([]string{"uniform", "uniform", "uniform", "lead00", "leadFF", "near", "runs", "onebit", "extbytes", "limbs", "dense-recoding"}).Draw(t, label+".class")
	r := Rand(t, label+".seed")
	b := RandBytes(r, 32)
	switch cls {
	case "lead00":
		k := Uniform(t, label+".k", 1, 31)
		for i := 0; i < k; i++ {
			b[i] = 0
		}
	case "leadFF":
		k := Uniform(t, label+".k", 1, 31)
		for i := 0; i < k; i++ {
			b[i] = 0xff
		}
	case "near":
		base := rapid.SampledFrom([]string{"0", "n", "p", "2^256", "n/2", "2^255"}).Draw(t, label+".base")
		off := int64(rapid.IntRange(-3, 3).Draw(t, label+".off"))
		var v *big.Int
		switch base {
		case "0":
			v = big.NewInt(0)
		case "n":
			v = new(big.Int).Set(N)
		case "p":
			v = new(big.Int).Set(P)
		case "2^256":
			v = new(big.Int).Set(Two256)
		case "n/2":
			v = new(big.Int).Rsh(N, 1)
		default:
			v = new(big.Int).Lsh(big.NewInt(1), 255)
		}
		v.Add(v, big.NewInt(off))
		v.Mod(v, Two256)
		b = Pad32(v)
		cls = "near:" + base
	case "runs":
		// alternating runs of 0 and 1 bits with drawn lengths
		pos, bit := 0, rapid.IntRange(0, 1).Draw(t, label+".bit0")
		for i := range b {
			b[i] = 0
		}
		for pos < 256 {
			l := rapid.IntRange(1, 70).Draw(t, label+".run")
			for j := 0; j < l && pos < 256; j++ {
				if bit == 1 {
					b[pos>>3] |= 0x80 >> uint(pos&7)
				}
				pos++
			}
			bit ^= 1
		}
	case "dense-recoding":
		// sum of odd digits d_i, |d_i| < 2^(v-1), at positions phase + v*i: the scalars whose signed-window recoding (NAF of width
		// v-1, fixed windows of v bits, comb columns) has a non-zero digit in EVERY possible place — the most digits any scalar can
		// have; bit patterns of period v are the special case of equal digits
		v := Uniform(t, label+".v", 2, 9)
		phase := Uniform(t, label+".phase", 0, v-1)
		same := Uniform(t, label+".same", 0, 2) == 0
		sum := new(big.Int)
		var d0 int64
		for i, pos := 0, phase; pos < 257; i, pos = i+1, pos+v {
			d := int64(2*r.Intn(1<<uint(v-2))+1) * int64(1-2*r.Intn(2))
			if i == 0 {
				d0 = d
			}
			if same {
				d = d0
			}
			sum.Add(sum, new(big.Int).Lsh(big.NewInt(d), uint(pos)))
		}
		sum.Mod(sum, Two256)
		b = Pad32(sum)
	case "onebit":
		for i := range b {
			b[i] = 0
		}
		p := Uniform(t, label+".pos", 0, 255)
		b[p>>3] = 0x80 >> uint(p&7)
	case "extbytes":
		for i := range b {
			b[i] = extremeBytes[r.Intn(len(extremeBytes))]
		}
	case "limbs":
		// word-structured: each 64-bit limb from {0,1,2,2^32-1,2^32,2^63,2^64-1} or uniform
		v, c := Limbs(t, label+".limbs")
		b, cls = Pad32(v), c
	}
	return b, cls
}

// LeadingZeroBytes counts leading 0x00 bytes.
func LeadingZeroBytes(b []byte) int {
	n := 0
	for n < len(b) && b[n] == 0 {
		n++
	}
	return n
}

var divstepSlowOnce sync.Once
var divstepSlowVals []*big.Int

func divstepSlow() []*big.Int {
	divstepSlowOnce.Do(func() {
		b, err := os.ReadFile(filepath.Join(os.Getenv("VERIF_DIR"), "vectors", "divstep_slow.json"))
		if err != nil {
			return
		}
		var doc struct {
			Vectors []struct {
				G string `json:"g"`
			} `json:"vectors"`
		}
		if json.Unmarshal(b, &doc) != nil {
			return
		}
		for _, v := range doc.Vectors {
			if x, ok := new(big.Int).SetString(v.G, 16); ok {
				divstepSlowVals = append(divstepSlowVals, x)
			}
		}
	})
	return divstepSlowVals
}

// GcdSlow draws one of the slow-to-invert residues of vectors/divstep_slow.json (nil when the file is absent).
func GcdSlow(t *rapid.T, label string) *big.Int {
	vs := divstepSlow()
	if len(vs) == 0 {
		return nil
	}
	return new(big.Int).Set(vs[Uniform(t, label+".gi", 0, len(vs)-1)])
}

var sparseLimbs = []uint64{0, 0, 1, 1, ^uint64(0), 1 << 63, 1 << 32, 1<<32 - 1, 2}

// Limbs draws a 256-bit value limb by limb (four 64-bit limbs, most significant first), the way word-level code sees it:
// class "sparse" takes most limbs from {0, 1, 2, 2^32-1, 2^32, 2^63, 2^64-1} (so values such as 2^64+1, 2^192+1, 2^128, "low limb 1,
// high limbs random" are common), class "mixed" mixes those with uniform limbs, class "fraction" gives values next to j*M/m. Values whose low (or any) word looks like a
// small constant while the whole value does not are what truncating conversions and partial comparisons confuse.
func Limbs(t *rapid.T, label string) (*big.Int, string) {
	cls := Pick(t, label+".lclass", "sparse", "sparse", "mixed", "fraction", "sparse", "mixed", "gcd-slow", "near-const", "near-const")
	if cls == "near-const" {
		// a constant the word-level code compares against or special-cases (1, the Montgomery forms of 1 and of R for p and n,
		// p, n, p-1, n-1, 0) with exactly ONE 64-bit word replaced (sparse alphabet, uniform, or one bit flipped): equal to the
		// constant in three words out of four — what a comparison loop that stops one word early, or starts one word late, confuses
		c := []*big.Int{big.NewInt(1), new(big.Int).Mod(Two256, P), new(big.Int).Mod(Two256, P), new(big.Int).Mod(Two256, P), new(big.Int).Mod(Two256, N),
			new(big.Int).Mod(new(big.Int).Mul(Two256, Two256), P), new(big.Int).Mod(new(big.Int).Mul(Two256, Two256), N),
			P, N, new(big.Int).Sub(P, big.NewInt(1)), new(big.Int).Sub(N, big.NewInt(1)), new(big.Int)}[Uniform(t, label+".nc", 0, 11)]
		w := uint(Uniform(t, label+".ncw", 0, 3))
		r := Rand(t, label+".ncseed")
		old := new(big.Int).Rsh(c, 64*w).Uint64()
		var l uint64
		switch r.Intn(3) {
		case 0:
			l = sparseLimbs[r.Intn(len(sparseLimbs))]
		case 1:
			l = r.Uint64()
		default:
			l = old ^ 1<<uint(r.Intn(64))
		}
		v := new(big.Int).Set(c)
		v.Sub(v, new(big.Int).Lsh(new(big.Int).SetUint64(old), 64*w))
		v.Add(v, new(big.Int).Lsh(new(big.Int).SetUint64(l), 64*w))
		return v, "limbs-near-const"
	}
	if cls == "gcd-slow" {
		// residues on which a Euclid-style (divstep / safegcd) inversion is unusually slow to finish (vectors/divstep_slow.json,
		// found by tools/divstepsearch: 603..615 divsteps where uniformly random values need 531 +- 10): nothing in their limbs is
		// special, only their 2-adic continued fraction against p (or n) is
		if v := GcdSlow(t, label); v != nil {
			return v, "limbs-gcd-slow"
		}
		cls = "sparse"
	}
	if cls == "fraction" {
		// wrap boundaries of small multiples: values next to j*M/m for M in {2^256, p, n}, m = 2..8 — where 2x, 3x, ... 8x computed by
		// shifting or chained additions cross a multiple of the modulus or of 2^256
		M := []*big.Int{Two256, Two256, P, N}[Uniform(t, label+".fM", 0, 3)]
		m := int64(Uniform(t, label+".fm", 2, 8))
		j := int64(Uniform(t, label+".fj", 1, int(m)-1))
		v := new(big.Int).Mul(M, big.NewInt(j))
		v.Div(v, big.NewInt(m))
		v.Add(v, big.NewInt(int64(Uniform(t, label+".fd", 0, 6))-3))
		v.Mod(v, Two256)
		return v, "limbs-fraction"
	}
	r := Rand(t, label+".lseed")
	v := new(big.Int)
	for i := 0; i < 4; i++ {
		var l uint64
		special := true
		if cls == "mixed" {
			special = r.Intn(2) == 0
		} else {
			special = r.Intn(8) != 0
		}
		if special {
			l = sparseLimbs[Uniform(t, label+".limb", 0, len(sparseLimbs)-1)]
		} else {
			l = r.Uint64()
		}
		v.Lsh(v, 64)
		v.Or(v, new(big.Int).SetUint64(l))
	}
	return v, "limbs-" + cls
}

// Absent replaces b, in about one case in eight, by the empty string in one of its two Go shapes: nil or empty non-nil. The two
// must be indistinguishable to a callee (both have length 0); a callee that gives nil a meaning of its own is caught because the
// reference sees only the length.
func Absent(t *rapid.T, label string, b []byte) ([]byte, string) {
	switch Uniform(t, label+".absent", 0, 15) {
	case 0:
		return nil, "nil"
	case 1:
		return []byte{}, "empty"
	}
	return b, "given"
}

// Len draws a buffer length up to about max: half of the time small (0..200, every residue mod 64), a quarter within 40 of a power
// of two 2^7..max (where fixed-size scratch buffers, "short input" fast paths and chunking thresholds begin or end, also 32 or 64
// bytes before the power when a header shares the buffer), a quarter uniform in 0..max.
func Len(t *rapid.T, label string, max int) int {
	switch Pick(t, label+".lenclass", "small", "small", "pow2", "uniform") {
	case "pow2":
		ks := []int{}
		for k := 7; 1<<k <= max; k++ {
			ks = append(ks, k)
		}
		if len(ks) > 0 {
			n := 1<<ks[Uniform(t, label+".k", 0, len(ks)-1)] + Uniform(t, label+".d", -72, 40)
			if n >= 0 && n <= max+40 {
				return n
			}
		}
		return Uniform(t, label+".u", 0, max)
	case "uniform":
		return Uniform(t, label+".u", 0, max)
	}
	return Int(t, label+".s", 0, 200)
}
