// Package deephash computes a hash of everything reachable from a set of
// variables (by reflection, following pointers, slices, arrays, structs, maps,
// interfaces; sync.* values and funcs/chans skipped). Used by C17 to detect a
// write to package-level state independently of the schedule.
package deephash

import (
	"fmt"
	"hash/fnv"
	"reflect"
	"sort"
	"strings"
)

type walker struct {
	h    interface{ Write([]byte) (int, error) }
	seen map[uintptr]bool
	n    int
}

func (w *walker) u64(v uint64) {
	var b [8]byte
	for i := 0; i < 8; i++ {
		b[i] = byte(v >> uint(8*i))
	}
	w.h.Write(b[:])
}

func (w *walker) walk(v reflect.Value, depth int) {
	if depth > 64 || !v.IsValid() {
		return
	}
	w.n++
	t := v.Type()
	if strings.HasPrefix(t.PkgPath(), "sync") {
		return
	}
	switch v.Kind() {
	case reflect.Bool:
		if v.Bool() {
			w.u64(1)
		} else {
			w.u64(0)
		}
	case reflect.Int, reflect.Int8, reflect.Int16, reflect.Int32, reflect.Int64:
		w.u64(uint64(v.Int()))
	case reflect.Uint, reflect.Uint8, reflect.Uint16, reflect.Uint32, reflect.Uint64, reflect.Uintptr:
		w.u64(v.Uint())
	case reflect.Float32, reflect.Float64:
		w.u64(uint64(v.Float()))
	case reflect.String:
		w.h.Write([]byte(v.String()))
		w.u64(uint64(v.Len()))
	case reflect.Ptr:
		if v.IsNil() {
			w.u64(0)
			return
		}
		p := v.Pointer()
		if w.seen[p] {
			w.u64(0xfeed)
			return
		}
		w.seen[p] = true
		w.walk(v.Elem(), depth+1)
	case reflect.Interface:
		if v.IsNil() {
			w.u64(0)
			return
		}
		w.h.Write([]byte(v.Elem().Type().String()))
		w.walk(v.Elem(), depth+1)
	case reflect.Slice:
		w.u64(uint64(v.Len()))
		if v.IsNil() {
			return
		}
		if v.Type().Elem().Kind() == reflect.Uint8 {
			b := make([]byte, v.Len())
			reflect.Copy(reflect.ValueOf(b), v)
			w.h.Write(b)
			return
		}
		for i := 0; i < v.Len(); i++ {
			w.walk(v.Index(i), depth+1)
		}
	case reflect.Array:
		for i := 0; i < v.Len(); i++ {
			w.walk(v.Index(i), depth+1)
		}
	case reflect.Struct:
		for i := 0; i < v.NumField(); i++ {
			w.walk(v.Field(i), depth+1)
		}
	case reflect.Map:
		w.u64(uint64(v.Len()))
		keys := v.MapKeys()
		ks := make([]string, len(keys))
		for i, k := range keys {
			ks[i] = fmt.Sprint(k)
		}
		idx := make([]int, len(keys))
		for i := range idx {
			idx[i] = i
		}
		sort.Slice(idx, func(a, b int) bool { return ks[idx[a]] < ks[idx[b]] })
		for _, i := range idx {
			w.h.Write([]byte(ks[i]))
			w.walk(v.MapIndex(keys[i]), depth+1)
		}
	case reflect.Func, reflect.Chan, reflect.UnsafePointer:
		// not state we can compare
	}
}

// Hash returns one hash per named variable (vars maps name -> pointer to the variable) and the number of values visited.
func Hash(vars map[string]interface{}) (map[string]uint64, int) {
	out := map[string]uint64{}
	total := 0
	for name, p := range vars {
		h := fnv.New64a()
		w := &walker{h: h, seen: map[uintptr]bool{}}
		w.walk(reflect.ValueOf(p), 0)
		out[name] = h.Sum64()
		total += w.n
	}
	return out, total
}

// Diff lists the variables whose hash changed.
func Diff(a, b map[string]uint64) []string {
	var d []string
	for k, v := range a {
		if b[k] != v {
			d = append(d, k)
		}
	}
	sort.Strings(d)
	return d
}
