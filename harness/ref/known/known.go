// Package known lets a check ask whether a violation signature is listed as a
// known finding in /verif/known_findings.json ($VERIF_KNOWN). Only entries with
// status "known" count; "fixed" entries suppress nothing. Read-only.
package known

import (
	"encoding/json"
	"os"
	"sync"
)

type entry struct {
	Status    string `json:"status"`
	Property  string `json:"property"`
	Signature string `json:"signature"`
	What      string `json:"what"`
}

var (
	once sync.Once
	set  = map[string]bool{}
)

func load() {
	p := os.Getenv("VERIF_KNOWN")
	if p == "" {
		return
	}
	b, err := os.ReadFile(p)
	if err != nil {
		return
	}
	var f struct {
		Findings []entry `json:"findings"`
	}
	if json.Unmarshal(b, &f) != nil {
		return
	}
	for _, e := range f.Findings {
		if e.Status == "known" && e.Signature != "" {
			set[e.Signature] = true
		}
	}
}

// Is reports whether sig is a listed known finding.
func Is(sig string) bool {
	once.Do(load)
	return set[sig]
}
