// Package ctrace is the runtime the instrumented library code reports to (see /verif/tools/ctinstr).
// It records, for one traced call on one goroutine: the sequence of executed source blocks and
// short-circuit outcomes (rolling hash + count + executed-block set), and the sequence of
// (site, value) of every non-constant index / slice bound (rolling hash + count). With full
// logging the events themselves are kept so that two traces can be diffed.
package ctrace

type Event struct {
	Kind  byte // 'B' block, 'C' condition, 'I' index
	ID    int
	Value int64
}

type Trace struct {
	BlockHash, IndexHash uint64
	Blocks, Indices      int
	Executed             map[int]int // block id -> count
	Log                  []Event     // only with full logging
}

var (
	on       bool
	full     bool
	cur      Trace
	excluded map[int]bool
)

// Exclude makes the tracer ignore events of the given sites (nil: none) until changed again.
func Exclude(ids map[int]bool) { excluded = ids }

const prime = 1099511628211

func mix(h uint64, a, b uint64) uint64 {
	h = (h ^ a) * prime
	h = (h ^ b) * prime
	return h ^ h>>31
}

// Start begins a trace (single goroutine only).
func Start(fullLog bool) {
	cur = Trace{BlockHash: 14695981039346656037, IndexHash: 14695981039346656037, Executed: map[int]int{}}
	full = fullLog
	on = true
}

// Restart discards what was recorded so far and keeps tracing with the same logging mode
// (used to trace only the tail of a computation).
func Restart() { Start(full) }

// Stop ends the trace and returns it.
func Stop() Trace {
	on = false
	t := cur
	cur = Trace{}
	return t
}

// B reports entry into a source block.
func B(id int) {
	if on && !excluded[id] {
		cur.BlockHash = mix(cur.BlockHash, uint64(id), 0xB)
		cur.Blocks++
		cur.Executed[id]++
		if full {
			cur.Log = append(cur.Log, Event{'B', id, 0})
		}
	}
}

// C reports the outcome of the right operand of && / || (its evaluation is itself a branch).
func C(id int, v bool) bool {
	if on && !excluded[id] {
		x := uint64(0)
		if v {
			x = 1
		}
		cur.BlockHash = mix(cur.BlockHash, uint64(id), 0xC0|x)
		cur.Blocks++
		if full {
			cur.Log = append(cur.Log, Event{'C', id, int64(x)})
		}
	}
	return v
}

type integer interface {
	~int | ~int8 | ~int16 | ~int32 | ~int64 | ~uint | ~uint8 | ~uint16 | ~uint32 | ~uint64 | ~uintptr
}

// I reports the value of a non-constant index or slice bound and returns it unchanged.
func I[T integer](id int, i T) T {
	if on && !excluded[id] {
		cur.IndexHash = mix(cur.IndexHash, uint64(id), uint64(int64(i)))
		cur.Indices++
		if full {
			cur.Log = append(cur.Log, Event{'I', id, int64(i)})
		}
	}
	return i
}
