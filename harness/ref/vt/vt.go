// Package vt: small helpers shared by the property test files.
package vt

import (
	"fmt"
	"os"
	"strconv"

	"verif.local/ref/known"
	"verif.local/ref/stats"
)

// TB is satisfied by *testing.T and *rapid.T.
type TB interface {
	Fatalf(format string, args ...any)
	Helper()
}

func Tier() string {
	if os.Getenv("VERIF_TIER") == "thorough" {
		return "thorough"
	}
	return "quick"
}
func Thorough() bool { return Tier() == "thorough" }

// Shard returns (index, count) of this process among the thorough-tier shards.
func Shard() (int, int) {
	i, _ := strconv.Atoi(os.Getenv("VERIF_SHARD"))
	n, _ := strconv.Atoi(os.Getenv("VERIF_SHARDS"))
	if n <= 0 {
		return 0, 1
	}
	return i, n
}

// Seed returns VERIF_SEED (default 1) for enumerating tests that need a
// deterministic but seed-dependent choice.
func Seed() int64 {
	s, err := strconv.ParseInt(os.Getenv("VERIF_SEED"), 10, 64)
	if err != nil {
		return 1
	}
	return s
}

// Fail reports a violation with a stable signature unless that signature is a
// listed known finding, in which case it is counted and true is returned so the
// caller can stop looking at this case and the search goes on behind it.
func Fail(t TB, rec *stats.Recorder, sig string, format string, args ...any) bool {
	t.Helper()
	if known.Is(sig) {
		rec.KnownHit(sig)
		return true
	}
	msg := fmt.Sprintf(format, args...)
	if len(msg) > 6000 {
		msg = msg[:6000] + "…(truncated)"
	}
	t.Fatalf("VERIF-SIG: %s\n%s", sig, msg)
	return true
}

// Catch runs f and returns the recovered panic value (nil if none).
func Catch(f func()) (p any) {
	defer func() { p = recover() }()
	f()
	return nil
}
