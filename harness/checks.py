"""Configuration of the property checks: which overlay files, which tests, how many cases per tier.
MANIFEST.json is generated from this file by `./vcheck manifest`."""

NOTES = ("All checks are property-based tests / complete enumerations over generated inputs against independent "
         "oracles (harness/ref). Checks never modify /repo: they copy its working tree to a scratch directory, "
         "overlay in-package test files and run them. See DESIGN.md.")

NOT_APPLICABLE = {}
_ALL = ['C%02d' % i for i in range(1, 21)]

CHECKS = {}

CHECKS["C20"] = dict(
    level="exploration",
    level_text="Generated-input search (rapid, structured generators for borrow chains / carries) plus complete "
               "enumerations (all byte pairs at every position; all 8-bit [quick] or 16-bit [thorough] windows at every "
               "bit offset x w=1..7) against bytes.Compare and the recoding invariants evaluated with math/big. "
               "Exploration, not proof: absence only on the enumerated sub-spaces.",
    level_note="Trusts bytes.Compare and math/big as oracles; preconditions as documented (non-nil slices, len>=l, zeroed out, n=257, 32-byte s).",
    technique="property-based testing (rapid) + exhaustive enumeration of small windows; oracle: bytes.Compare / big.Int weighted sum",
    assumptions=["bytes.Compare and math/big are correct", "DecomposeNAF is only specified for n=257, 32-byte s, zeroed out (its only caller's usage)"],
    units=[
        dict(name="rapid", pkg="utils", overlay=["utils/zz_verif_c20_test.go"], run="^TestVerif_C20_(Cmp|NAF)$",
             quick=dict(checks=30000), thorough=dict(checks=400000, shards=16, timeout=3000)),
        dict(name="enum", pkg="utils", overlay=["utils/zz_verif_c20_test.go"], run="^TestVerif_C20_(Cmp|NAF)Exhaustive$",
             quick=dict(), thorough=dict(shards=16, timeout=3000)),
    ],
)


CHECKS["C04"] = dict(
    level="exploration",
    level_text="Model-based stateful property test (rapid state machine: Write/io.Copy/Sum/Reset with boundary-weighted chunk "
               "lengths) against an SM3 transcribed from GB/T 32905 and anchored to the standard's vectors, plus a complete "
               "sweep of message length x split point. Exploration; complete only on the swept lengths.",
    level_note="Trusts harness/ref/sm3ref (validated against GB/T 32905 A.1/A.2 and OpenSSL-generated digests for lengths 0..300).",
    technique="stateful property-based testing (rapid state machine) with reference-model oracle; exhaustive length x split sweep",
    assumptions=["sm3ref is a correct SM3 (anchored to the standard's examples and static OpenSSL vectors)"],
    units=[
        dict(name="history", pkg="sm3", overlay=["sm3/zz_verif_c04_test.go"], run="^TestVerif_C04_History$",
             quick=dict(checks=2500, steps=30), thorough=dict(checks=20000, steps=40, shards=16, timeout=3000)),
        dict(name="sweep", pkg="sm3", overlay=["sm3/zz_verif_c04_test.go"], run="^TestVerif_C04_SplitSweep$",
             quick=dict(), thorough=dict(shards=16, timeout=3000)),
    ],
)

# properties whose check is not built yet are listed as not claimed (kept current as work proceeds)
for _p in _ALL:
    if _p not in CHECKS:
        NOT_APPLICABLE[_p] = "check not built yet in this session (planned, see DESIGN.md section 4)"
