package sm4_test

// C06 — Seal equals SP 800-38D GCM over SM4.
// Oracle: gcmref (bitwise GF(2^128), GCTR with inc32) over sm4ref; path
// independence against crypto/cipher's generic GCM over the same block.

import (
	"bytes"
	"crypto/cipher"
	"fmt"
	"syscall"
	"testing"

	"github.com/bilibili/smgo/sm4"
	"pgregory.net/rapid"
	"verif.local/ref/gcmref"
	"verif.local/ref/gen"
	"verif.local/ref/sm4ref"
	"verif.local/ref/stats"
	"verif.local/ref/vt"
)

func c06Check(t vt.TB, rec *stats.Recorder, c *gcmCase) bool {
	a, err := c.aead()
	if err == errNoGcmAble {
		rec.Skipped("Block.NewGCM not available on this platform: joint (nonce length, tag size) cases skipped")
		return false
	}
	if err != nil {
		vt.Fail(t, rec, "C06:construct", "constructing the AEAD via %s (nonce %d, tag %d) failed: %v", c.How, len(c.Nonce), c.TagSize, err)
		return false
	}
	in := [][]byte{append([]byte(nil), c.Nonce...), append([]byte(nil), c.PT...), append([]byte(nil), c.AAD...)}
	var got []byte
	if p := vt.Catch(func() { c.dirty(); got = a.Seal(nil, c.Nonce, c.PT, c.AAD) }); p != nil {
		vt.Fail(t, rec, "C06:seal:panic", "Seal panicked: %v\n%v", p, c.sample())
		return false
	}
	want := c.want()
	if !bytes.Equal(got, want) {
		what := "ciphertext"
		d := 0
		for d < len(got) && d < len(want) && got[d] == want[d] {
			d++
		}
		if d >= len(c.PT) {
			what = "tag"
		}
		vt.Fail(t, rec, "C06:seal:"+what, "Seal differs from SP 800-38D in the %s (first difference at byte %d of %d)\nkey=%x\nnonce=%x\naad=%x\npt=%x\ntag size %d via %s\n got %x\nwant %x", what, d, len(want), c.Key, c.Nonce, c.AAD, c.PT, c.TagSize, c.How, got, want)
		return false
	}
	if !bytes.Equal(in[0], c.Nonce) || !bytes.Equal(in[1], c.PT) || !bytes.Equal(in[2], c.AAD) {
		vt.Fail(t, rec, "C06:seal:modifies-input", "Seal modified one of its inputs")
	}
	if a.NonceSize() != len(c.Nonce) || a.Overhead() != c.TagSize {
		vt.Fail(t, rec, "C06:sizes", "NonceSize()=%d Overhead()=%d, constructed with %d/%d", a.NonceSize(), a.Overhead(), len(c.Nonce), c.TagSize)
	}
	return true
}

func TestVerif_C06_Seal(t *testing.T) {
	rec := stats.Get("C06", "seal")
	rec.Rule("rapid: key; plaintext and aad lengths = 256a+128b+64c+32d+16e+f (every kernel combination and tail) or uniform 0..1100 or 0..40; nonce length from {1,2,8,11,12,13,15,16,17,31,32,33,64,127,128,129,144,255,256,300} or uniform 1..300, or 16k bytes with the last block SOLVED in GF(2^128) so that the initial counter is 2^32-1-j, j in 0..80 (wrap inside the 16/8/4/2/1-block kernels and the tail); tag 12..16; AEAD built by cipher.NewGCM / NewGCMWithTagSize / NewGCMWithNonceSize or the Block's own NewGCM(nonceSize, tagSize) for the joint space. Oracle: gcmref.Seal over sm4ref (both anchored to standards' vectors; RFC 8998 A.1 for the combination); inputs unmodified. Non-trivial: plaintext with a wide kernel and a 1..15-byte tail, or aad/nonce >= 128 bytes, or tag != 16, or nonce != 12 bytes, or the counter wraps inside the message; distinct by all inputs.")
	t.Cleanup(stats.FlushAll)
	rapid.Check(t, func(t *rapid.T) {
		c := drawGCMCase(t)
		rec.Case(stats.Hash(c.Key, c.Nonce, c.AAD, c.PT, []byte{byte(c.TagSize)}, []byte(c.How)), c.nontrivial(), c.Classes...)
		k := c.How
		if c.Wraps {
			k = "wrap"
		}
		if rec.WantSample(k) {
			rec.Sample(k, c.sample())
		}
		c06Check(t, rec, c)
	})
}

// Path independence: the library's AEAD vs crypto/cipher's generic GCM driven through the same Block's Encrypt.
func TestVerif_C06_Paths(t *testing.T) {
	rec := stats.Get("C06", "paths")
	rec.Rule("rapid: cases as above restricted to what crypto/cipher can construct (tag 16 with any nonce length, or nonce 12 with tag 12..16): Seal through the library's own GCM must equal Seal through crypto/cipher's generic GCM over the same sm4 Block with its NewGCM method hidden. Non-trivial as above.")
	t.Cleanup(stats.FlushAll)
	rapid.Check(t, func(t *rapid.T) {
		c := drawGCMCase(t)
		if c.How == "Block.NewGCM" {
			if gen.Bool(t, "pickTag") {
				c.Nonce = c.Nonce[:min(12, len(c.Nonce))]
				for len(c.Nonce) < 12 {
					c.Nonce = append(c.Nonce, 0x55)
				}
				c.How = "WithTagSize"
			} else {
				c.TagSize = 16
				c.How = "WithNonceSize"
			}
			c.Wraps = false
		}
		a, err := c.aead()
		if err != nil {
			vt.Fail(t, rec, "C06:construct", "construct: %v", err)
			return
		}
		b, _ := sm4.NewCipher(c.Key)
		var g cipher.AEAD
		switch c.How {
		case "NewGCM":
			g, err = cipher.NewGCM(plainBlock{b})
		case "WithTagSize":
			g, err = cipher.NewGCMWithTagSize(plainBlock{b}, c.TagSize)
		default:
			g, err = cipher.NewGCMWithNonceSize(plainBlock{b}, len(c.Nonce))
		}
		if err != nil {
			t.Fatalf("HARNESS: generic GCM: %v", err)
		}
		rec.Case(stats.Hash(c.Key, c.Nonce, c.AAD, c.PT, []byte{byte(c.TagSize)}), c.nontrivial(), c.Classes...)
		if rec.WantSample(c.How) {
			rec.Sample(c.How, c.sample())
		}
		var x, y []byte
		if p := vt.Catch(func() { x = a.Seal(nil, c.Nonce, c.PT, c.AAD); y = g.Seal(nil, c.Nonce, c.PT, c.AAD) }); p != nil {
			vt.Fail(t, rec, "C06:seal:panic", "Seal panicked: %v", p)
			return
		}
		if !bytes.Equal(x, y) {
			vt.Fail(t, rec, "C06:paths", "library GCM and crypto/cipher's generic GCM over the same block disagree\n%v\n lib %x\n std %x", c.sample(), x, y)
		}
	})
}

// Complete length sweeps (thorough): plaintext 0..1100 x aad {0,1,15,16,17,127,128,129,300}; aad 0..1100; nonce 1..300; tags; counter wrap grid.
func TestVerif_C06_Sweeps(t *testing.T) {
	rec := stats.Get("C06", "sweeps")
	rec.Exhaustive(true)
	t.Cleanup(stats.FlushAll)
	maxLen, step := 300, 1
	if vt.Thorough() {
		maxLen = 1100
	}
	rec.Rule(fmt.Sprintf("complete sweeps with fixed pseudo-random contents: plaintext length 0..%d x aad length {0,1,15,16,17,127,128,129,300} (12-byte nonce, tag 16); aad length 0..%d (plaintext 37); nonce length 1..300 (plaintext 70, aad 20, tag 16) and x tag 12..16 through Block.NewGCM; counter wrap grid: initial counter 2^32-1-j for j in 0..80 x plaintext lengths {15,16,17,31,33,64,65,128,129,255,256,257,300,511,513,1100} with a solved 16-byte nonce. Oracle gcmref/sm4ref. Quick sweeps stop at %d. Every case non-trivial by position in the sweep; distinct by construction.", maxLen, maxLen, maxLen))
	key := []byte{0x01, 0x23, 0x45, 0x67, 0x89, 0xab, 0xcd, 0xef, 0xfe, 0xdc, 0xba, 0x98, 0x76, 0x54, 0x32, 0x10}
	for i := range key {
		key[i] ^= byte(vt.Seed())
	}
	ref := sm4ref.New(key)
	data := make([]byte, 1200)
	for i := range data {
		data[i] = byte(i*197 + 13 + int(vt.Seed()))
	}
	si, sn := vt.Shard()
	idx := 0
	mine := func() bool { idx++; return idx%sn == si }
	run := func(how string, nonce, aad, pt []byte, tag int) {
		c := &gcmCase{Key: key, Nonce: nonce, AAD: aad, PT: pt, TagSize: tag, How: how, Ref: ref}
		rec.Enumerated(1, how)
		c06Check(t, rec, c)
	}
	n12 := data[500:512]
	for pl := 0; pl <= maxLen; pl += step {
		for _, al := range []int{0, 1, 15, 16, 17, 127, 128, 129, 300} {
			if mine() {
				run("NewGCM", n12, data[600:600+al], data[:pl], 16)
			}
		}
	}
	for al := 0; al <= maxLen; al++ {
		if mine() {
			run("NewGCM", n12, data[:al], data[700:737], 16)
		}
	}
	for nl := 1; nl <= 300; nl++ {
		if mine() {
			run("WithNonceSize", data[100:100+nl], data[:20], data[800:870], 16)
		}
		for tag := 12; tag <= 16; tag++ {
			if mine() {
				run("Block.NewGCM", data[100:100+nl], data[:20], data[800:870], tag)
			}
		}
	}
	for tag := 12; tag <= 16; tag++ {
		for pl := 0; pl <= 100; pl++ {
			if mine() {
				run("WithTagSize", n12, data[:7], data[:pl], tag)
			}
		}
	}
	for j := 0; j <= 80; j++ {
		for _, pl := range []int{15, 16, 17, 31, 33, 64, 65, 128, 129, 255, 256, 257, 300, 511, 513, 1100} {
			if !mine() {
				continue
			}
			j0 := append([]byte(nil), data[900:916]...)
			j0[12], j0[13], j0[14], j0[15] = 0xff, 0xff, 0xff, byte(0xff-j)
			run("WithNonceSize", gcmref.SolveNonce16(ref, j0), data[:9], data[:pl], 16)
		}
	}
	rec.Sample("sweep", map[string]interface{}{"key": fmt.Sprintf("%x", key), "max_len": maxLen})
}

// Lengths whose BIT length does not fit in 32 bits (thorough tier only: half a gigabyte of aad / plaintext).
func TestVerif_C06_HugeLengths(t *testing.T) {
	rec := stats.Get("C06", "huge-lengths")
	rec.Rule("thorough only: aad of 2^29 and 2^29+5 bytes with a 37-byte plaintext, and a plaintext of 2^29+17 bytes with 5 bytes of aad (12-byte nonce, tag 16). Oracle: tag = E(J0) xor GHASH computed by a streaming form of the reference over aad, ciphertext and the 64-bit length block; ciphertext = reference CTR (complete for the short plaintexts; for the long one the first and last blocks, the tail and 4000 sampled counter positions are recomputed with sm4ref). 3 cases, all non-trivial (bit lengths above 2^32).")
	t.Cleanup(stats.FlushAll)
	if !vt.Thorough() {
		rec.Note("skipped in the quick tier (needs about 1 GiB of memory and half a minute)")
		t.Skip("thorough only")
	}
	if si, _ := vt.Shard(); si != 0 {
		t.Skip("shard 0 only")
	}
	key := []byte{0x01, 0x23, 0x45, 0x67, 0x89, 0xab, 0xcd, 0xef, 0xfe, 0xdc, 0xba, 0x98, 0x76, 0x54, 0x32, 0x10}
	ref := sm4ref.New(key)
	b, _ := sm4.NewCipher(key)
	a, err := cipher.NewGCM(b)
	if err != nil {
		t.Fatal(err)
	}
	nonce := []byte{1, 2, 3, 4, 5, 6, 7, 8, 9, 10, 11, 12}
	j0 := gcmref.J0(ref, nonce)
	h := gcmref.HashKey(ref)
	ej0 := make([]byte, 16)
	ref.Encrypt(ej0, j0)
	big := make([]byte, 1<<29+17)
	for i := range big {
		big[i] = byte(i*131 + i>>11)
	}
	for _, c := range []struct{ aadLen, ptLen int }{{1 << 29, 37}, {1<<29 + 5, 37}, {5, 1<<29 + 17}} {
		aad, pt := big[:c.aadLen], big[:c.ptLen]
		var out []byte
		if p := vt.Catch(func() { out = a.Seal(nil, nonce, pt, aad) }); p != nil {
			vt.Fail(t, rec, "C06:seal:panic", "Seal panicked with aad %d bytes, plaintext %d bytes: %v", c.aadLen, c.ptLen, p)
			continue
		}
		rec.Case(uint64(c.aadLen)<<32|uint64(c.ptLen), true, "huge")
		rec.Sample("huge", map[string]interface{}{"aad_len": c.aadLen, "pt_len": c.ptLen})
		if len(out) != c.ptLen+16 {
			vt.Fail(t, rec, "C06:seal:ciphertext", "output length %d", len(out))
			continue
		}
		ct := out[:c.ptLen]
		// ciphertext: complete for short plaintexts, sampled for the long one
		check := func(blk int) bool {
			ks := make([]byte, 16)
			ref.Encrypt(ks, gcmref.CounterBlock(j0, uint32(blk+1)))
			for i := 0; i < 16 && 16*blk+i < c.ptLen; i++ {
				if ct[16*blk+i] != pt[16*blk+i]^ks[i] {
					return false
				}
			}
			return true
		}
		nblk := (c.ptLen + 15) / 16
		bad := -1
		for k := 0; k < 4000 && bad < 0; k++ {
			blk := k
			if nblk > 4000 {
				blk = int((uint64(k)*2654435761 + 12345) % uint64(nblk))
				if k < 20 {
					blk = k
				} else if k < 40 {
					blk = nblk - 1 - (k - 20)
				}
			} else if k >= nblk {
				break
			}
			if !check(blk) {
				bad = blk
			}
		}
		if bad >= 0 {
			vt.Fail(t, rec, "C06:seal:ciphertext", "ciphertext block %d wrong (aad %d bytes, plaintext %d bytes)", bad, c.aadLen, c.ptLen)
			continue
		}
		g := gcmref.NewGHashStream(h)
		g.Blocks(aad)
		g.Blocks(ct)
		s := g.Sum(c.aadLen, c.ptLen)
		want := make([]byte, 16)
		for i := range want {
			want[i] = s[i] ^ ej0[i]
		}
		if !bytes.Equal(out[c.ptLen:], want) {
			vt.Fail(t, rec, "C06:seal:tag", "tag wrong for aad of %d bytes (bit length %d) and plaintext of %d bytes\n got %x\nwant %x", c.aadLen, uint64(c.aadLen)*8, c.ptLen, out[c.ptLen:], want)
		}
	}
}

// Quick-tier companion of the huge-length test: additional data of 2^29 and 2^29+5 ZERO bytes (untouched anonymous pages,
// so no memory is really needed). GHASH of zero blocks from the zero state stays zero, so the expected tag only needs the
// ciphertext and the length block — the bit length of the aad (> 2^32) is what is being tested.
func TestVerif_C06_HugeZeroAAD(t *testing.T) {
	rec := stats.Get("C06", "huge-zero-aad")
	rec.Rule("aad of 2^29, 2^29+5 and 2^30+16 zero bytes (read-only anonymous mapping), plaintext 0, 37 and 300 bytes, 12-byte nonce, tag 16: expected tag = E(J0) xor GHASH(0-blocks || C || [len A]_64 [len C]_64) where the zero blocks leave the GHASH state at zero (reference streaming GHASH). 9 cases, all non-trivial (aad bit length >= 2^32); distinct by (aad length, plaintext length).")
	t.Cleanup(stats.FlushAll)
	const maxAad = 1<<30 + 16
	mem, err := syscall.Mmap(-1, 0, maxAad, syscall.PROT_READ, syscall.MAP_ANON|syscall.MAP_PRIVATE)
	if err != nil {
		rec.Skipped("cannot map 1 GiB of zero pages: " + err.Error())
		t.Skip()
	}
	defer syscall.Munmap(mem)
	key := []byte{0xf0, 0xe1, 0xd2, 0xc3, 0xb4, 0xa5, 0x96, 0x87, 0x78, 0x69, 0x5a, 0x4b, 0x3c, 0x2d, 0x1e, 0x0f}
	ref := sm4ref.New(key)
	b, _ := sm4.NewCipher(key)
	a, _ := cipher.NewGCM(b)
	nonce := []byte{9, 8, 7, 6, 5, 4, 3, 2, 1, 0, 1, 2}
	j0 := gcmref.J0(ref, nonce)
	ej0 := make([]byte, 16)
	ref.Encrypt(ej0, j0)
	pt := make([]byte, 300)
	for i := range pt {
		pt[i] = byte(i * 7)
	}
	for _, al := range []int{1 << 29, 1<<29 + 5, maxAad} {
		for _, pl := range []int{0, 37, 300} {
			var out []byte
			if p := vt.Catch(func() { out = a.Seal(nil, nonce, pt[:pl], mem[:al]) }); p != nil {
				vt.Fail(t, rec, "C06:seal:panic", "Seal panicked with %d bytes of aad: %v", al, p)
				continue
			}
			rec.Case(uint64(al)<<16|uint64(pl), true, "huge-zero-aad")
			icb := gcmref.CounterBlock(j0, 1)
			ct := gcmref.GCTR(ref, icb, pt[:pl])
			g := gcmref.NewGHashStream(gcmref.HashKey(ref)) // the al zero bytes leave the state at zero
			g.Blocks(ct)
			s := g.Sum(al, pl)
			want := append([]byte(nil), ct...)
			for i := 0; i < 16; i++ {
				want = append(want, s[i]^ej0[i])
			}
			if !bytes.Equal(out, want) {
				what := "tag"
				if len(out) < pl || !bytes.Equal(out[:pl], ct) {
					what = "ciphertext"
				}
				vt.Fail(t, rec, "C06:seal:"+what, "Seal with %d zero bytes of aad (bit length %d) and %d bytes of plaintext differs from SP 800-38D in the %s\n got %x\nwant %x", al, uint64(al)*8, pl, what, out, want)
			}
		}
	}
	rec.Sample("huge-zero-aad", map[string]interface{}{"aad_lengths": []int{1 << 29, 1<<29 + 5, maxAad}, "pt_lengths": []int{0, 37, 300}})
}
