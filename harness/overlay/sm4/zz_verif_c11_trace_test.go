//go:build amd64

package sm4

// C11 (byte granularity, amd64 assembly) — every memory access of every assembly routine stays inside its arguments.
//
// Guard pages only see an access that crosses the page edge; an over-read of a few bytes that stays inside mapped memory (for
// instance one taken only when it cannot fault) is invisible to them. Here the parent test draws a plan of direct calls of the
// assembly routines with arguments placed at drawn offsets of an arena, separated by gaps; /verif/.build/asmtrace runs this
// test binary again as a ptrace'd child, single-steps every call and computes, for every executed instruction, the address and
// WIDTH of each memory operand (decoded from objdump; opmask registers read from the XSAVE area for masked moves). Before each
// call the child announces the byte ranges of the arguments through verifC11Mark. Oracle: every access lies inside one announced
// range, the routine's own stack frame, or is RIP-relative (the constant tables).

import (
	"encoding/json"
	"fmt"
	"os"
	"os/exec"
	"path/filepath"
	"runtime"
	"syscall"
	"testing"
	"unsafe"

	"pgregory.net/rapid"
	"verif.local/ref/gcmref"
	"verif.local/ref/gen"
	"verif.local/ref/sm4ref"
	"verif.local/ref/stats"
	"verif.local/ref/vt"
)

type verifC11Entry struct {
	Routine    string   `json:"routine"`
	Group      string   `json:"group"`
	Label      string   `json:"label"`
	RangeNames []string `json:"range_names"`
	Op         string   `json:"op"`
	W          int      `json:"w"`
	Dec        bool     `json:"dec"`
	InPlace    bool     `json:"inplace"`
	N          int      `json:"n"`
	PL         int      `json:"pl"`
	AL         int      `json:"al"`
	NL         int      `json:"nl"`
	Tag        int      `json:"tag"`
	Forge      bool     `json:"forge"`
	Off        [6]int   `json:"off"` // placement offsets (0..127) of up to six arguments
	Seed       uint64   `json:"seed"`
}

type verifC11Range struct{ Addr, Len uintptr }

var (
	verifC11Tab  [16]verifC11Range
	verifC11Sink int
)

// verifC11Mark is where the tracer picks up the ranges of the next call (it reads the two argument registers at entry).
//
//go:noinline
func verifC11Mark(tab *[16]verifC11Range, n int) { verifC11Sink += n + int(tab[0].Len) }

// verifC11Arena hands out argument buffers at chosen offsets, separated by gaps the routines have no business in.
type verifC11Arena struct {
	mem []byte
	pos int
	n   int
}

func (a *verifC11Arena) take(n, off int) []byte {
	a.pos += 512 + off
	b := a.mem[a.pos : a.pos+n : a.pos+n]
	a.pos += n
	return b
}

func (a *verifC11Arena) announce(_ *[]string, _ string, b []byte) {
	verifC11Tab[a.n] = verifC11Range{uintptr(unsafe.Pointer(unsafe.SliceData(b))), uintptr(len(b))}
	a.n++
}

func verifC11Names(op string) []string {
	switch op {
	case "expandKey":
		return []string{"key", "round keys (enc||dec)"}
	case "block":
		return []string{"round keys (enc||dec)", "dst", "src"}
	case "ghash":
		return []string{"H", "tag", "data"}
	case "copy":
		return []string{"dst", "src"}
	}
	return []string{"round keys (enc||dec)", "dst", "nonce", "text", "aad", "temp"}
}

func TestVerif_C11_TraceChild(t *testing.T) {
	if os.Getenv("VERIF_C11_CHILD") == "" {
		t.Skip("only run as the traced child of TestVerif_C11_AccessTrace")
	}
	runtime.LockOSThread()
	b, err := os.ReadFile(os.Getenv("VERIF_C11_PLAN"))
	if err != nil {
		t.Fatal(err)
	}
	var plan []verifC11Entry
	if err := json.Unmarshal(b, &plan); err != nil {
		t.Fatal(err)
	}
	// an anonymous mapping, far away from the goroutine stack
	mem, err := syscall.Mmap(-1, 0, 1<<18, syscall.PROT_READ|syscall.PROT_WRITE, syscall.MAP_ANON|syscall.MAP_PRIVATE)
	if err != nil {
		t.Fatal(err)
	}
	type keys struct{ enc, dec [32]uint32 }
	for _, e := range plan {
		a := &verifC11Arena{mem: mem}
		for i := range mem {
			mem[i] = 0xa5
		}
		fill := func(b []byte, salt uint64) { verifFill(b, fmt.Sprintf("seed:%d", e.Seed), salt) }
		// the key material lives in an object shaped like the library's own (enc followed by dec)
		kb := a.take(int(unsafe.Sizeof(keys{}))+8, e.Off[0]&^7)
		ks := (*keys)(unsafe.Pointer(&kb[0]))
		key := a.take(16, e.Off[1])
		fill(key, 1)
		expandKey(key, &ks.enc, &ks.dec) // portable Go code, not traced
		ksBytes := kb[:unsafe.Sizeof(keys{})]
		switch e.Op {
		case "expandKey":
			a.announce(nil, "", key)
			a.announce(nil, "", ksBytes)
			verifC11Mark(&verifC11Tab, a.n)
			expandKeyAsm(&key[0], &ks.enc[0], &ks.dec[0])
		case "block":
			src := a.take(16*e.W, e.Off[2])
			dst := a.take(16*e.W, e.Off[3])
			if e.InPlace {
				dst = src
			}
			fill(src, 2)
			rk := &ks.enc
			if e.Dec {
				rk = &ks.dec
			}
			a.announce(nil, "", ksBytes)
			a.announce(nil, "", dst)
			a.announce(nil, "", src)
			verifC11Mark(&verifC11Tab, a.n)
			switch e.W {
			case 1:
				cryptoBlockAsm(&rk[0], &dst[0], &src[0])
			case 2:
				cryptoBlockAsmX2(&rk[0], &dst[0], &src[0])
			case 4:
				cryptoBlockAsmX4(&rk[0], &dst[0], &src[0])
			case 8:
				cryptoBlockAsmX8(&rk[0], &dst[0], &src[0])
			case 16:
				cryptoBlockAsmX16(&rk[0], &dst[0], &src[0])
			}
		case "ghash":
			h, tag, data := a.take(16, e.Off[2]), a.take(16, e.Off[3]), a.take(16*e.N, e.Off[4])
			fill(h, 3)
			fill(tag, 4)
			fill(data, 5)
			a.announce(nil, "", h)
			a.announce(nil, "", tag)
			a.announce(nil, "", data)
			verifC11Mark(&verifC11Tab, a.n)
			gHashBlocks(&h[0], &tag[0], &data[0], e.N)
		case "copy":
			src, dst := a.take(e.N, e.Off[2]), a.take(e.N, e.Off[3])
			fill(src, 6)
			a.announce(nil, "", dst)
			a.announce(nil, "", src)
			verifC11Mark(&verifC11Tab, a.n)
			copyAsm(&dst[0], &src[0], e.N)
		case "seal", "open":
			nonce, aad, temp := a.take(e.NL, e.Off[2]), a.take(e.AL, e.Off[3]), a.take(2*BlockSize, e.Off[4]&^15)
			fill(nonce, 7)
			fill(aad, 8)
			if e.Op == "seal" {
				pt := a.take(e.PL, e.Off[5])
				fill(pt, 9)
				dst := a.take(e.PL+e.Tag, e.Off[1])
				if e.InPlace {
					// the in-place idiom: dst = pt[:0] with room for the tag
					both := a.take(e.PL+e.Tag, e.Off[1])
					copy(both, pt)
					pt, dst = both[:e.PL:e.PL], both
				}
				a.announce(nil, "", ksBytes)
				a.announce(nil, "", dst)
				a.announce(nil, "", nonce)
				a.announce(nil, "", pt)
				a.announce(nil, "", aad)
				a.announce(nil, "", temp)
				verifC11Mark(&verifC11Tab, a.n)
				sealAsm(&ks.enc[0], e.Tag, &dst[0], nonce, pt, aad, &temp[0])
				continue
			}
			ptmp := make([]byte, e.PL)
			fill(ptmp, 9)
			sealed := gcmref.Seal(sm4ref.New(key), nonce, ptmp, aad, e.Tag) // pure Go, not traced
			ct := a.take(e.PL+e.Tag, e.Off[5])
			copy(ct, sealed)
			if e.Forge {
				ct[len(ct)-1-int(e.Seed%uint64(e.Tag))] ^= 0x10
			}
			dst := a.take(e.PL, e.Off[1])
			if e.InPlace {
				dst = ct[:e.PL:e.PL]
			}
			a.announce(nil, "", ksBytes)
			a.announce(nil, "", dst)
			a.announce(nil, "", nonce)
			a.announce(nil, "", ct)
			a.announce(nil, "", aad)
			a.announce(nil, "", temp)
			verifC11Mark(&verifC11Tab, a.n)
			var dp *byte
			if len(dst) > 0 {
				dp = &dst[0]
			}
			ok := openAsm(&ks.enc[0], e.Tag, dp, nonce, ct, aad, &temp[0])
			if (ok == 1) == e.Forge {
				t.Fatalf("plan/child mismatch: openAsm returned %d for forge=%v", ok, e.Forge)
			}
		}
	}
}

func TestVerif_C11_AccessTrace(t *testing.T) {
	rec := stats.Get("C11", "asm-access-trace")
	rec.Rule("rapid draws direct calls of the amd64 assembly routines: expandKeyAsm; cryptoBlockAsm x1/x2/x4/x8/x16 (enc/dec keys, separate or in-place dst); gHashBlocks 1..20 blocks; copyAsm 1..70 bytes; sealAsm/openAsm with text/aad lengths from the kernel-combination generator (0..1100) or small, nonce length {12,1,7,8,13,16,17,20,128,130,157}, tag 12..16, in-place or separate dst, authentic or forged; every argument placed at a drawn offset (0..127) of an arena with >= 512-byte gaps. A ptrace single-stepper computes address and width of every memory operand of every executed instruction (objdump; opmask registers from the XSAVE area for masked moves). Oracle: each access lies within one announced argument range (key object = enc||dec as in the library's cipher object, 32-byte temp), the routine's stack frame, or is RIP-relative. One case = one traced call; non-trivial: a length that is not a multiple of 16 or a nonce that is not 12 bytes or a width > 1; distinct by call parameters.")
	t.Cleanup(stats.FlushAll)
	if !candoAsm {
		rec.Skipped("CPU lacks GFNI/AVX512/VPCLMULQDQ: the assembly cannot be executed here")
		t.Skip()
	}
	tool := filepath.Join(os.Getenv("VERIF_DIR"), ".build", "asmtrace")
	if _, err := os.Stat(tool); err != nil {
		rec.Skipped("asmtrace tool not built: " + err.Error())
		t.Skip()
	}
	var plan []verifC11Entry
	var pending []func()
	rapid.Check(t, func(t *rapid.T) {
		op := gen.Pick(t, "op", "expandKey", "block", "block", "ghash", "copy", "seal", "seal", "seal", "seal", "open", "open", "open", "open")
		e := verifC11Entry{Op: op, Seed: uint64(gen.Uniform(t, "seed", 1, 1<<30))}
		for i := range e.Off {
			e.Off[i] = gen.Uniform(t, "off", 0, 127)
			if gen.Int(t, "aligned", 0, 3) == 0 {
				e.Off[i] &^= 15
			}
		}
		nontrivial := false
		switch op {
		case "expandKey":
			e.Routine = "expandKeyAsm"
		case "block":
			e.W = []int{1, 2, 4, 8, 16}[gen.Uniform(t, "w", 0, 4)]
			e.Dec, e.InPlace = gen.Bool(t, "dec"), gen.Bool(t, "inplace")
			e.Routine = map[int]string{1: "cryptoBlockAsm", 2: "cryptoBlockAsmX2", 4: "cryptoBlockAsmX4", 8: "cryptoBlockAsmX8", 16: "cryptoBlockAsmX16"}[e.W]
			nontrivial = e.W > 1
		case "ghash":
			e.N = gen.Int(t, "blocks", 1, 20)
			e.Routine = "gHashBlocks"
			nontrivial = e.N > 1
		case "copy":
			e.N = gen.Uniform(t, "n", 1, 70)
			e.Routine = "copyAsm"
			nontrivial = e.N%16 != 0
		case "seal", "open":
			e.PL, _ = verifLen(t, "pt")
			if gen.Int(t, "ptsmall", 0, 2) == 0 {
				e.PL = gen.Uniform(t, "ptn", 0, 70)
			}
			e.AL, _ = verifLen(t, "aad")
			if gen.Bool(t, "aadsmall") {
				e.AL = gen.Uniform(t, "aadn", 0, 40)
			}
			e.NL = []int{12, 12, 1, 7, 8, 13, 16, 17, 20, 128, 130, 157}[gen.Uniform(t, "nl", 0, 11)]
			e.Tag = gen.Uniform(t, "tag", 12, 16)
			e.InPlace = gen.Bool(t, "inplace")
			e.Forge = op == "open" && gen.Int(t, "forged", 0, 2) == 0
			e.Routine = op + "Asm"
			nontrivial = e.PL%16 != 0 || e.AL%16 != 0 || e.NL != 12
		}
		e.RangeNames = verifC11Names(op)
		e.Label = fmt.Sprintf("%s w=%d dec=%v inplace=%v n=%d pt=%d aad=%d nonce=%d tag=%d forged=%v offsets=%v", e.Routine, e.W, e.Dec, e.InPlace, e.N, e.PL, e.AL, e.NL, e.Tag, e.Forge, e.Off)
		e.Group = fmt.Sprintf("call %d", len(plan))
		plan = append(plan, e)
		ee := e
		pending = append(pending, func() {
			rec.Case(stats.HashS(ee.Label), nontrivial, "routine:"+ee.Routine, fmt.Sprintf("nonce12:%v", ee.NL == 12 || ee.NL == 0))
		})
		if rec.WantSample(e.Routine) {
			rec.Sample(e.Routine, map[string]interface{}{"call": e.Label})
		}
	})
	if t.Failed() || len(plan) == 0 {
		return
	}
	dir := t.TempDir()
	planPath, outPath := filepath.Join(dir, "plan.json"), filepath.Join(dir, "result.json")
	pb, _ := json.Marshal(plan)
	os.WriteFile(planPath, pb, 0o644)
	exe, _ := os.Executable()
	cmd := exec.Command(tool, "-bounds", "-bin", exe, "-plan", planPath, "-out", outPath, "--", "-test.run", "^TestVerif_C11_TraceChild$", "-test.timeout", "3000s")
	cmd.Env = append(os.Environ(), "VERIF_C11_CHILD=1", "VERIF_C11_PLAN="+planPath, "GOMAXPROCS=1", "GOGC=off", "GODEBUG=asyncpreemptoff=1", "VERIF_STATS_DIR=")
	out, err := cmd.CombinedOutput()
	rb, rerr := os.ReadFile(outPath)
	if rerr != nil {
		// the tracer could not do its work (ptrace not permitted, objdump missing, child died): this sub-check is skipped, the
		// guard-page sub-checks still decide the property at page granularity
		rec.Skipped(fmt.Sprintf("tracer failed (%v): %s", err, verifTail(string(out), 800)))
		t.Skipf("HARNESS: tracer failed: %v\n%s", err, out)
	}
	var res struct {
		Calls, Steps int
		PlanEntries  int      `json:"plan_entries"`
		ChildExit    int      `json:"child_exit"`
		Checked      int      `json:"accesses_checked"`
		Masked       int      `json:"masked_accesses"`
		Unjudged     []string `json:"size_unknown_mnemonics"`
		Violations   []struct {
			Routine string `json:"routine"`
			Offset  uint64 `json:"offset"`
			Insn    string `json:"instruction"`
			Addr    uint64 `json:"address"`
			Size    int    `json:"size"`
			Where   string `json:"where"`
			Label   string `json:"label"`
			Call    int    `json:"call"`
		} `json:"bounds_violations"`
	}
	if err := json.Unmarshal(rb, &res); err != nil {
		rec.Skipped("bad tracer output: " + err.Error())
		t.Skip()
	}
	if res.ChildExit != 0 || res.Calls != len(plan) {
		rec.Skipped(fmt.Sprintf("traced child exit %d after %d of %d calls: %s", res.ChildExit, res.Calls, len(plan), verifTail(string(out), 800)))
		t.Skip()
	}
	for _, f := range pending[:res.Calls] {
		f()
	}
	rec.Note("traced %d calls, %d single-stepped instructions, %d memory accesses judged (%d masked); mnemonics whose width is not tabulated (first byte judged only): %v", res.Calls, res.Steps, res.Checked, res.Masked, res.Unjudged)
	for _, v := range res.Violations {
		desc := map[string]interface{}{"call": v.Label, "routine": v.Routine, "offset": v.Offset, "instruction": v.Insn, "address": v.Addr, "size": v.Size, "where": v.Where, "test": "TestVerif_C11_AccessTrace"}
		rec.Violation("C11:asm:access-outside:"+v.Routine, desc)
		vt.Fail(t, rec, "C11:asm:access-outside:"+v.Routine, "%s+%#x (%s) accesses %d byte(s) at %#x: %s\ncall: %s", v.Routine, v.Offset, v.Insn, v.Size, v.Addr, v.Where, v.Label)
		break
	}
}

func verifTail(s string, n int) string {
	if len(s) > n {
		return s[len(s)-n:]
	}
	return s
}
