//go:build amd64

package sm4

// C05 from a cold start, in every order. What a routine needs — tables, constants, feature flags — must be there whichever routine
// of the package happens to be called FIRST in a process: the portable block functions with a schedule that did not come from the
// portable key schedule, the portable key schedule before or after the accelerated one, the public constructors before or after
// either. A child process of this test binary makes a drawn permutation of these calls its very first calls into the package;
// every result is compared with the reference cipher there and then.

import (
	"bytes"
	"encoding/hex"
	"fmt"
	"os"
	"os/exec"
	"strings"
	"testing"

	"pgregory.net/rapid"
	"verif.local/ref/gen"
	"verif.local/ref/sm4ref"
	"verif.local/ref/stats"
	"verif.local/ref/vt"
)

var c05ColdSteps = []string{"portable-block/ref-schedule", "portable-x2/ref-schedule", "portable-keyschedule", "asm-keyschedule", "asm-block/ref-schedule", "portable-block/asm-schedule", "newCipherGeneric", "NewCipher", "NewCipher+GCM"}

func TestVerif_C05_ColdOrderChild(t *testing.T) {
	spec := os.Getenv("VERIF_C05_COLD")
	if spec == "" {
		t.Skip("only run as a child of TestVerif_C05_ColdOrder")
	}
	parts := strings.Split(spec, "|")
	key, _ := hex.DecodeString(parts[0])
	src, _ := hex.DecodeString(parts[1])
	ref := sm4ref.New(key)
	rk := sm4ref.RoundKeys(key)
	var drk [32]uint32
	for i := range rk {
		drk[i] = rk[31-i]
	}
	wantE, wantD := make([]byte, 32), make([]byte, 32)
	ref.Encrypt(wantE, src)
	ref.Encrypt(wantE[16:], src[16:])
	ref.Decrypt(wantD, src)
	ref.Decrypt(wantD[16:], src[16:])
	bad := func(step, what string) { fmt.Printf("VERIF-COLD-MISMATCH: first calls %s: step %s: %s\n", parts[2], step, what) }
	for _, step := range strings.Split(parts[2], ",") {
		out := make([]byte, 32)
		switch step {
		case "portable-block/ref-schedule":
			cryptoBlock(src[:16], out[:16], &rk)
			if !bytes.Equal(out[:16], wantE[:16]) {
				bad(step, fmt.Sprintf("got %x want %x", out[:16], wantE[:16]))
			}
			cryptoBlock(src[:16], out[:16], &drk)
			if !bytes.Equal(out[:16], wantD[:16]) {
				bad(step, "decryption direction wrong")
			}
		case "portable-x2/ref-schedule":
			cryptoBlockX2(src, out, &rk)
			if !bytes.Equal(out, wantE) {
				bad(step, fmt.Sprintf("got %x want %x", out, wantE))
			}
		case "portable-keyschedule":
			var e, d [32]uint32
			expandKey(key, &e, &d)
			if e != rk || d != drk {
				bad(step, "round keys differ from the reference")
			}
		case "asm-keyschedule":
			if candoAsm {
				var e, d [32]uint32
				expandKeyAsm(&key[0], &e[0], &d[0])
				if e != rk || d != drk {
					bad(step, "round keys differ from the reference")
				}
			}
		case "asm-block/ref-schedule":
			if candoAsm {
				cryptoBlockAsm(&rk[0], &out[0], &src[0])
				if !bytes.Equal(out[:16], wantE[:16]) {
					bad(step, fmt.Sprintf("got %x want %x", out[:16], wantE[:16]))
				}
			}
		case "portable-block/asm-schedule":
			if candoAsm {
				var e, d [32]uint32
				expandKeyAsm(&key[0], &e[0], &d[0])
				cryptoBlock(src[:16], out[:16], &e)
				if !bytes.Equal(out[:16], wantE[:16]) {
					bad(step, fmt.Sprintf("got %x want %x", out[:16], wantE[:16]))
				}
			}
		case "newCipherGeneric", "NewCipher", "NewCipher+GCM":
			mk := NewCipher
			if step == "newCipherGeneric" {
				mk = newCipherGeneric
			}
			b, err := mk(key)
			if err != nil {
				bad(step, err.Error())
				break
			}
			b.Encrypt(out[:16], src[:16])
			b.Decrypt(out[16:], src[16:])
			if !bytes.Equal(out[:16], wantE[:16]) || !bytes.Equal(out[16:], wantD[16:]) {
				bad(step, "Encrypt/Decrypt differ from the reference")
			}
		}
	}
	fmt.Println("VERIF-COLD-DONE")
}

func TestVerif_C05_ColdOrder(t *testing.T) {
	rec := stats.Get("C05", "cold-order")
	rec.Rule("rapid draws a key, two blocks and a permutation of 4..9 first calls into package sm4 (portable block functions with a reference schedule or an accelerated schedule, portable and accelerated key schedule, accelerated block with a reference schedule, newCipherGeneric, NewCipher); a CHILD PROCESS makes them its first calls. Oracle: every step equals the reference cipher. Non-trivial: every plan; distinct by (permutation, key).")
	t.Cleanup(stats.FlushAll)
	exe, err := os.Executable()
	if err != nil {
		rec.Skipped("cannot locate the test binary")
		return
	}
	rapid.Check(t, func(t *rapid.T) {
		r := gen.Rand(t, "content")
		key, src := gen.RandBytes(r, 16), gen.RandBytes(r, 32)
		steps := append([]string(nil), c05ColdSteps...)
		for i := len(steps) - 1; i > 0; i-- {
			j := gen.Uniform(t, fmt.Sprintf("perm%d", i), 0, i)
			steps[i], steps[j] = steps[j], steps[i]
		}
		steps = steps[:gen.Uniform(t, "nsteps", 4, len(steps))]
		order := strings.Join(steps, ",")
		cmd := exec.Command(exe, "-test.run", "^TestVerif_C05_ColdOrderChild$", "-test.count=1")
		cmd.Env = append(os.Environ(), "VERIF_C05_COLD="+hex.EncodeToString(key)+"|"+hex.EncodeToString(src)+"|"+order, "VERIF_STATS_DIR=")
		out, runErr := cmd.CombinedOutput()
		so := string(out)
		rec.Case(stats.HashS(order, hex.EncodeToString(key)), true, "first:"+steps[0])
		if rec.WantSample(steps[0]) {
			rec.Sample(steps[0], map[string]interface{}{"first_calls": order})
		}
		switch {
		case strings.Contains(so, "VERIF-COLD-MISMATCH: "):
			i := strings.Index(so, "VERIF-COLD-MISMATCH: ")
			vt.Fail(t, rec, "C05:cold-order:wrong", "%s", strings.SplitN(so[i+21:], "\n", 2)[0])
		case strings.Contains(so, "VERIF-COLD-DONE"):
		case runErr != nil && (strings.Contains(so, "panic:") || strings.Contains(so, "fatal error") || strings.Contains(so, "unexpected signal")):
			vt.Fail(t, rec, "C05:cold-order:crash", "the child crashed (first calls %s): %v\n%s", order, runErr, so[max(0, len(so)-1200):])
		default:
			rec.Skipped(fmt.Sprintf("child gave no verdict (%v)", runErr))
		}
	})
}
