package sm4_test

// C10 — ownership of memory across calls. A history of Seal / Open / rejected Open calls on AEADs derived from ONE Block (with
// different nonce and tag sizes, all alive at the same time), with message sizes from a few bytes to a megabyte and destinations
// that are nil, short without room, or EMPTY WITH A LARGE SPARE CAPACITY. Every buffer the caller has ever handed in or received
// stays the caller's: a later call may neither write into it (unless it is that call's own dst) nor return a slice that overlaps it,
// and the caller may scribble on any result without consequences. Each AEAD keeps the parameters it was built with, whatever was
// built from the same Block afterwards. Expected values come from the reference GCM.

import (
	"bytes"
	"crypto/cipher"
	"fmt"
	"runtime"
	"testing"
	"time"
	"unsafe"

	"github.com/bilibili/smgo/sm4"
	"pgregory.net/rapid"
	"verif.local/ref/gcmref"
	"verif.local/ref/gen"
	"verif.local/ref/sm4ref"
	"verif.local/ref/stats"
	"verif.local/ref/vt"
)

type c10Owned struct {
	name string
	buf  []byte // full capacity
	snap []byte
}

func c10Overlap(a, b []byte) bool {
	if cap(a) == 0 || cap(b) == 0 {
		return false
	}
	a, b = a[:cap(a)], b[:cap(b)]
	pa, pb := uintptr(unsafe.Pointer(unsafe.SliceData(a))), uintptr(unsafe.Pointer(unsafe.SliceData(b)))
	return pa < pb+uintptr(len(b)) && pb < pa+uintptr(len(a))
}

func TestVerif_C10_Ownership(t *testing.T) { verifOwnership(t, "C10") }

// The same histories decide two more properties: C06 (every AEAD seals exactly as the reference does with ITS parameters, whatever
// else was built from the Block) and C11 (no write into, and no result inside, memory that was not handed to the call).
func TestVerif_C06_Siblings(t *testing.T)  { verifOwnership(t, "C06") }
func TestVerif_C11_Ownership(t *testing.T) { verifOwnership(t, "C11") }

func verifOwnership(t *testing.T, prop string) {
	rec := stats.Get(prop, "ownership")
	rec.Rule("rapid history of 3..7 calls on 1..3 AEADs built from ONE Block with different (nonce size, tag size), all kept alive: Seal, Open, Open of a forged message; message size from {0..300, 32..70 KiB, occasionally about 1 MiB}; dst from {nil, 3-byte prefix without room, empty with spare capacity between the output size and 4 MiB, exactly enough room, output room directly before / directly after the input in one arena, the record idiom header||body in one buffer with dst = aad = the header and the body processed in place}; now and then one AEAD is dropped and two garbage collections run while the Block and its other AEADs stay in use. After every call: result = dst || reference output (an AEAD keeps the parameters it was built with); every buffer the caller handed in or received EARLIER and did not pass now is byte-identical; the result does not overlap any such buffer; then the caller scribbles on the result. Non-trivial: a call after a rejected Open, or with a sibling AEAD alive, or of 32 KiB and more; distinct by history.")
	t.Cleanup(stats.FlushAll)
	rapid.Check(t, func(t *rapid.T) {
		r := gen.Rand(t, "seed")
		key := gen.RandBytes(r, 16)
		ref := sm4ref.New(key)
		blk, err := sm4.NewCipher(key)
		if err != nil {
			t.Fatalf("NewCipher: %v", err)
		}
		type aeadInfo struct {
			a          cipher.AEAD
			nonce, tag int
		}
		var aeads []aeadInfo
		mk := func() {
			var a cipher.AEAD
			var err error
			ns, ts := 12, 16
			switch gen.Pick(t, "ctor", "NewGCM", "WithTagSize", "WithNonceSize") {
			case "NewGCM":
				a, err = cipher.NewGCM(blk)
			case "WithTagSize":
				ts = gen.Uniform(t, "tag", 12, 15)
				a, err = cipher.NewGCMWithTagSize(blk, ts)
			default:
				ns = []int{1, 8, 13, 16, 20, 130}[gen.Uniform(t, "ns", 0, 5)]
				a, err = cipher.NewGCMWithNonceSize(blk, ns)
			}
			if err != nil {
				t.Fatalf("constructing an AEAD: %v", err)
			}
			aeads = append(aeads, aeadInfo{a, ns, ts})
		}
		mk()
		var owned []*c10Owned
		own := func(name string, b []byte) {
			if cap(b) == 0 {
				return
			}
			full := b[:cap(b)]
			owned = append(owned, &c10Owned{name, full, append([]byte(nil), full...)})
		}
		resnap := func(b []byte) {
			for _, o := range owned {
				if c10Overlap(o.buf, b) {
					o.snap = append(o.snap[:0], o.buf...)
				}
			}
		}
		steps := gen.Int(t, "steps", 3, 7)
		hist := ""
		afterReject, big, dropped := false, false, false
		for i := 0; i < steps; i++ {
			if len(aeads) < 3 && gen.Uniform(t, "sibling", 0, 2) == 0 {
				mk() // a sibling AEAD from the same Block, possibly with other parameters; the earlier ones stay in use
			}
			if len(aeads) > 1 && gen.Uniform(t, "drop", 0, 3) == 0 {
				// one of the AEADs becomes garbage while the Block and its siblings stay in use; collections and finalizers run
				k := gen.Uniform(t, "dropwhich", 0, len(aeads)-1)
				aeads = append(aeads[:k:k], aeads[k+1:]...)
				for j := 0; j < 2; j++ {
					runtime.GC()
					time.Sleep(time.Millisecond)
				}
				dropped = true
				hist += "drop+gc "
			}
			ai := aeads[gen.Uniform(t, "which", 0, len(aeads)-1)]
			var n int
			switch gen.Pick(t, "size", "small", "small", "small", "small", "mid", "mid", "mid", "mid", "mid", "large") {
			case "small":
				n = gen.Uniform(t, "n", 0, 300)
			case "mid":
				n = gen.Uniform(t, "nmid", 32<<10, 70<<10)
				big = true
			default:
				n = gen.Uniform(t, "nlarge", 1<<20-100, 1<<20+100)
				big = true
				if i > 1 {
					n = gen.Uniform(t, "n", 0, 300) // at most early in a history: the reference is slow
				}
			}
			nonce, aad, pt := gen.RandBytes(r, ai.nonce), gen.RandBytes(r, gen.Uniform(t, "aad", 0, 40)), gen.RandBytes(r, n)
			sealed := gcmref.Seal(ref, nonce, pt, aad, ai.tag)
			op := gen.Pick(t, "op", "seal", "seal", "open", "open-forged", "open-forged")
			var input, want []byte
			need := 0
			switch op {
			case "seal":
				input, want, need = pt, sealed, n+ai.tag
			case "open":
				input, want, need = append([]byte(nil), sealed...), pt, n
			default:
				input = append([]byte(nil), sealed...)
				input[gen.Uniform(t, "flip", 0, len(input)-1)] ^= 0x08
				need = n
			}
			var dst []byte
			dcls := gen.Pick(t, "dst", "nil", "prefix", "empty-roomy", "empty-roomy", "exact", "adjacent-before-input", "adjacent-after-input", "packet-in-place", "packet-in-place")
			switch dcls {
			case "packet-in-place":
				// the record idiom: header || body [|| tag] in ONE buffer, processed in place with the header both kept in front of the
				// result (dst = pkt[:h]) and authenticated (aad = pkt[:h]): dst's existing bytes and the additional data are the same memory
				h := len(aad)
				pkt := make([]byte, h+len(input), h+len(input)+ai.tag)
				copy(pkt, aad)
				copy(pkt[h:], input)
				dst, input, aad = pkt[:h], pkt[h:h+len(input)], pkt[:h:h]
			case "adjacent-before-input":
				// one arena: room for the output, then — without a gap — the input (legal: the regions touch but do not overlap)
				arena := make([]byte, need+len(input))
				copy(arena[need:], input)
				dst, input = arena[:0:need], arena[need:]
			case "adjacent-after-input":
				arena := make([]byte, len(input)+need)
				copy(arena, input)
				input, dst = arena[:len(input):len(input)], arena[len(input):len(input):len(input)+need]
			case "prefix":
				dst = []byte{1, 2, 3}
			case "empty-roomy":
				extra := gen.Uniform(t, "extra", 0, 4096)
				if gen.Bool(t, "veryroomy") {
					extra = gen.Uniform(t, "extraL", 32<<10, 1<<20)
				}
				dst = make([]byte, 0, need+extra)
			case "exact":
				dst = make([]byte, 2, 2+need)
				dst[0], dst[1] = 0xd0, 0xd1
			}
			prefix := append([]byte(nil), dst...)
			hist += fmt.Sprintf("%s/%d/%s/%d:%d ", op, n, dcls, ai.nonce, ai.tag)
			var out []byte
			var oerr error
			if p := vt.Catch(func() {
				if op == "seal" {
					out = ai.a.Seal(dst, nonce, input, aad)
				} else {
					out, oerr = ai.a.Open(dst, nonce, input, aad)
				}
			}); p != nil {
				vt.Fail(t, rec, prop+":ownership:panic", "step %d (%s, %d bytes, dst %s, AEAD nonce %d tag %d, %d AEADs alive on the Block) panicked: %v\nhistory: %s", i, op, n, dcls, ai.nonce, ai.tag, len(aeads), p, hist)
				return
			}
			if op == "open-forged" {
				if oerr == nil || out != nil {
					vt.Fail(t, rec, prop+":ownership:forged-accepted", "step %d: forged message accepted\nhistory: %s", i, hist)
					return
				}
				if !bytes.Equal(dst[:len(prefix)], prefix) {
					vt.Fail(t, rec, prop+":ownership:forged-clobbers-dst", "step %d: a rejected Open (dst %s) changed the bytes the caller already had in dst\nbefore %x\nafter  %x\nhistory: %s", i, dcls, prefix, dst[:len(prefix)], hist)
					return
				}
				afterReject = true
			} else if oerr != nil || !bytes.Equal(out, append(append([]byte(nil), prefix...), want...)) {
				vt.Fail(t, rec, prop+":ownership:append", "step %d: %s with AEAD(nonce %d, tag %d) — %d AEADs alive on one Block — is not dst || reference output (err=%v, len %d, want %d)\nhistory: %s", i, op, ai.nonce, ai.tag, len(aeads), oerr, len(out), len(prefix)+len(want), hist)
				return
			}
			if ai.a.NonceSize() != ai.nonce || ai.a.Overhead() != ai.tag {
				vt.Fail(t, rec, prop+":ownership:parameters", "step %d: an AEAD built with nonce %d / tag %d now reports %d / %d (%d AEADs alive on one Block)\nhistory: %s", i, ai.nonce, ai.tag, ai.a.NonceSize(), ai.a.Overhead(), len(aeads), hist)
				return
			}
			// memory handed in or received earlier and not passed now: untouched, and not part of the result
			for _, o := range owned {
				if c10Overlap(o.buf, dst) {
					continue
				}
				if !bytes.Equal(o.buf, o.snap) {
					vt.Fail(t, rec, prop+":ownership:foreign-write", "step %d (%s, dst %s) changed %s, a buffer of an EARLIER call that was not passed to this one\nhistory: %s", i, op, dcls, o.name, hist)
					return
				}
				if out != nil && c10Overlap(o.buf, out) {
					vt.Fail(t, rec, prop+":ownership:result-aliases-foreign", "step %d: the result of %s(dst %s) lies inside %s, a buffer that belongs to the caller of an earlier call\nhistory: %s", i, op, dcls, o.name, hist)
					return
				}
			}
			// the caller now owns everything it passed and received
			own(fmt.Sprintf("step %d dst (%s)", i, dcls), dst)
			own(fmt.Sprintf("step %d input", i), input)
			own(fmt.Sprintf("step %d nonce", i), nonce)
			own(fmt.Sprintf("step %d aad", i), aad)
			if out != nil {
				for j := len(prefix); j < len(out); j += 1 + len(out)/64 {
					out[j] ^= 0x5c // scribble on the result
				}
				if !c10Overlap(out, dst) {
					own(fmt.Sprintf("step %d result", i), out)
				} else {
					resnap(out)
				}
			}
		}
		rec.Case(stats.HashS(hist)^stats.Hash(key), afterReject || len(aeads) > 1 || big || dropped, fmt.Sprintf("aead-dropped+gc:%v", dropped), fmt.Sprintf("aeads:%d", len(aeads)), fmt.Sprintf("after-reject:%v", afterReject), fmt.Sprintf("32KiB+:%v", big))
		if rec.WantSample(fmt.Sprint(len(aeads), afterReject)) {
			rec.Sample(fmt.Sprint(len(aeads), afterReject), map[string]interface{}{"history": hist})
		}
	})
}
