//go:build amd64

package sm4

// C05 (in-package part) — every kernel width at every lane position, both key
// schedules, the portable one- and two-block code and the dispatch switch,
// against sm4ref.

import (
	"bytes"
	"crypto/cipher"
	"fmt"
	"testing"
	"unsafe"

	"pgregory.net/rapid"
	"verif.local/ref/gen"
	"verif.local/ref/guard"
	"verif.local/ref/sm4ref"
	"verif.local/ref/stats"
	"verif.local/ref/vt"
)

func verifC05Key(t *rapid.T) ([]byte, string) {
	cls := gen.Pick(t, "key.class", "uniform", "uniform", "uniform", "zero", "ones", "onebit", "extbytes")
	r := gen.Rand(t, "key.seed")
	k := gen.RandBytes(r, 16)
	switch cls {
	case "zero":
		k = make([]byte, 16)
	case "ones":
		k = bytes.Repeat([]byte{0xff}, 16)
	case "onebit":
		k = make([]byte, 16)
		p := gen.Uniform(t, "key.pos", 0, 127)
		k[p>>3] = 0x80 >> uint(p&7)
	case "extbytes":
		ext := []byte{0, 1, 0x7f, 0x80, 0xfe, 0xff}
		for i := range k {
			k[i] = ext[r.Intn(len(ext))]
		}
	}
	return k, cls
}

// verifDirtyInt plants a register pattern (set by zz_verif_regs_hook_int_test.go when the driver generated the helper).
var verifDirtyInt func(pat []byte)

func TestVerif_C05_Kernels(t *testing.T) {
	rec := stats.Get("C05", "kernels")
	rec.Rule("rapid: key (classes as above); 256 bytes of source with 16 DISTINCT blocks (uniform, or each block = a different extreme pattern); for each kernel {asm x1,x2,x4,x8,x16, portable x1, portable x2} and direction {enc,dec}: every lane of the output equals sm4ref on that lane's block; dst==src aliasing drawn; both key schedules (expandKeyAsm, expandKey) equal the reference round keys and dec[i]=enc[31-i]; a register pattern (zero / all ones / data) is planted in Z0..Z31 and K1..K7 right before each assembly call; dispatch: NewCipher with candoAsm forced on/off and newCipherGeneric give the same bytes. Non-trivial: always (wide kernels, decrypt direction); distinct by (key, source).")
	t.Cleanup(stats.FlushAll)
	if !candoAsm {
		rec.Skipped("CPU lacks GFNI/AVX512/VPCLMULQDQ: accelerated kernels cannot be executed here")
	}
	rapid.Check(t, func(t *rapid.T) {
		key, kcls := verifC05Key(t)
		r := gen.Rand(t, "seed")
		src := gen.RandBytes(r, 256)
		scls := "uniform"
		if gen.Int(t, "extsrc", 0, 3) == 0 {
			scls = "lane-patterns"
			for lane := 0; lane < 16; lane++ {
				for i := 0; i < 16; i++ {
					src[16*lane+i] = []byte{0, 0xff, 0x80, 0x01, byte(lane), byte(16 * lane), 0x7f, 0xfe}[(lane+i*3)%8]
				}
				src[16*lane] = byte(lane) // keep the lanes distinct
			}
		}
		ref := sm4ref.New(key)
		wantRK := sm4ref.RoundKeys(key)
		var wantE, wantD [256]byte
		for lane := 0; lane < 16; lane++ {
			ref.Encrypt(wantE[16*lane:], src[16*lane:16*lane+16])
			ref.Decrypt(wantD[16*lane:], src[16*lane:16*lane+16])
		}
		rec.Case(stats.Hash(key, src), true, "key:"+kcls, "src:"+scls)
		if rec.WantSample(kcls) {
			rec.Sample(kcls, map[string]interface{}{"key": stats.Hex(key), "src": stats.Hex(src)})
		}
		// key schedules
		var encG, decG, encA, decA [32]uint32
		expandKey(key, &encG, &decG)
		scheds := map[string][2]*[32]uint32{"portable": {&encG, &decG}}
		// register pattern planted right before each assembly call (see prep_sm4_regstate): nil = leave the registers alone
		var regs []byte
		switch gen.Pick(t, "regs", "as-is", "zero", "ones", "random") {
		case "zero":
			regs = make([]byte, 128)
		case "ones":
			regs = bytes.Repeat([]byte{0xff}, 128)
		case "random":
			regs = append([]byte(nil), src[:128]...)
		}
		plant := func() {
			if verifDirtyInt != nil && regs != nil {
				verifDirtyInt(regs)
			}
		}
		if candoAsm {
			plant()
			expandKeyAsm(&key[0], &encA[0], &decA[0])
			scheds["asm"] = [2]*[32]uint32{&encA, &decA}
		}
		for name, s := range scheds {
			for i := 0; i < 32; i++ {
				if s[0][i] != wantRK[i] || s[1][i] != wantRK[31-i] {
					vt.Fail(t, rec, "C05:keyschedule:"+name, "%s key schedule: round key %d = %08x (dec[%d]=%08x), reference %08x\nkey=%x", name, i, s[0][i], 31-i, s[1][31-i], wantRK[i], key)
					return
				}
			}
		}
		inplace := gen.Bool(t, "inplace")
		type kern struct {
			name  string
			lanes int
			f     func(rk *[32]uint32, dst, src []byte)
		}
		kerns := []kern{
			{"portable-x1", 1, func(rk *[32]uint32, dst, src []byte) { cryptoBlock(src, dst, rk) }},
			{"portable-x2", 2, func(rk *[32]uint32, dst, src []byte) { cryptoBlockX2(src, dst, rk) }},
		}
		if candoAsm {
			kerns = append(kerns,
				kern{"asm-x1", 1, func(rk *[32]uint32, dst, src []byte) { cryptoBlockAsm(&rk[0], &dst[0], &src[0]) }},
				kern{"asm-x2", 2, func(rk *[32]uint32, dst, src []byte) { cryptoBlockAsmX2(&rk[0], &dst[0], &src[0]) }},
				kern{"asm-x4", 4, func(rk *[32]uint32, dst, src []byte) { cryptoBlockAsmX4(&rk[0], &dst[0], &src[0]) }},
				kern{"asm-x8", 8, func(rk *[32]uint32, dst, src []byte) { cryptoBlockAsmX8(&rk[0], &dst[0], &src[0]) }},
				kern{"asm-x16", 16, func(rk *[32]uint32, dst, src []byte) { cryptoBlockAsmX16(&rk[0], &dst[0], &src[0]) }})
		}
		for _, k := range kerns {
			n := 16 * k.lanes
			for dir, rk := range []*[32]uint32{&encG, &decG} {
				// start at a drawn lane so that every lane position sees every block
				base := 16 * gen.Uniform(t, "base", 0, 16-k.lanes)
				in := append([]byte(nil), src[base:base+n]...)
				rkc := *rk
				out := make([]byte, n+16) // one spare block as canary
				for i := n; i < n+16; i++ {
					out[i] = 0xC3
				}
				dst := out[:n]
				if inplace {
					dst = in
				}
				// one call in three places the round keys, the source or the destination ACROSS a 2^32-aligned address (ending at it,
				// starting at it, or with 4..n-4 bytes on the far side): pointer arithmetic done in 32 bits goes wrong only there
				rkp := &rkc
				across := "none"
				if gen.Uniform(t, "across4g", 0, 2) == 0 {
					across = gen.Pick(t, "across4g-what", "rk", "rk", "src", "dst")
					switch across {
					case "rk":
						before := 4 * gen.Uniform(t, "rk-before", 0, 32)
						if m := guard.Across4G(128, before, nil); m != nil {
							rkp = (*[32]uint32)(unsafe.Pointer(&m[0]))
							*rkp = *rk
						} else {
							across = "unavailable"
						}
					case "src":
						if m := guard.Across4G(n, gen.Uniform(t, "src-before", 0, n), in); m != nil && !inplace {
							in = m
						} else {
							across = "unavailable"
						}
					case "dst":
						if m := guard.Across4G(n, gen.Uniform(t, "dst-before", 0, n), nil); m != nil && !inplace {
							dst = m
						} else {
							across = "unavailable"
						}
					}
				}
				rec.Tally("across-2^32-address:" + across)
				plant()
				k.f(rkp, dst, in)
				if *rkp != *rk {
					vt.Fail(t, rec, "C05:kernel:"+k.name+":modifies-rk", "kernel %s modified the round keys", k.name)
				}
				want := wantE[base : base+n]
				dn := "enc"
				if dir == 1 {
					want = wantD[base : base+n]
					dn = "dec"
				}
				if !bytes.Equal(dst, want) {
					lane := 0
					for lane < k.lanes && bytes.Equal(dst[16*lane:16*lane+16], want[16*lane:16*lane+16]) {
						lane++
					}
					vt.Fail(t, rec, "C05:kernel:"+k.name+":"+dn, "kernel %s (%s, in-place=%v) differs from GB/T 32907 in lane %d\nkey=%x\n src %x\n got %x\nwant %x", k.name, dn, inplace, lane, key, src[base+16*lane:base+16*lane+16], dst[16*lane:16*lane+16], want[16*lane:16*lane+16])
					return
				}
				if !inplace && !bytes.Equal(in, src[base:base+n]) {
					vt.Fail(t, rec, "C05:kernel:"+k.name+":modifies-src", "kernel %s modified its source", k.name)
				}
				if rkc != *rk {
					vt.Fail(t, rec, "C05:kernel:"+k.name+":modifies-rk", "kernel %s modified the round keys", k.name)
				}
				for i := n; i < n+16; i++ {
					if out[i] != 0xC3 {
						vt.Fail(t, rec, "C05:kernel:"+k.name+":overwrite", "kernel %s wrote past its %d output bytes", k.name, n)
						break
					}
				}
			}
		}
		// dispatch
		saved := candoAsm
		blocks := map[string]cipher.Block{}
		var err error
		if blocks["generic"], err = newCipherGeneric(key); err != nil {
			t.Fatalf("newCipherGeneric: %v", err)
		}
		candoAsm = false
		blocks["NewCipher/asm-off"], _ = NewCipher(key)
		candoAsm = saved
		blocks["NewCipher/default"], _ = NewCipher(key)
		for name, b := range blocks {
			e, d := make([]byte, 16), make([]byte, 16)
			b.Encrypt(e, src[:16])
			b.Decrypt(d, src[:16])
			if !bytes.Equal(e, wantE[:16]) || !bytes.Equal(d, wantD[:16]) {
				vt.Fail(t, rec, "C05:dispatch:"+name, "path %s differs from GB/T 32907\nkey=%x block=%x\nenc %x want %x\ndec %x want %x", name, key, src[:16], e, wantE[:16], d, wantD[:16])
			}
		}
		_ = fmt.Sprint
	})
}

// The key-length rule must hold on every dispatch path: accelerated, and portable (candoAsm forced off).
func TestVerif_C05_KeySizeBothPaths(t *testing.T) {
	rec := stats.Get("C05", "keysize-paths")
	rec.Exhaustive(true)
	rec.Rule("complete enumeration: key lengths nil, 0..64 x {default dispatch, accelerated path forced off}: NewCipher returns (nil, KeySizeError) for every length but 16, a working Block for 16 (checked against sm4ref); no panic. Every case non-trivial; distinct by (length, path).")
	t.Cleanup(stats.FlushAll)
	saved := candoAsm
	defer func() { candoAsm = saved }()
	for _, off := range []bool{false, true} {
		if off {
			candoAsm = false
		} else {
			candoAsm = saved
		}
		for n := -1; n <= 64; n++ {
			var key []byte
			if n >= 0 {
				key = bytes.Repeat([]byte{0x5d}, n)
			}
			var c cipher.Block
			var err error
			rec.Enumerated(1, fmt.Sprintf("asm-off:%v", off))
			if p := vt.Catch(func() { c, err = NewCipher(key) }); p != nil {
				vt.Fail(t, rec, "C05:keysize:panic", "NewCipher(%d-byte key) panicked with the accelerated path off=%v: %v", len(key), off, p)
				continue
			}
			if len(key) == 16 {
				if err != nil || c == nil {
					vt.Fail(t, rec, "C05:newcipher:error", "NewCipher(16 bytes) failed (asm off=%v): %v", off, err)
					continue
				}
				got, want := make([]byte, 16), make([]byte, 16)
				c.Encrypt(got, key)
				sm4ref.New(key).Encrypt(want, key)
				if !bytes.Equal(got, want) {
					vt.Fail(t, rec, "C05:dispatch:keysize-path", "wrong ciphertext on path asm-off=%v", off)
				}
				continue
			}
			if _, ok := err.(KeySizeError); !ok || c != nil {
				vt.Fail(t, rec, "C05:keysize:accepted", "NewCipher(%d-byte key) with the accelerated path off=%v returned (%v, %v), want (nil, KeySizeError)", len(key), off, c, err)
			}
		}
	}
	rec.Sample("keysize", map[string]interface{}{"lengths": "nil, 0..64", "paths": "default, candoAsm=false"})
}
