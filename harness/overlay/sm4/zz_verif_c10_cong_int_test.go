//go:build amd64

package sm4

// Two buffers whose addresses agree in their low 32 bits (exactly 2^32 apart) are different buffers. The assembly helpers that take
// two pointers — copyAsm (the copy of the dst prefix into a reallocated result), the block kernels (dst, src), sealAsm/openAsm (dst,
// text) — are called with such pairs, at equal and at slightly shifted offsets; results must be what they are for any other pair.
// (Through the public API the relation would have to hold between a caller buffer and an address the allocator picks inside the
// call; here the pointers are given.)

import (
	"bytes"
	"fmt"
	"testing"

	"pgregory.net/rapid"
	"verif.local/ref/gcmref"
	"verif.local/ref/gen"
	"verif.local/ref/guard"
	"verif.local/ref/sm4ref"
	"verif.local/ref/stats"
	"verif.local/ref/vt"
)

func TestVerif_C10_CongruentAddresses(t *testing.T) {
	rec := stats.Get("C10", "congruent-addresses")
	rec.Rule("rapid: two mappings exactly 2^32 apart; copyAsm(dst, src, n) for n in 0..300, the block kernels x1..x16 (dst, src) and sealAsm/openAsm (dst, text) are called with dst in one mapping and the source in the other, at the same offset or shifted by -16..16 bytes, both directions. Oracle: the copy equals the source, the blocks equal sm4ref, Seal/Open equal gcmref. Non-trivial: every case (the pointers agree in their low 32 bits up to the shift); distinct by (routine, n, offsets, direction).")
	t.Cleanup(stats.FlushAll)
	lo, hi := guard.Congruent4G()
	if lo == nil {
		rec.Skipped("no two mappings 2^32 apart on this machine")
		return
	}
	if !candoAsm {
		rec.Skipped("accelerated path not available")
		return
	}
	rapid.Check(t, func(t *rapid.T) {
		r := gen.Rand(t, "content")
		a, b := lo, hi
		if gen.Bool(t, "swap") {
			a, b = hi, lo
		}
		off := 64 * gen.Uniform(t, "off", 1, 100)
		shift := []int{0, 0, 0, 1, -1, 8, -8, 16, -16}[gen.Uniform(t, "shift", 0, 8)]
		routine := gen.Pick(t, "routine", "copy", "copy", "block", "seal", "open")
		key := gen.RandBytes(r, 16)
		ref := sm4ref.New(key)
		var enc, dec [32]uint32
		expandKeyAsm(&key[0], &enc[0], &dec[0])
		desc := fmt.Sprintf("%s dst at %p, source at %p (shift %d)", routine, &a[off], &b[off+shift], shift)
		rec.Case(stats.HashS(routine, fmt.Sprint(off, shift))^stats.Hash(key), true, "routine:"+routine, fmt.Sprintf("shift:%d", shift))
		switch routine {
		case "copy":
			n := gen.Uniform(t, "n", 0, 300)
			src := b[off+shift : off+shift+n+1]
			copy(src, gen.RandBytes(r, n+1))
			dst := a[off : off+n+1]
			for i := range dst {
				dst[i] = 0xEE
			}
			copyAsm(&dst[0], &src[0], n)
			if !bytes.Equal(dst[:n], src[:n]) || dst[n] != 0xEE {
				vt.Fail(t, rec, "C10:congruent:copy", "copyAsm of %d bytes between buffers 2^32 apart: destination does not equal the source\n%s", n, desc)
			}
		case "block":
			lanes := []int{1, 2, 4, 8, 16}[gen.Uniform(t, "lanes", 0, 4)]
			n := 16 * lanes
			src := b[off+shift : off+shift+n]
			copy(src, gen.RandBytes(r, n))
			dst := a[off : off+n]
			switch lanes {
			case 1:
				cryptoBlockAsm(&enc[0], &dst[0], &src[0])
			case 2:
				cryptoBlockAsmX2(&enc[0], &dst[0], &src[0])
			case 4:
				cryptoBlockAsmX4(&enc[0], &dst[0], &src[0])
			case 8:
				cryptoBlockAsmX8(&enc[0], &dst[0], &src[0])
			default:
				cryptoBlockAsmX16(&enc[0], &dst[0], &src[0])
			}
			want := make([]byte, n)
			for i := 0; i < n; i += 16 {
				ref.Encrypt(want[i:], src[i:])
			}
			if !bytes.Equal(dst, want) {
				vt.Fail(t, rec, "C10:congruent:block", "block kernel x%d between buffers 2^32 apart differs from the reference\n%s", lanes, desc)
			}
		default:
			pl := gen.Uniform(t, "pl", 0, 300)
			nonce, aad := gen.RandBytes(r, 12), gen.RandBytes(r, gen.Uniform(t, "al", 0, 20))
			pt := gen.RandBytes(r, pl)
			sealed := gcmref.Seal(ref, nonce, pt, aad, 16)
			var temp [32]byte
			if routine == "seal" {
				src := b[off+shift : off+shift+pl : off+shift+pl]
				copy(src, pt)
				dst := a[off : off+pl+16]
				sealAsm(&enc[0], 16, &dst[0], nonce, src, aad, &temp[0])
				if !bytes.Equal(dst, sealed) {
					vt.Fail(t, rec, "C10:congruent:seal", "sealAsm with output and plaintext 2^32 apart differs from the reference (%d bytes)\n%s", pl, desc)
				}
			} else {
				src := b[off+shift : off+shift+pl+16 : off+shift+pl+16]
				copy(src, sealed)
				dst := a[off : off+pl+1]
				ok := openAsm(&enc[0], 16, &dst[0], nonce, src, aad, &temp[0])
				if ok != 1 || !bytes.Equal(dst[:pl], pt) {
					vt.Fail(t, rec, "C10:congruent:open", "openAsm with output and ciphertext 2^32 apart: verdict %d, plaintext equal %v (%d bytes)\n%s", ok, bytes.Equal(dst[:pl], pt), pl, desc)
				}
			}
		}
	})
}
