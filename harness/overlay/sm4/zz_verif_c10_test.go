package sm4_test

// C10 — buffer contracts: dst is appended to, inputs are never modified.
// Oracle: result == dst_before || expected output (expected from gcmref), exact length, no panic;
// byte-for-byte snapshots of every input before/after; repeating a call gives the same answer.

import (
	"bytes"
	"crypto/cipher"
	"fmt"
	"testing"

	"github.com/bilibili/smgo/sm3"
	"github.com/bilibili/smgo/sm4"
	"pgregory.net/rapid"
	"verif.local/ref/gen"
	"verif.local/ref/sm3ref"
	"verif.local/ref/stats"
	"verif.local/ref/vt"
)

var c10DstClasses = []string{"nil", "empty", "full", "room", "exact", "one-short", "inplace", "inplace-room"}

// c10Dst builds the destination slice for an operation appending `need` bytes whose input is `in`
// (for the in-place classes the returned slice aliases a copy of in, which is returned as the input to use).
func c10Dst(t *rapid.T, label string, cls string, need int, in []byte) (dst, input []byte, prefix []byte) {
	r := gen.Rand(t, label+".pfx")
	l := gen.Int(t, label+".l", 1, 40)
	if gen.Int(t, label+".long", 0, 5) == 0 {
		l = gen.Uniform(t, label+".ll", 41, 300)
	}
	input = in
	switch cls {
	case "nil":
		return nil, in, nil
	case "empty":
		return []byte{}, in, nil
	case "full":
		p := gen.RandBytes(r, l)
		return p[:l:l], in, append([]byte(nil), p...)
	case "room":
		p := make([]byte, l, l+need+gen.Int(t, label+".extra", 1, 64))
		copy(p, gen.RandBytes(r, l))
		return p, in, append([]byte(nil), p...)
	case "exact":
		if gen.Bool(t, label+".zeroLen") {
			l = 0
		}
		p := make([]byte, l, l+need)
		copy(p, gen.RandBytes(r, l))
		return p, in, append([]byte(nil), p...)
	case "one-short":
		c := l + need - 1
		if c < l {
			c = l
		}
		p := make([]byte, l, c)
		copy(p, gen.RandBytes(r, l))
		return p, in, append([]byte(nil), p...)
	case "inplace":
		buf := append([]byte(nil), in...)
		buf = buf[:len(buf):len(buf)]
		return buf[:0], buf, nil
	case "inplace-room":
		buf := make([]byte, len(in), len(in)+need+16)
		copy(buf, in)
		return buf[:0], buf, nil
	}
	panic(cls)
}

func TestVerif_C10_AEAD(t *testing.T) {
	rec := stats.Get("C10", "aead")
	rec.Rule("rapid history per message (C06 generator: all length classes, nonce lengths, tag sizes): Seal with dst from {nil, empty non-nil, len=cap, spare room (more than needed), exactly enough, one byte short, in-place pt[:0] without room, in-place with room for the tag}; Seal again on the same buffers; Open with dst from the same classes (in-place = ct[:0]); Open again on the SAME ciphertext buffer; a forged Open in between. Oracle after each step: no panic; result = dst_before || gcmref output with exact length; key, nonce, aad, plaintext and ciphertext INCLUDING ITS TAG byte-identical before/after (the exactly overlapping destination excepted); repeated call gives the same answer. Non-trivial: cap(dst) > len(dst), or aliasing, or a repeated call (i.e. every history); distinct by (message, dst classes).")
	t.Cleanup(stats.FlushAll)
	rapid.Check(t, func(t *rapid.T) {
		c := drawGCMCase(t)
		a, err := c.aead()
		if err == errNoGcmAble {
			rec.Skipped("Block.NewGCM not available")
			return
		}
		if err != nil {
			vt.Fail(t, rec, "C10:construct", "construct: %v", err)
			return
		}
		want := c.want()
		sealCls := gen.Pick(t, "sealDst", c10DstClasses...)
		openCls := gen.Pick(t, "openDst", c10DstClasses...)
		rec.Case(stats.Hash(c.Key, c.Nonce, c.AAD, c.PT, []byte{byte(c.TagSize)}, []byte(sealCls+"/"+openCls)), true,
			"seal-dst:"+sealCls, "open-dst:"+openCls, fmt.Sprintf("tag:%d", c.TagSize), nonceClass(len(c.Nonce)))
		if rec.WantSample(sealCls + "/" + openCls) {
			s := c.sample()
			s["seal_dst"], s["open_dst"] = sealCls, openCls
			rec.Sample(sealCls+"/"+openCls, s)
		}
		nonce, aad := append([]byte(nil), c.Nonce...), append([]byte(nil), c.AAD...)
		desc := func() string { return fmt.Sprintf("%v seal-dst=%s open-dst=%s", c.sample(), sealCls, openCls) }

		// ---- Seal
		dst, pt, prefix := c10Dst(t, "seal", sealCls, len(c.PT)+c.TagSize, c.PT)
		inplace := sealCls == "inplace" || sealCls == "inplace-room"
		var out []byte
		if p := vt.Catch(func() { c.dirty(); out = a.Seal(dst, nonce, pt, aad) }); p != nil {
			vt.Fail(t, rec, "C10:seal:panic:"+sealCls, "Seal panicked with dst class %s (len %d cap %d): %v\n%s", sealCls, len(dst), cap(dst), p, desc())
			return
		}
		if !bytes.Equal(out, append(append([]byte(nil), prefix...), want...)) {
			vt.Fail(t, rec, "C10:seal:append:"+sealCls, "Seal(dst) != dst || output for dst class %s (len(dst)=%d, len(result)=%d, want %d)\n%s", sealCls, len(prefix), len(out), len(prefix)+len(want), desc())
			return
		}
		if !bytes.Equal(nonce, c.Nonce) || !bytes.Equal(aad, c.AAD) || (!inplace && !bytes.Equal(pt, c.PT)) {
			vt.Fail(t, rec, "C10:seal:modifies-input", "Seal modified nonce, aad or plaintext\n%s", desc())
			return
		}
		if !inplace {
			var out2 []byte
			if p := vt.Catch(func() { out2 = a.Seal(nil, nonce, pt, aad) }); p != nil || !bytes.Equal(out2, want) {
				vt.Fail(t, rec, "C10:seal:repeat", "second Seal on the same buffers differs (panic=%v)\n%s", p, desc())
				return
			}
		}

		// ---- a forged Open first (must not disturb anything), then Open, then Open again on the same buffer
		ctBuf := append([]byte(nil), want...)
		if len(ctBuf) > 0 {
			forged := append([]byte(nil), ctBuf...)
			forged[gen.Uniform(t, "forgepos", 0, len(forged)-1)] ^= 0x20
			fsnap := append([]byte(nil), forged...)
			var fo []byte
			var ferr error
			if p := vt.Catch(func() { fo, ferr = a.Open(nil, nonce, forged, aad) }); p != nil {
				vt.Fail(t, rec, "C10:open:panic:forged", "Open of a forged message panicked: %v\n%s", p, desc())
				return
			}
			if ferr == nil || fo != nil {
				vt.Fail(t, rec, "C10:open:forged-accepted", "forged message accepted\n%s", desc())
				return
			}
			if !bytes.Equal(forged, fsnap) {
				vt.Fail(t, rec, "C10:open:modifies-ciphertext", "a failed Open modified the caller's ciphertext buffer\n%s\nbefore %x\nafter  %x", desc(), fsnap, forged)
				return
			}
		}
		// ---- a forged Open INTO a caller's buffer: whatever the library does with the room behind len(dst), the bytes the caller
		// already has in dst (the record header, earlier fields) are his; only an in-place destination may be consumed
		if len(ctBuf) > 0 {
			fcls := gen.Pick(t, "forgedDst", "full", "room", "room", "exact", "one-short")
			forged := append([]byte(nil), ctBuf...)
			forged[gen.Uniform(t, "forgepos2", 0, len(forged)-1)] ^= 0x04
			fdst, fct, fprefix := c10Dst(t, "forged", fcls, len(c.PT), forged)
			var ferr error
			if p := vt.Catch(func() { _, ferr = a.Open(fdst, nonce, fct, aad) }); p != nil {
				vt.Fail(t, rec, "C10:open:panic:forged", "Open of a forged message into dst class %s panicked: %v\n%s", fcls, p, desc())
				return
			}
			if ferr == nil {
				vt.Fail(t, rec, "C10:open:forged-accepted", "forged message accepted\n%s", desc())
				return
			}
			if !bytes.Equal(fdst[:len(fprefix)], fprefix) {
				vt.Fail(t, rec, "C10:open:forged-clobbers-dst", "a rejected Open changed the bytes the caller already had in dst (class %s, len %d cap %d)\nbefore %x\nafter  %x\n%s", fcls, len(fdst), cap(fdst), fprefix, fdst[:len(fprefix)], desc())
				return
			}
			rec.Tally("forged-open-dst:" + fcls)
		}
		odst, ct, oprefix := c10Dst(t, "open", openCls, len(c.PT), ctBuf)
		oinplace := openCls == "inplace" || openCls == "inplace-room"
		var po []byte
		var oerr error
		if p := vt.Catch(func() { c.dirty(); po, oerr = a.Open(odst, nonce, ct, aad) }); p != nil {
			vt.Fail(t, rec, "C10:open:panic:"+openCls, "Open panicked with dst class %s (len %d cap %d): %v\n%s", openCls, len(odst), cap(odst), p, desc())
			return
		}
		if oerr != nil {
			vt.Fail(t, rec, "C10:open:rejects:"+openCls, "Open rejected an authentic message with dst class %s: %v\n%s", openCls, oerr, desc())
			return
		}
		if !bytes.Equal(po, append(append([]byte(nil), oprefix...), c.PT...)) {
			vt.Fail(t, rec, "C10:open:append:"+openCls, "Open(dst) != dst || plaintext for dst class %s (len(dst)=%d, len(result)=%d, want %d)\n%s", openCls, len(oprefix), len(po), len(oprefix)+len(c.PT), desc())
			return
		}
		body := len(want) - c.TagSize
		if !bytes.Equal(ct[body:], want[body:]) {
			vt.Fail(t, rec, "C10:open:modifies-tag", "Open modified the tag bytes of the caller's ciphertext\n%s\nbefore %x\nafter  %x", desc(), want[body:], ct[body:])
			return
		}
		if !oinplace && !bytes.Equal(ct, want) {
			vt.Fail(t, rec, "C10:open:modifies-ciphertext", "Open modified the caller's ciphertext\n%s", desc())
			return
		}
		if !bytes.Equal(nonce, c.Nonce) || !bytes.Equal(aad, c.AAD) {
			vt.Fail(t, rec, "C10:open:modifies-input", "Open modified nonce or aad\n%s", desc())
			return
		}
		if !oinplace {
			var po2 []byte
			var oerr2 error
			if p := vt.Catch(func() { po2, oerr2 = a.Open(nil, nonce, ct, aad) }); p != nil || oerr2 != nil || !bytes.Equal(po2, c.PT) {
				vt.Fail(t, rec, "C10:open:repeat", "second Open of the same ciphertext buffer: panic=%v err=%v equal=%v\n%s", p, oerr2, bytes.Equal(po2, c.PT), desc())
			}
		}
	})
}

func TestVerif_C10_SumAndBlock(t *testing.T) {
	rec := stats.Get("C10", "sum-block")
	rec.Rule("rapid: sm3 Sum(dst) with dst from {nil, empty, len=cap, spare room, exact room} after a message of 0..200 bytes: result = dst || sm3ref digest, message buffer unchanged, second Sum equal, results stay intact when the caller scribbles on them and uses the hasher further (no memory shared with the hasher); sm4 Block Encrypt/Decrypt: key and src unchanged, repeated call equal, BlockMode-style chained use on one buffer. Non-trivial: dst with spare capacity or a repeated call; distinct by (message, dst class).")
	t.Cleanup(stats.FlushAll)
	rapid.Check(t, func(t *rapid.T) {
		r := gen.Rand(t, "seed")
		msg := gen.RandBytes(r, gen.Uniform(t, "mlen", 0, 200))
		msnap := append([]byte(nil), msg...)
		cls := gen.Pick(t, "dst", "nil", "empty", "full", "room", "exact")
		dst, _, prefix := c10Dst(t, "sum", cls, 32, nil)
		h := sm3.New()
		h.Write(msg)
		want := sm3ref.Sum(msg)
		var out []byte
		if p := vt.Catch(func() { out = h.Sum(dst) }); p != nil {
			vt.Fail(t, rec, "C10:sum:panic", "Sum panicked with dst class %s: %v", cls, p)
			return
		}
		rec.Case(stats.Hash(msg, []byte(cls)), cls != "nil", "sum-dst:"+cls)
		if !bytes.Equal(out, append(append([]byte(nil), prefix...), want[:]...)) {
			vt.Fail(t, rec, "C10:sum:append:"+cls, "Sum(dst) != dst || digest for dst class %s", cls)
			return
		}
		if !bytes.Equal(msg, msnap) {
			vt.Fail(t, rec, "C10:sum:modifies-input", "Write/Sum modified the message buffer")
		}
		out2 := h.Sum(nil)
		if !bytes.Equal(out2, want[:]) {
			vt.Fail(t, rec, "C10:sum:repeat", "second Sum differs")
		}
		// the appended result belongs to the caller: it is scribbled on, the hasher is used further, and neither may notice
		// (an earlier result must stay what it was, a later Sum must not see the scribbling)
		for i := range out2 {
			out2[i] ^= 0xa5
		}
		keep := h.Sum(nil)
		if !bytes.Equal(keep, want[:]) {
			vt.Fail(t, rec, "C10:sum:result-aliases-state", "a Sum after the caller modified the previous result differs: the returned slice shares memory with the hasher")
			return
		}
		more := gen.RandBytes(r, gen.Uniform(t, "more", 1, 80))
		h.Write(more)
		want2 := sm3ref.Sum(append(append([]byte(nil), msg...), more...))
		if later := h.Sum(nil); !bytes.Equal(later, want2[:]) {
			vt.Fail(t, rec, "C10:sum:repeat", "Sum after a further Write differs from the reference")
			return
		}
		if !bytes.Equal(keep, want[:]) || !bytes.Equal(out, append(append([]byte(nil), prefix...), want[:]...)) {
			vt.Fail(t, rec, "C10:sum:result-overwritten", "a digest returned earlier changed when the hasher was used again: the result shares memory with the hasher")
			return
		}
		// block cipher: inputs untouched
		key := gen.RandBytes(r, 16)
		ksnap := append([]byte(nil), key...)
		var b cipher.Block
		b, _ = sm4.NewCipher(key)
		src := gen.RandBytes(r, 16)
		ssnap := append([]byte(nil), src...)
		d1, d2 := make([]byte, 16), make([]byte, 16)
		b.Encrypt(d1, src)
		b.Encrypt(d2, src)
		if !bytes.Equal(d1, d2) || !bytes.Equal(src, ssnap) || !bytes.Equal(key, ksnap) {
			vt.Fail(t, rec, "C10:block:modifies-input", "Encrypt modified key/src or is not repeatable")
		}
		b.Decrypt(d2, d1)
		if !bytes.Equal(d2, src) {
			vt.Fail(t, rec, "C10:block:roundtrip", "Decrypt(Encrypt(x)) != x")
		}
	})
}
