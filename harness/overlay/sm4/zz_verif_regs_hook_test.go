//go:build amd64

package sm4_test

import "github.com/bilibili/smgo/sm4"

// The driver generated sm4.VerifDirtyRegs in this scratch copy (prep_sm4_regstate).
func init() { verifDirty = sm4.VerifDirtyRegs }
