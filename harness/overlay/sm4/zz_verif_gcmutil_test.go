package sm4_test

// Generators shared by the SM4-GCM property files (public API only).

import (
	"bytes"
	"crypto/cipher"
	"encoding/binary"
	"fmt"

	"github.com/bilibili/smgo/sm4"
	"pgregory.net/rapid"
	"verif.local/ref/gcmref"
	"verif.local/ref/gen"
	"verif.local/ref/sm4ref"
)

type gcmAbler interface {
	NewGCM(nonceSize, tagSize int) (cipher.AEAD, error)
}

// plainBlock hides every method but cipher.Block's, so that crypto/cipher falls
// back to its generic GCM implementation over the block's Encrypt.
type plainBlock struct{ b cipher.Block }

func (p plainBlock) BlockSize() int          { return p.b.BlockSize() }
func (p plainBlock) Encrypt(dst, src []byte) { p.b.Encrypt(dst, src) }
func (p plainBlock) Decrypt(dst, src []byte) { p.b.Decrypt(dst, src) }

// gcmLen draws a length that combines the 256/128/64/32/16-byte kernels and a 0..15-byte tail, or uniform 0..1100.
func gcmLen(t *rapid.T, label string) (int, string) {
	switch gen.Pick(t, label+".lclass", "kernels", "kernels", "kernels", "kernels", "uniform", "uniform", "small", "small", "zero", "zero", "threshold") {
	case "threshold":
		// sizes at which bulk loops change shape (page, 256 blocks, 64 KiB) and just around them
		base := []int{4096, 4096, 8192, 16384, 65536}[gen.Uniform(t, label+".thr", 0, 4)]
		return base + gen.Uniform(t, label+".thrd", 0, 120) - 40, "threshold"
	case "kernels":
		n := 256*gen.Int(t, label+".a", 0, 3) + 128*gen.Int(t, label+".b", 0, 1) + 64*gen.Int(t, label+".c", 0, 1) +
			32*gen.Int(t, label+".d", 0, 1) + 16*gen.Int(t, label+".e", 0, 1) + gen.Uniform(t, label+".f", 0, 15)
		return n, "kernels"
	case "uniform":
		return gen.Uniform(t, label+".n", 0, 1100), "uniform"
	case "small":
		return gen.Uniform(t, label+".n", 0, 40), "small"
	}
	return 0, "zero"
}

type gcmCase struct {
	Key, Nonce, AAD, PT []byte
	TagSize             int
	How                 string // how the AEAD is constructed
	Classes             []string
	Wraps               bool // the 32-bit counter wraps within the message
	Ref                 *sm4ref.Cipher
	Regs                []byte // register pattern to plant right before the library call (nil: leave the registers as they are)
}

// verifDirty plants a pattern in the vector and mask registers (set by zz_verif_regs_hook_test.go when the driver generated the
// helper: amd64 scratch copies only; nil elsewhere).
var verifDirty func(pat []byte)

// dirty emulates the register state of a thread that never ran the kernels (zero pattern) or that holds unrelated data: a kernel that
// relies on a register it did not load itself gives a wrong result deterministically, not only on the first call of a thread.
func (c *gcmCase) dirty() {
	if verifDirty != nil && c.Regs != nil {
		verifDirty(c.Regs)
	}
}

func (c *gcmCase) nontrivial() bool {
	wide := len(c.PT) >= 32 && len(c.PT)%16 != 0
	return wide || len(c.AAD) >= 128 || len(c.Nonce) >= 128 || c.TagSize != 16 || len(c.Nonce) != 12 || c.Wraps
}

// drawGCMCase draws key, nonce, aad, plaintext, tag size and construction route.
func drawGCMCase(t *rapid.T) *gcmCase {
	c := &gcmCase{}
	r := gen.Rand(t, "content")
	c.Key = gen.RandBytes(r, 16)
	if gen.Int(t, "keyext", 0, 7) == 0 {
		c.Key, _ = c05Key(t, "key")
	}
	c.Ref = sm4ref.New(c.Key)
	pl, pcls := gcmLen(t, "pt")
	al, acls := gcmLen(t, "aad")
	if gen.Int(t, "aadsmall", 0, 2) == 0 {
		al, acls = gen.Uniform(t, "aadn", 0, 20), "small"
	}
	c.PT, c.AAD = gen.RandBytes(r, pl), gen.RandBytes(r, al)
	// an absent field in both of its Go shapes: nil and empty non-nil
	if pl == 0 && gen.Bool(t, "ptnil") {
		c.PT = nil
	}
	if al == 0 && gen.Bool(t, "aadnil") {
		c.AAD = nil
	}
	if gen.Int(t, "extcontent", 0, 5) == 0 {
		fill := byte(gen.Uniform(t, "fill", 0, 1) * 255)
		for i := range c.PT {
			c.PT[i] = fill
		}
	}
	c.Classes = append(c.Classes, "pt:"+pcls, "aad:"+acls)
	c.How = gen.Pick(t, "how", "NewGCM", "WithTagSize", "WithNonceSize", "WithNonceSize", "Block.NewGCM", "Block.NewGCM", "Block.NewGCM")
	c.TagSize = 16
	nl := 12
	switch c.How {
	case "WithTagSize":
		c.TagSize = gen.Uniform(t, "tag", 12, 16)
	case "WithNonceSize", "Block.NewGCM":
		switch gen.Pick(t, "nclass", "list", "list", "uniform", "wrap", "wrap") {
		case "list":
			nl = rapid.SampledFrom([]int{1, 2, 8, 11, 12, 13, 15, 16, 17, 31, 32, 33, 64, 127, 128, 129, 144, 255, 256, 300}).Draw(t, "nlen")
			if gen.Uniform(t, "nalias", 0, 11) == 0 {
				// nonce sizes that ALIAS 12 (the fast path) or 16 when the length is narrowed to 8 or 16 bits
				nl = []int{256 + 12, 65536 + 12, 65536 + 12, 65536, 65536 + 16, 512 + 12}[gen.Uniform(t, "naliasv", 0, 5)]
			}
		case "uniform":
			nl = gen.Uniform(t, "nlenU", 1, 300)
		case "wrap":
			nl = 16 * gen.Uniform(t, "nblocks", 1, 10)
			c.Wraps = true // decided below once the counter is known
		}
		if c.How == "Block.NewGCM" {
			c.TagSize = gen.Uniform(t, "tag", 12, 16)
		}
	}
	c.Nonce = gen.RandBytes(r, nl)
	if c.Wraps {
		// choose J0 with a counter within 80 of 2^32 and solve the (last block of the) nonce for it
		j := gen.Uniform(t, "wrapdist", 0, 80)
		j0 := gen.RandBytes(r, 16)
		binary.BigEndian.PutUint32(j0[12:], uint32(0xffffffff-uint32(j)))
		if nl == 16 {
			c.Nonce = gcmref.SolveNonce16(c.Ref, j0)
		} else {
			c.Nonce = gcmref.SolveNonceLast(c.Ref, c.Nonce[:nl-16], j0)
		}
		blocks := (len(c.PT) + 15) / 16
		c.Wraps = blocks > j // counter J0+1.. reaches 0 inside the message
		c.Classes = append(c.Classes, fmt.Sprintf("counter-near-2^32(wraps:%v)", c.Wraps))
	}
	c.Classes = append(c.Classes, "how:"+c.How, fmt.Sprintf("tag:%d", c.TagSize), nonceClass(len(c.Nonce)))
	switch rs := gen.Pick(t, "regs", "as-is", "as-is", "zero", "ones", "random"); rs {
	case "zero":
		c.Regs = make([]byte, 128)
	case "ones":
		c.Regs = bytes.Repeat([]byte{0xff}, 128)
	case "random":
		c.Regs = gen.RandBytes(r, 128)
	}
	if verifDirty != nil {
		c.Classes = append(c.Classes, "registers-before-call:"+map[bool]string{true: "as-is", false: "planted"}[c.Regs == nil])
	}
	return c
}

func nonceClass(n int) string {
	switch {
	case n == 12:
		return "nonce:12"
	case n < 16:
		return "nonce:<16"
	case n < 128:
		return "nonce:16..127"
	default:
		return "nonce:>=128"
	}
}

// aead constructs the AEAD under test the way the case says. ok=false if the construction route refuses the parameters.
func (c *gcmCase) aead() (cipher.AEAD, error) {
	b, err := sm4.NewCipher(c.Key)
	if err != nil {
		return nil, err
	}
	switch c.How {
	case "NewGCM":
		return cipher.NewGCM(b)
	case "WithTagSize":
		return cipher.NewGCMWithTagSize(b, c.TagSize)
	case "WithNonceSize":
		return cipher.NewGCMWithNonceSize(b, len(c.Nonce))
	}
	if g, ok := b.(gcmAbler); ok {
		return g.NewGCM(len(c.Nonce), c.TagSize)
	}
	// the Block does not offer its own GCM on this platform: the joint (nonce,tag) space is not constructible
	return nil, errNoGcmAble
}

var errNoGcmAble = fmt.Errorf("sm4 Block has no NewGCM(nonceSize, tagSize) method")

func (c *gcmCase) want() []byte { return gcmref.Seal(c.Ref, c.Nonce, c.PT, c.AAD, c.TagSize) }

func (c *gcmCase) sample() map[string]interface{} {
	return map[string]interface{}{"key": fmt.Sprintf("%x", c.Key), "nonce_len": len(c.Nonce), "nonce": hexShort(c.Nonce), "aad_len": len(c.AAD),
		"pt_len": len(c.PT), "tag": c.TagSize, "how": c.How, "counter_wraps": c.Wraps}
}

func hexShort(b []byte) string {
	if len(b) > 48 {
		return fmt.Sprintf("%x…(%d bytes)", b[:32], len(b))
	}
	return fmt.Sprintf("%x", b)
}
