//go:build amd64 || arm64

package sm4_test

// The length limits of GCM (SP 800-38D 5.2.1.1: a plaintext has at most 2^39-256 bits = (2^32-2)*16 bytes). Whether a call of that
// size is ACCEPTED can be decided without 64 GiB of memory: the message is a slice over an inaccessible (PROT_NONE) reservation of
// address space, processed in place. A call that accepts the length goes on to touch the message and faults on its first byte
// (a recoverable runtime error under SetPanicOnFault); a call that refuses it returns an error or panics with its own message
// before touching anything. Nothing is committed.

import (
	"bytes"
	"fmt"
	"os"
	"sync"
	"sync/atomic"
	"os/exec"
	"strings"
	"syscall"
	"testing"
	"unsafe"

	"verif.local/ref/gcmref"
	"verif.local/ref/guard"
	"verif.local/ref/stats"
	"verif.local/ref/vt"
)

func TestVerif_C06_LengthLimit(t *testing.T) {
	rec := stats.Get("C06", "length-limit")
	rec.Rule("enumeration: plaintext lengths (2^32-2)*16 + {-4097, -33, -17, -16, -15, -1, 0} (allowed by SP 800-38D: must be ACCEPTED by Seal, and by Open with the tag added) and + {1, 15, 16, 17, 31, 32, 33, 4096} (not allowed: must be REFUSED without touching the message), tag sizes 16 and 12, message = in-place slice over a PROT_NONE reservation. Accepted means: the call faults on the message (it went on to process it); refused: error / panic that is not a memory fault, nothing touched. Non-trivial: every case.")
	t.Cleanup(stats.FlushAll)
	const limit = (1<<32 - 2) * 16
	const span = limit + 1<<20
	addr, _, errno := syscall.Syscall6(syscall.SYS_MMAP, 0, span, syscall.PROT_NONE, syscall.MAP_ANON|syscall.MAP_PRIVATE|syscall.MAP_NORESERVE, ^uintptr(0), 0)
	if errno != 0 {
		rec.Skipped("cannot reserve 64 GiB of address space: " + errno.Error())
		return
	}
	defer syscall.Syscall(syscall.SYS_MUNMAP, addr, span, 0)
	mem := unsafe.Slice((*byte)(unsafe.Pointer(addr)), span)
	a, _ := hugeAEAD(t)
	nonce := make([]byte, 12)
	for _, d := range []int{-4097, -33, -17, -16, -15, -1, 0, 1, 15, 16, 17, 31, 32, 33, 4096} {
		for _, op := range []string{"seal", "open"} {
			n := limit + d
			wantAccept := d <= 0
			in := mem[:n]
			if op == "open" {
				in = mem[:n+16]
			}
			var err error
			flt, other := guard.Run(func() {
				if op == "seal" {
					a.Seal(in[:0], nonce, in, nil)
				} else {
					_, err = a.Open(in[:0], nonce, in, nil)
				}
			})
			accepted := flt != nil
			rec.Case(uint64(n)*2+uint64(len(op)), true, "op:"+op, fmt.Sprintf("allowed:%v", wantAccept))
			rec.Enumerated(1, op)
			switch {
			case wantAccept && !accepted:
				vt.Fail(t, rec, "C06:limit:"+op+":refuses-allowed-length", "%s refuses a message of (2^32-2)*16%+d bytes, which SP 800-38D allows (error %v, panic %v)", op, d, err, other)
			case !wantAccept && accepted:
				vt.Fail(t, rec, "C06:limit:"+op+":accepts-forbidden-length", "%s starts processing a message of (2^32-2)*16%+d bytes (fault at %#x), longer than SP 800-38D allows", op, d, flt.Addr)
			case !wantAccept && op == "open" && err == nil && other == nil:
				vt.Fail(t, rec, "C06:limit:open:accepts-forbidden-length", "Open returned no error for a ciphertext of (2^32-2)*16%+d+16 bytes", d)
			}
		}
	}
	rec.Sample("limit", map[string]interface{}{"limit_bytes": limit, "offsets": "-4097..4096", "ops": "seal, open"})
}

// The same device decides what happens when the RESULT does not fit the destination and its size leaves 32 bits: messages of
// 2^32-17 .. 2^33-16 bytes (result sizes around 2^32 and 2^33) with a destination that has a LITTLE spare capacity (64 bytes:
// whether "64 >= needed" holds is decided correctly only in 64 bits), a 3-byte prefix, or none. The library must allocate the
// result and go on to the message, where it faults (inaccessible reservation). Each case runs in a child process: a wrong
// decision ends in a slice-bounds panic or in memory corruption that kills the process. Thorough tier (the fresh 4..8 GiB result
// may have to be zeroed by the allocator).
func TestVerif_C06_ResultAround4G(t *testing.T) {
	rec := stats.Get("C06", "result-around-4g")
	rec.Rule("thorough only, enumeration: Seal of 2^32-17, 2^32-16, 2^32-15, 2^32, 2^32+5 and 2^33-16 bytes (an inaccessible reservation) into dst = nil / empty with 64 bytes of capacity / 3 bytes with 70 bytes of capacity, one child process per case. Oracle: the call goes on to process the message (it faults on its first byte); a panic of its own or a crash of the child is a violation. Non-trivial: every case.")
	t.Cleanup(stats.FlushAll)
	if spec := os.Getenv("VERIF_C06_R4G"); spec != "" {
		var n int
		var shape string
		fmt.Sscanf(spec, "%d %s", &n, &shape)
		addr, _, errno := syscall.Syscall6(syscall.SYS_MMAP, 0, uintptr(n+4096), syscall.PROT_NONE, syscall.MAP_ANON|syscall.MAP_PRIVATE|syscall.MAP_NORESERVE, ^uintptr(0), 0)
		if errno != 0 {
			fmt.Println("VERIF-R4G-SKIP: cannot reserve address space:", errno)
			return
		}
		mem := unsafe.Slice((*byte)(unsafe.Pointer(addr)), n)
		a, _ := hugeAEAD(t)
		var dst []byte
		switch shape {
		case "cap64":
			dst = make([]byte, 0, 64)
		case "prefix3-cap70":
			dst = make([]byte, 3, 70)
		}
		flt, other := guard.Run(func() { a.Seal(dst, make([]byte, 12), mem, nil) })
		if flt != nil {
			fmt.Println("VERIF-R4G-ACCEPTED")
		} else {
			fmt.Printf("VERIF-R4G-REFUSED: %v\n", other)
		}
		return
	}
	if !vt.Thorough() {
		rec.Skipped("thorough tier only")
		return
	}
	if !hugeGate(t, rec, 12) {
		return
	}
	exe, err := os.Executable()
	if err != nil {
		rec.Skipped("cannot locate the test binary")
		return
	}
	for _, n := range []int{1<<32 - 17, 1<<32 - 16, 1<<32 - 15, 1 << 32, 1<<32 + 5, 1<<33 - 16} {
		for _, shape := range []string{"nil", "cap64", "prefix3-cap70"} {
			cmd := exec.Command(exe, "-test.run", "^TestVerif_C06_ResultAround4G$", "-test.count=1", "-test.timeout=600s")
			cmd.Env = append(os.Environ(), fmt.Sprintf("VERIF_C06_R4G=%d %s", n, shape), "VERIF_STATS_DIR=")
			out, runErr := cmd.CombinedOutput()
			so := string(out)
			rec.Case(uint64(n)*8+uint64(len(shape)), true, "dst:"+shape)
			rec.Enumerated(1, "seal-small-dst")
			tail := so
			if len(tail) > 600 {
				tail = tail[:600]
			}
			switch {
			case strings.Contains(so, "VERIF-R4G-ACCEPTED"):
			case strings.Contains(so, "VERIF-R4G-REFUSED"):
				i := strings.Index(so, "VERIF-R4G-REFUSED")
				vt.Fail(t, rec, "C06:result-4g:refused", "Seal of %d bytes into dst (%s) did not go on to process the message: %s", n, shape, strings.SplitN(so[i:], "\n", 2)[0])
			case strings.Contains(so, "VERIF-R4G-SKIP") || strings.Contains(so, "out of memory") || strings.Contains(so, "cannot allocate") || strings.Contains(so, "test timed out"):
				rec.Skipped(fmt.Sprintf("%d bytes, dst %s: not enough memory or time", n, shape))
			case runErr != nil && (strings.Contains(so, "fatal error") || strings.Contains(so, "panic:") || strings.Contains(so, "unexpected signal") || strings.Contains(so, "SIGSEGV")):
				vt.Fail(t, rec, "C06:result-4g:crash", "Seal of %d bytes into dst (%s) crashed the process: %v\n%s", n, shape, runErr, tail)
			default:
				rec.Skipped(fmt.Sprintf("%d bytes, dst %s: child gave no verdict (%v)", n, shape, runErr))
			}
		}
	}
}

// One AEAD object used for a LONG time: more than 2^32 blocks (64 GiB) of plaintext pass through it in 64 MiB messages (eight
// goroutines, each sealing its own buffer in place), with a short message sealed and compared with the reference every 64 calls
// and at the end. GCM limits the number of invocations per key (2^32) and the length of ONE message, not the total volume; an
// object that keeps count of something must count the right thing. Thorough tier (about a minute).
func TestVerif_C06_LongLivedAEAD(t *testing.T) {
	rec := stats.Get("C06", "long-lived-aead")
	rec.Rule("thorough only: 1040 Seal calls of 64 MiB each (65 GiB, 2^32 + 2^26 blocks) through ONE AEAD from 8 goroutines, in place; after every 64th call and at the end a 45-byte message is sealed on the same object and compared with the reference, and opened again. Oracle: no panic, reference result. One history; non-trivial.")
	t.Cleanup(stats.FlushAll)
	if !hugeGate(t, rec, 2) {
		return
	}
	a, ref := hugeAEAD(t)
	short := []byte("the forty-five byte message sealed in between")
	aad := []byte("hdr")
	check := func(when string) bool {
		nonce := make([]byte, 12)
		copy(nonce, when)
		var got []byte
		if p := vt.Catch(func() { got = a.Seal(nil, nonce, short, aad) }); p != nil {
			vt.Fail(t, rec, "C06:long-lived:panic", "Seal of a short message on an AEAD that has sealed %s panicked: %v", when, p)
			return false
		}
		if want := gcmref.Seal(ref, nonce, short, aad, 16); !bytes.Equal(got, want) {
			vt.Fail(t, rec, "C06:long-lived:wrong", "Seal of a short message on an AEAD that has sealed %s differs from the reference", when)
			return false
		}
		if pt, err := a.Open(nil, nonce, got, aad); err != nil || !bytes.Equal(pt, short) {
			vt.Fail(t, rec, "C06:long-lived:open", "Open on an AEAD that has sealed %s fails: %v", when, err)
			return false
		}
		return true
	}
	const msg = 64 << 20
	const calls = 1040
	const workers = 8
	var bad atomic.Value
	var wg sync.WaitGroup
	var next atomic.Int64
	for w := 0; w < workers; w++ {
		wg.Add(1)
		go func(w int) {
			defer wg.Done()
			buf := make([]byte, msg, msg+16)
			nonce := make([]byte, 12)
			for {
				i := next.Add(1)
				if i > calls || bad.Load() != nil {
					return
				}
				nonce[0], nonce[1], nonce[2] = byte(i), byte(i>>8), byte(w)
				if p := vt.Catch(func() { a.Seal(buf[:0], nonce, buf, nil) }); p != nil {
					bad.CompareAndSwap(nil, fmt.Sprintf("call %d (64 MiB, about %d GiB sealed so far) panicked: %v", i, i/16, p))
					return
				}
				if i%64 == 0 && !check(fmt.Sprintf("%d GiB", i/16)) {
					bad.CompareAndSwap(nil, "short message check failed")
					return
				}
			}
		}(w)
	}
	wg.Wait()
	rec.Case(1, true, "long-lived")
	rec.Sample("history", map[string]interface{}{"calls": calls, "bytes_per_call": msg, "workers": workers})
	if m := bad.Load(); m != nil && m != "short message check failed" {
		vt.Fail(t, rec, "C06:long-lived:panic", "%s", m)
		return
	}
	check("65 GiB")
}
