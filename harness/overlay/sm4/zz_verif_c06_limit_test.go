//go:build amd64 || arm64

package sm4_test

// The length limits of GCM (SP 800-38D 5.2.1.1: a plaintext has at most 2^39-256 bits = (2^32-2)*16 bytes). Whether a call of that
// size is ACCEPTED can be decided without 64 GiB of memory: the message is a slice over an inaccessible (PROT_NONE) reservation of
// address space, processed in place. A call that accepts the length goes on to touch the message and faults on its first byte
// (a recoverable runtime error under SetPanicOnFault); a call that refuses it returns an error or panics with its own message
// before touching anything. Nothing is committed.

import (
	"fmt"
	"syscall"
	"testing"
	"unsafe"

	"verif.local/ref/guard"
	"verif.local/ref/stats"
	"verif.local/ref/vt"
)

func TestVerif_C06_LengthLimit(t *testing.T) {
	rec := stats.Get("C06", "length-limit")
	rec.Rule("enumeration: plaintext lengths (2^32-2)*16 + {-4097, -33, -17, -16, -15, -1, 0} (allowed by SP 800-38D: must be ACCEPTED by Seal, and by Open with the tag added) and + {1, 15, 16, 17, 31, 32, 33, 4096} (not allowed: must be REFUSED without touching the message), tag sizes 16 and 12, message = in-place slice over a PROT_NONE reservation. Accepted means: the call faults on the message (it went on to process it); refused: error / panic that is not a memory fault, nothing touched. Non-trivial: every case.")
	t.Cleanup(stats.FlushAll)
	const limit = (1<<32 - 2) * 16
	const span = limit + 1<<20
	addr, _, errno := syscall.Syscall6(syscall.SYS_MMAP, 0, span, syscall.PROT_NONE, syscall.MAP_ANON|syscall.MAP_PRIVATE|syscall.MAP_NORESERVE, ^uintptr(0), 0)
	if errno != 0 {
		rec.Skipped("cannot reserve 64 GiB of address space: " + errno.Error())
		return
	}
	defer syscall.Syscall(syscall.SYS_MUNMAP, addr, span, 0)
	mem := unsafe.Slice((*byte)(unsafe.Pointer(addr)), span)
	a, _ := hugeAEAD(t)
	nonce := make([]byte, 12)
	for _, d := range []int{-4097, -33, -17, -16, -15, -1, 0, 1, 15, 16, 17, 31, 32, 33, 4096} {
		for _, op := range []string{"seal", "open"} {
			n := limit + d
			wantAccept := d <= 0
			in := mem[:n]
			if op == "open" {
				in = mem[:n+16]
			}
			var err error
			flt, other := guard.Run(func() {
				if op == "seal" {
					a.Seal(in[:0], nonce, in, nil)
				} else {
					_, err = a.Open(in[:0], nonce, in, nil)
				}
			})
			accepted := flt != nil
			rec.Case(uint64(n)*2+uint64(len(op)), true, "op:"+op, fmt.Sprintf("allowed:%v", wantAccept))
			rec.Enumerated(1, op)
			switch {
			case wantAccept && !accepted:
				vt.Fail(t, rec, "C06:limit:"+op+":refuses-allowed-length", "%s refuses a message of (2^32-2)*16%+d bytes, which SP 800-38D allows (error %v, panic %v)", op, d, err, other)
			case !wantAccept && accepted:
				vt.Fail(t, rec, "C06:limit:"+op+":accepts-forbidden-length", "%s starts processing a message of (2^32-2)*16%+d bytes (fault at %#x), longer than SP 800-38D allows", op, d, flt.Addr)
			case !wantAccept && op == "open" && err == nil && other == nil:
				vt.Fail(t, rec, "C06:limit:open:accepts-forbidden-length", "Open returned no error for a ciphertext of (2^32-2)*16%+d+16 bytes", d)
			}
		}
	}
	rec.Sample("limit", map[string]interface{}{"limit_bytes": limit, "offsets": "-4097..4096", "ops": "seal, open"})
}
