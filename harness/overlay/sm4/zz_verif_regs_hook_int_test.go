//go:build amd64

package sm4

// The driver generated VerifDirtyRegs in this scratch copy (prep_sm4_regstate).
func init() { verifDirtyInt = VerifDirtyRegs }
