//go:build amd64 || arm64

package sm4_test

// Messages whose BYTE length leaves 31 / 32 bits (thorough tier only): C06 (Seal of 2^32+4101 bytes against the reference),
// C07 (Open of that message: authentic accepted, single-bit changes on both sides of the 2^32 boundary rejected without
// plaintext) and C10 (a 2^31+5-byte message with dst = nil and with a short dst: result is dst || output).
// Plaintexts are anonymous mappings; only what the library writes is committed.

import (
	"bytes"
	"crypto/cipher"
	"fmt"
	"os"
	"runtime"
	"runtime/debug"
	"strconv"
	"strings"
	"syscall"
	"testing"

	"github.com/bilibili/smgo/sm4"
	"verif.local/ref/gcmref"
	"verif.local/ref/sm4ref"
	"verif.local/ref/stats"
	"verif.local/ref/vt"
)

func hugeMemAvailableGiB() int {
	b, err := os.ReadFile("/proc/meminfo")
	if err != nil {
		return -1
	}
	for _, l := range strings.Split(string(b), "\n") {
		if strings.HasPrefix(l, "MemAvailable:") {
			f := strings.Fields(l)
			kb, _ := strconv.Atoi(f[1])
			return kb >> 20
		}
	}
	return -1
}

// hugeGate decides whether a huge-message test runs: thorough tier, shard 0, enough memory.
func hugeGate(t *testing.T, rec *stats.Recorder, needGiB int) bool {
	if !vt.Thorough() {
		rec.Skipped(fmt.Sprintf("messages of 2^31..2^32 bytes run in the thorough tier only (about %d GiB of memory, a minute)", needGiB))
		return false
	}
	if si, _ := vt.Shard(); si != 0 {
		return false
	}
	if g := hugeMemAvailableGiB(); g >= 0 && g < needGiB+2 {
		rec.Skipped(fmt.Sprintf("only %d GiB of memory available, %d needed: not run", g, needGiB+2))
		return false
	}
	return true
}

var (
	hugeKey   = []byte{0x10, 0x32, 0x54, 0x76, 0x98, 0xba, 0xdc, 0xfe, 0xef, 0xcd, 0xab, 0x89, 0x67, 0x45, 0x23, 0x01}
	hugeNonce = []byte{0xca, 0xfe, 0xba, 0xbe, 0xfa, 0xce, 0xdb, 0xad, 0xde, 0xca, 0xf8, 0x88}
	hugeAAD   = []byte("header of a very long message")
)

// hugeExpectedTag is E(J0) xor GHASH(aad, ct) by the reference (GHASH split over all cores).
func hugeExpectedTag(ref *sm4ref.Cipher, aad, ct []byte) []byte {
	j0 := gcmref.J0(ref, hugeNonce)
	ej0 := make([]byte, 16)
	ref.Encrypt(ej0, j0)
	g := gcmref.NewGHashStream(gcmref.HashKey(ref))
	g.Blocks(aad)
	g.BlocksParallel(ct, runtime.NumCPU())
	s := g.Sum(len(aad), len(ct))
	for i := range s {
		s[i] ^= ej0[i]
	}
	return s
}

// hugeBadBlock recomputes sampled ciphertext blocks (first/last 32, 6000 spread over the message, all blocks around 2^31 and
// 2^32 bytes) of a ZERO plaintext with the reference CTR; returns the first wrong block or -1.
func hugeBadBlock(ref *sm4ref.Cipher, ct []byte) int {
	j0 := gcmref.J0(ref, hugeNonce)
	nblk := (len(ct) + 15) / 16
	check := func(blk int) bool {
		if blk < 0 || blk >= nblk {
			return true
		}
		ks := make([]byte, 16)
		ref.Encrypt(ks, gcmref.CounterBlock(j0, uint32(blk+1)))
		for i := 0; i < 16 && 16*blk+i < len(ct); i++ {
			if ct[16*blk+i] != ks[i] {
				return false
			}
		}
		return true
	}
	for k := 0; k < 32; k++ {
		if !check(k) {
			return k
		}
		if !check(nblk - 1 - k) {
			return nblk - 1 - k
		}
	}
	for _, c := range []int{1 << 27, 1 << 28, 1 << 26} { // blocks at 2^31, 2^32, 2^30 bytes
		for d := -40; d <= 40; d++ {
			if !check(c + d) {
				return c + d
			}
		}
	}
	for k := 0; k < 6000; k++ {
		blk := int((uint64(k)*2654435761 + 977) % uint64(nblk))
		if !check(blk) {
			return blk
		}
	}
	return -1
}

func hugeMap(rec *stats.Recorder, n int, prot int) []byte {
	m, err := syscall.Mmap(-1, 0, n, prot, syscall.MAP_ANON|syscall.MAP_PRIVATE|syscall.MAP_NORESERVE)
	if err != nil {
		rec.Skipped(fmt.Sprintf("cannot map %d bytes: %v", n, err))
		return nil
	}
	return m
}

func hugeAEAD(t *testing.T) (cipher.AEAD, *sm4ref.Cipher) {
	b, err := sm4.NewCipher(hugeKey)
	if err != nil {
		t.Fatal(err)
	}
	a, err := cipher.NewGCM(b)
	if err != nil {
		t.Fatal(err)
	}
	return a, sm4ref.New(hugeKey)
}

const huge4G = 1<<32 + 4101

func TestVerif_C06_Huge4G(t *testing.T) {
	rec := stats.Get("C06", "huge-4g")
	rec.Rule("thorough only: Seal of a zero plaintext of 2^32+4101 bytes (in place in an anonymous mapping), 29 bytes of aad, 12-byte nonce, tag 16. Oracle: tag = E(J0) xor GHASH by the reference (bitwise multiplication, split over the cores and folded with powers of H; the split is unit-tested against the sequential form); ciphertext blocks recomputed by sm4ref CTR at the first/last 32 blocks, every block within 40 of 2^30, 2^31 and 2^32 bytes, and 6000 spread positions. 1 case, non-trivial (byte length above 2^32).")
	t.Cleanup(stats.FlushAll)
	if !hugeGate(t, rec, 5) {
		return
	}
	buf := hugeMap(rec, huge4G+4096, syscall.PROT_READ|syscall.PROT_WRITE)
	if buf == nil {
		return
	}
	defer syscall.Munmap(buf)
	a, ref := hugeAEAD(t)
	var out []byte
	if p := vt.Catch(func() { out = a.Seal(buf[:0], hugeNonce, buf[:huge4G], hugeAAD) }); p != nil {
		vt.Fail(t, rec, "C06:seal:panic", "Seal panicked on a %d-byte plaintext: %v", huge4G, p)
		return
	}
	rec.Case(uint64(huge4G), true, "huge-4g")
	rec.Sample("huge-4g", map[string]interface{}{"pt_len": huge4G, "aad_len": len(hugeAAD)})
	if len(out) != huge4G+16 {
		vt.Fail(t, rec, "C06:seal:ciphertext", "output length %d, want %d", len(out), huge4G+16)
		return
	}
	if bad := hugeBadBlock(ref, out[:huge4G]); bad >= 0 {
		vt.Fail(t, rec, "C06:seal:ciphertext", "ciphertext block %d (byte offset %d) of a %d-byte message differs from the reference CTR", bad, 16*bad, huge4G)
		return
	}
	if want := hugeExpectedTag(ref, hugeAAD, out[:huge4G]); !bytes.Equal(out[huge4G:], want) {
		vt.Fail(t, rec, "C06:seal:tag", "tag of a %d-byte message differs from SP 800-38D\n got %x\nwant %x", huge4G, out[huge4G:], want)
	}
}

func TestVerif_C07_Huge4G(t *testing.T) {
	rec := stats.Get("C07", "huge-4g")
	rec.Rule("thorough only: a sealed zero plaintext of 2^32+4101 bytes (tag additionally recomputed by the reference, so the message is authentic by SP 800-38D and not only by the library's own Seal). Open in place: every single-bit change at byte offsets 5, 2^31, 2^32-1, 2^32, 2^32+100, last ciphertext byte, first and last tag byte, and one changed aad byte must be rejected with an error, a nil result and the buffer untouched; the unchanged message must open to the zero plaintext. 10 cases, all non-trivial; distinct by offset.")
	t.Cleanup(stats.FlushAll)
	if !hugeGate(t, rec, 5) {
		return
	}
	buf := hugeMap(rec, huge4G+4096, syscall.PROT_READ|syscall.PROT_WRITE)
	if buf == nil {
		return
	}
	defer syscall.Munmap(buf)
	a, ref := hugeAEAD(t)
	var ct []byte
	if p := vt.Catch(func() { ct = a.Seal(buf[:0], hugeNonce, buf[:huge4G], hugeAAD) }); p != nil || len(ct) != huge4G+16 {
		rec.Skipped(fmt.Sprintf("Seal of the huge message failed (panic=%v, len=%d): judged by C06, nothing to open here", p, len(ct)))
		return
	}
	want := hugeExpectedTag(ref, hugeAAD, ct[:huge4G])
	if !bytes.Equal(ct[huge4G:], want) {
		// not C07's business (C06 reports it); continue with the authentic tag so that Open is judged against the standard
		rec.Note("library Seal tag differs from the reference for the huge message; the reference tag is used")
		copy(ct[huge4G:], want)
	}
	probe := func() [5][16]byte { // cheap fingerprint of the buffer at a few places
		var f [5][16]byte
		for i, off := range []int{0, 1 << 31, 1<<32 - 8, 1<<32 + 90, huge4G - 16} {
			copy(f[i][:], ct[off:off+16])
		}
		return f
	}
	before := probe()
	for _, off := range []int{5, 1 << 31, 1<<32 - 1, 1 << 32, 1<<32 + 100, huge4G - 1, huge4G, huge4G + 15, -1} {
		aad := hugeAAD
		name := fmt.Sprintf("bit flipped at byte %d", off)
		if off >= 0 {
			ct[off] ^= 0x04
		} else {
			aad = append([]byte(nil), hugeAAD...)
			aad[3] ^= 1
			name = "aad byte changed"
		}
		var pt []byte
		var err error
		p := vt.Catch(func() { pt, err = a.Open(ct[:0], hugeNonce, ct, aad) })
		if off >= 0 {
			ct[off] ^= 0x04
		}
		rec.Case(uint64(off+7), true, "huge-forged")
		if p != nil {
			vt.Fail(t, rec, "C07:panic", "Open of a %d-byte message (%s) panicked: %v", len(ct), name, p)
			return
		}
		if err == nil || pt != nil {
			vt.Fail(t, rec, "C07:accepts-forged:huge", "Open ACCEPTED a %d-byte message that Seal never produced (%s): err=%v, %d bytes released", len(ct), name, err, len(pt))
			return
		}
		if probe() != before {
			vt.Fail(t, rec, "C07:releases-plaintext:huge", "a rejected Open (%s) wrote into the destination", name)
			return
		}
	}
	var pt []byte
	var err error
	if p := vt.Catch(func() { pt, err = a.Open(ct[:0], hugeNonce, ct, hugeAAD) }); p != nil {
		vt.Fail(t, rec, "C07:panic", "Open of an authentic %d-byte message panicked: %v", len(ct), p)
		return
	}
	rec.Case(1, true, "huge-authentic")
	if err != nil || len(pt) != huge4G {
		vt.Fail(t, rec, "C07:rejects-authentic:huge", "authentic %d-byte message rejected: err=%v len=%d", len(ct), err, len(pt))
		return
	}
	for i := 0; i < len(pt); i += 8 {
		if pt[i] != 0 {
			vt.Fail(t, rec, "C07:wrong-plaintext:huge", "plaintext byte %d of the huge message is %#x, want 0", i, pt[i])
			return
		}
	}
	rec.Sample("huge-4g", map[string]interface{}{"ct_len": huge4G + 16, "forged_offsets": "5, 2^31, 2^32-1, 2^32, 2^32+100, last ct byte, tag[0], tag[15], aad"})
}

func TestVerif_C10_Huge2G(t *testing.T) {
	rec := stats.Get("C10", "huge-2g")
	rec.Rule("thorough only: Seal and Open of a zero plaintext of 2^31+5 bytes (read-only anonymous mapping) with dst = nil and dst = a 3-byte slice without spare capacity (output exceeds the spare capacity by more than 2^31). Oracle: no panic; result = dst || output with the reference tag and sampled reference ciphertext blocks; Open gives dst || plaintext. 4 cases, all non-trivial; distinct by (operation, dst).")
	t.Cleanup(stats.FlushAll)
	if !hugeGate(t, rec, 7) {
		return
	}
	const n = 1<<31 + 5
	zero := hugeMap(rec, n+4096, syscall.PROT_READ)
	if zero == nil {
		return
	}
	defer syscall.Munmap(zero)
	a, ref := hugeAEAD(t)
	for _, cls := range []string{"nil", "3-byte"} {
		var dst []byte
		if cls == "3-byte" {
			dst = []byte{0xaa, 0xbb, 0xcc}
		}
		var out []byte
		p := vt.Catch(func() { out = a.Seal(dst, hugeNonce, zero[:n], hugeAAD) })
		rec.Case(stats.HashS("seal", cls), true, "seal:"+cls)
		if p != nil {
			vt.Fail(t, rec, "C10:seal:panic:huge-"+cls, "Seal of a %d-byte message with dst=%s panicked: %v", n, cls, p)
			return
		}
		if len(out) != len(dst)+n+16 || !bytes.Equal(out[:len(dst)], dst) {
			vt.Fail(t, rec, "C10:seal:append:huge-"+cls, "Seal(dst) is not dst || output for a %d-byte message (len(result)=%d, want %d)", n, len(out), len(dst)+n+16)
			return
		}
		body := out[len(dst):]
		if bad := hugeBadBlock(ref, body[:n]); bad >= 0 {
			vt.Fail(t, rec, "C10:seal:append:huge-"+cls, "ciphertext block %d of the appended output differs from the reference", bad)
			return
		}
		if want := hugeExpectedTag(ref, hugeAAD, body[:n]); !bytes.Equal(body[n:], want) {
			vt.Fail(t, rec, "C10:seal:append:huge-"+cls, "tag of the appended output differs from the reference\n got %x\nwant %x", body[n:], want)
			return
		}
		var pt []byte
		var err error
		p = vt.Catch(func() { pt, err = a.Open(dst, hugeNonce, body, hugeAAD) })
		rec.Case(stats.HashS("open", cls), true, "open:"+cls)
		if p != nil {
			vt.Fail(t, rec, "C10:open:panic:huge-"+cls, "Open of a %d-byte message with dst=%s panicked: %v", n, cls, p)
			return
		}
		if err != nil || len(pt) != len(dst)+n || !bytes.Equal(pt[:len(dst)], dst) {
			vt.Fail(t, rec, "C10:open:append:huge-"+cls, "Open(dst) is not dst || plaintext for a %d-byte message: err=%v len=%d", n, err, len(pt))
			return
		}
		for i := len(dst); i < len(pt); i += 8 {
			if pt[i] != 0 {
				vt.Fail(t, rec, "C10:open:append:huge-"+cls, "plaintext byte %d is %#x, want 0", i-len(dst), pt[i])
				return
			}
		}
		out, pt, body = nil, nil, nil
		runtime.GC()
		debug.FreeOSMemory()
	}
	rec.Sample("huge-2g", map[string]interface{}{"pt_len": n, "dst": "nil, 3-byte without capacity"})
}

// Additional data of more than 2^32 BLOCKS (64 GiB of address space; zero pages, nothing committed but the last page): block counters
// narrower than the 64-bit byte length lose their upper bits. GHASH over zero blocks from the zero state stays zero, so the reference
// only needs the non-zero end of the aad, the ciphertext and the length block.
func TestVerif_C06_Huge64GZeroAAD(t *testing.T) {
	rec := stats.Get("C06", "huge-64g-aad")
	rec.Rule("thorough only: aad of 2^36 + 8*16 + 37 bytes (2^32 + 8 zero blocks from an anonymous mapping, then two non-zero blocks and a 5-byte tail), plaintext 0 and 45 bytes, 12-byte nonce: Seal must equal E(J0) xor GHASH(aad, C, lengths) by the reference (the leading zero blocks leave the GHASH state at zero) and the reference CTR. 2 cases, non-trivial (aad block count above 2^32).")
	t.Cleanup(stats.FlushAll)
	if !hugeGate(t, rec, 1) {
		return
	}
	const zeroLen = 1<<36 + 8*16
	const aadLen = zeroLen + 37
	mem, err := syscall.Mmap(-1, 0, aadLen+4096, syscall.PROT_READ|syscall.PROT_WRITE, syscall.MAP_ANON|syscall.MAP_PRIVATE|syscall.MAP_NORESERVE)
	if err != nil {
		rec.Skipped("cannot map 64 GiB of address space: " + err.Error())
		return
	}
	defer syscall.Munmap(mem)
	for i := 0; i < 37; i++ {
		mem[zeroLen+i] = byte(0x61 + i*7)
	}
	aad := mem[:aadLen]
	a, ref := hugeAEAD(t)
	j0 := gcmref.J0(ref, hugeNonce)
	ej0 := make([]byte, 16)
	ref.Encrypt(ej0, j0)
	pt := bytes.Repeat([]byte{0x5a, 0x17, 0xc3}, 15)
	for _, pl := range []int{0, 45} {
		var out []byte
		if p := vt.Catch(func() { out = a.Seal(nil, hugeNonce, pt[:pl], aad) }); p != nil {
			vt.Fail(t, rec, "C06:seal:panic", "Seal panicked with %d bytes of aad: %v", aadLen, p)
			return
		}
		rec.Case(uint64(pl)+7, true, "huge-64g-aad")
		ct := gcmref.GCTR(ref, gcmref.CounterBlock(j0, 1), pt[:pl])
		g := gcmref.NewGHashStream(gcmref.HashKey(ref)) // 2^32+8 zero blocks leave the state at zero
		g.Blocks(aad[zeroLen:])
		g.Blocks(ct)
		sum := g.Sum(aadLen, pl)
		want := append([]byte(nil), ct...)
		for i := 0; i < 16; i++ {
			want = append(want, sum[i]^ej0[i])
		}
		if !bytes.Equal(out, want) {
			what := "tag"
			if len(out) < pl || !bytes.Equal(out[:pl], ct) {
				what = "ciphertext"
			}
			vt.Fail(t, rec, "C06:seal:"+what, "Seal with %d bytes of aad (%d blocks, above 2^32) and %d bytes of plaintext differs from SP 800-38D in the %s\n got %x\nwant %x", aadLen, aadLen/16, pl, what, out, want)
		}
	}
	rec.Sample("huge-64g-aad", map[string]interface{}{"aad_len": aadLen, "aad_blocks": aadLen / 16})
}
