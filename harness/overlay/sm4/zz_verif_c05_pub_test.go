package sm4_test

// C05 (public API part) — Encrypt/Decrypt of the cipher.Block from NewCipher
// against an SM4 transcribed from GB/T 32907 with an algebraic S-box.

import (
	"bytes"
	"crypto/cipher"
	"fmt"
	"runtime"
	"testing"
	"time"

	"github.com/bilibili/smgo/sm4"
	"pgregory.net/rapid"
	"verif.local/ref/gen"
	"verif.local/ref/sm4ref"
	"verif.local/ref/stats"
	"verif.local/ref/vt"
)

func c05Key(t *rapid.T, label string) ([]byte, string) {
	cls := gen.Pick(t, label+".class", "uniform", "uniform", "uniform", "zero", "ones", "onebit", "extbytes", "sample")
	r := gen.Rand(t, label+".seed")
	k := gen.RandBytes(r, 16)
	switch cls {
	case "zero":
		k = make([]byte, 16)
	case "ones":
		k = bytes.Repeat([]byte{0xff}, 16)
	case "onebit":
		k = make([]byte, 16)
		p := gen.Uniform(t, label+".pos", 0, 127)
		k[p>>3] = 0x80 >> uint(p&7)
	case "extbytes":
		ext := []byte{0, 1, 0x7f, 0x80, 0xfe, 0xff}
		for i := range k {
			k[i] = ext[r.Intn(len(ext))]
		}
	case "sample":
		k = []byte{0x01, 0x23, 0x45, 0x67, 0x89, 0xab, 0xcd, 0xef, 0xfe, 0xdc, 0xba, 0x98, 0x76, 0x54, 0x32, 0x10}
	}
	return k, cls
}

func TestVerif_C05_Block(t *testing.T) {
	rec := stats.Get("C05", "block")
	rec.Rule("rapid: key from {uniform, all-00, all-FF, single bit, extreme bytes, the standard's sample}; block uniform / extreme; through sm4.NewCipher: Encrypt, Decrypt, dst==src aliasing, dst and src as sub-slices at a drawn offset, dst and src LONGER than a block taken from one array with their first blocks 16+ bytes apart (or coinciding), key slice overwritten after construction; an object history before the block operation (AEADs derived from the same Block via cipher.NewGCM*, used for a Seal/Open, or dropped and garbage-collected while the Block lives on, or an earlier Encrypt/Decrypt); key lengths 0..40 for the rejection rule. Oracle: sm4ref (algebraic S-box, anchored to GB/T 32907 A.1/A.2 incl. the 10^6-fold iteration); Decrypt(Encrypt(x)) = x; inputs unmodified. Non-trivial: decrypt or aliasing or a non-sample key; distinct by (key, block, mode).")
	t.Cleanup(stats.FlushAll)
	rapid.Check(t, func(t *rapid.T) {
		key, kcls := c05Key(t, "key")
		r := gen.Rand(t, "seed")
		blk := gen.RandBytes(r, 16)
		if gen.Int(t, "extblk", 0, 4) == 0 {
			blk, _ = gen.Bytes32(t, "blk")
			blk = blk[:16]
		}
		keyCopy := append([]byte(nil), key...)
		c, err := sm4.NewCipher(keyCopy)
		if err != nil {
			vt.Fail(t, rec, "C05:newcipher:error", "NewCipher(16-byte key) failed: %v", err)
			return
		}
		if gen.Bool(t, "scribble") {
			for i := range keyCopy {
				keyCopy[i] ^= 0xff
			}
		}
		// history on the object: AEADs may have been derived from this Block (and used) before the block operation
		hist := gen.Pick(t, "history", "fresh", "fresh", "newgcm", "newgcm+seal", "enc-first", "dec-first", "newgcm-dropped+gc")
		switch hist {
		case "newgcm", "newgcm+seal":
			var a cipher.AEAD
			var aerr error
			if gen.Bool(t, "nonstd") {
				a, aerr = cipher.NewGCMWithNonceSize(c, 16)
			} else {
				a, aerr = cipher.NewGCM(c)
			}
			if aerr == nil && hist == "newgcm+seal" {
				ct := a.Seal(nil, make([]byte, a.NonceSize()), []byte("history"), nil)
				a.Open(nil, make([]byte, a.NonceSize()), ct, nil)
			}
		case "newgcm-dropped+gc":
			// AEADs derived from the Block become unreachable and are collected (finalizers run) while the Block lives on
			func() {
				for i := 0; i < 2; i++ {
					if a, aerr := cipher.NewGCM(c); aerr == nil {
						a.Seal(nil, make([]byte, 12), []byte("x"), nil)
					}
				}
			}()
			runtime.GC()
			runtime.GC()
			time.Sleep(200 * time.Microsecond)
		case "enc-first":
			c.Encrypt(make([]byte, 16), blk)
		case "dec-first":
			c.Decrypt(make([]byte, 16), blk)
		}
		ref := sm4ref.New(key)
		wantE, wantD := make([]byte, 16), make([]byte, 16)
		ref.Encrypt(wantE, blk)
		ref.Decrypt(wantD, blk)
		mode := gen.Pick(t, "mode", "enc", "dec", "enc-inplace", "dec-inplace", "enc-offset", "dec-offset", "enc-long-shared", "dec-long-shared")
		off := gen.Int(t, "off", 0, 17)
		buf := make([]byte, 160)
		copy(buf[off:], blk)
		src := buf[off : off+16]
		dst := make([]byte, 16+off)[off:]
		if mode == "enc-inplace" || mode == "dec-inplace" {
			dst = src
		}
		var guardLo, guardHi int // bytes of buf outside the destination block must stay as they are
		if mode[3:] == "-long-shared" {
			// dst and src are LONGER than a block and come from one array; the blocks actually processed (their first 16 bytes) start
			// at least 16 bytes apart — or exactly together — so the call is legal although the slices as a whole overlap
			doff := off + 16*gen.Uniform(t, "dist", 1, 3) + gen.Uniform(t, "distb", 0, 7)
			if gen.Uniform(t, "same-start", 0, 4) == 0 {
				doff = off
			}
			src = buf[off : off+16+gen.Uniform(t, "srcextra", 1, 70)]
			dst = buf[doff : doff+16+gen.Uniform(t, "dstextra", 1, 70)]
			if gen.Bool(t, "swap") && doff != off { // destination below the source
				copy(buf[doff:], blk)
				src, dst = buf[doff:doff+len(dst)], buf[off:off+len(src)]
			}
			for i := range buf {
				if buf[i] == 0 {
					buf[i] = byte(0x40 + i%7)
				}
			}
			copy(src, blk)
			guardLo = int(uintptr(len(buf)) - uintptr(cap(dst)))
			guardHi = guardLo + 16
		}
		bufBefore := append([]byte(nil), buf...)
		want := wantE
		if p := vt.Catch(func() {
			if mode[:3] == "enc" {
				c.Encrypt(dst, src)
			} else {
				c.Decrypt(dst, src)
				want = wantD
			}
		}); p != nil {
			vt.Fail(t, rec, "C05:block:panic", "%s panicked: %v", mode, p)
			return
		}
		rec.Case(stats.Hash(key, blk, []byte(mode+hist)), mode != "enc" || kcls != "sample", "key:"+kcls, "mode:"+mode, "history:"+hist)
		if rec.WantSample(mode) {
			rec.Sample(mode, map[string]interface{}{"key": stats.Hex(key), "block": stats.Hex(blk), "mode": mode, "want": stats.Hex(want)})
		}
		if !bytes.Equal(dst[:16], want) {
			vt.Fail(t, rec, "C05:block:"+mode[:3]+":wrong", "%s differs from GB/T 32907\nkey=%x\nblock=%x\n got %x\nwant %x", mode, key, blk, dst[:16], want)
			return
		}
		if mode[3:] == "-long-shared" {
			for i := range buf {
				if (i < guardLo || i >= guardHi) && buf[i] != bufBefore[i] {
					vt.Fail(t, rec, "C05:block:writes-outside-block", "%s with dst/src longer than a block in one array changed byte %d, outside the 16-byte destination block (dst starts at %d)", mode, i, guardLo)
					return
				}
			}
		}
		if dst[:1][0:1] != nil && mode[3:] != "-inplace" && mode[3:] != "-long-shared" && !bytes.Equal(src, blk) {
			vt.Fail(t, rec, "C05:block:modifies-src", "%s modified its source block", mode)
		}
		if c.BlockSize() != 16 {
			vt.Fail(t, rec, "C05:blocksize", "BlockSize()=%d", c.BlockSize())
		}
		// round trip through the library itself
		back := make([]byte, 16)
		c.Decrypt(back, wantE)
		if !bytes.Equal(back, blk) {
			vt.Fail(t, rec, "C05:block:dec:wrong", "Decrypt(E(x)) != x\nkey=%x x=%x got %x", key, blk, back)
		}
	})
}

func TestVerif_C05_KeySize(t *testing.T) {
	rec := stats.Get("C05", "keysize")
	rec.Rule("complete enumeration: key lengths 0..64 (nil included): NewCipher must return KeySizeError(len) and a nil Block for every length but 16. Every case non-trivial.")
	rec.Exhaustive(true)
	t.Cleanup(stats.FlushAll)
	for n := -1; n <= 64; n++ {
		var key []byte
		if n >= 0 {
			key = bytes.Repeat([]byte{0x3c}, n)
		}
		var c interface{ BlockSize() int }
		var err error
		if p := vt.Catch(func() { c, err = sm4.NewCipher(key) }); p != nil {
			vt.Fail(t, rec, "C05:keysize:panic", "NewCipher(%d-byte key) panicked: %v", n, p)
			continue
		}
		rec.Enumerated(1, fmt.Sprintf("ok:%v", len(key) == 16))
		if len(key) == 16 {
			if err != nil || c == nil {
				vt.Fail(t, rec, "C05:newcipher:error", "NewCipher(16 bytes) failed: %v", err)
			}
			continue
		}
		if _, ok := err.(sm4.KeySizeError); !ok || c != nil {
			vt.Fail(t, rec, "C05:keysize:accepted", "NewCipher(%d-byte key) returned (%v, %v), want (nil, KeySizeError)", len(key), c, err)
		}
	}
	rec.Sample("keysize", map[string]interface{}{"lengths": "nil, 0..64"})
}
