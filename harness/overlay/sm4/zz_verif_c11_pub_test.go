package sm4_test

// C11 (public API part) — no access outside the slices handed in.
// Every slice argument of Seal/Open is laid against an inaccessible page (ending at it or starting after
// it), faults are turned into panics, canaries surround the buffers; results must still equal the reference.

import (
	"bytes"
	"crypto/cipher"
	"fmt"
	"testing"

	"github.com/bilibili/smgo/sm4"
	"pgregory.net/rapid"
	"verif.local/ref/gen"
	"verif.local/ref/guard"
	"verif.local/ref/stats"
	"verif.local/ref/vt"
)

type c11Arg struct {
	name  string
	place string
	buf   *guard.Buf
	b     []byte
}

func c11Place(t *rapid.T, name string, content []byte) *c11Arg {
	a := &c11Arg{name: name, place: gen.Pick(t, name+".place", "end", "end", "end-overcap", "start", "heap", "across-2^32")}
	if a.place == "across-2^32" && (name != "input" || len(content) == 0 || len(content) > 60000) {
		a.place = "end" // one argument per call can lie in the shared mapping around a 2^32-aligned address: the message
	}
	switch a.place {
	case "across-2^32":
		// the message lies across an address that is a multiple of 2^32 (its pointers differ in the upper half on the two sides)
		if m := guard.Across4G(len(content), gen.Uniform(t, name+".before", 0, len(content)), content); m != nil {
			a.b = m
			return a
		}
		a.place = "heap"
		a.b = append([]byte(nil), content...)
	case "end":
		a.buf = guard.End(len(content)).Fill(content)
		a.b = a.buf.B
	case "end-overcap":
		// as "end", but the slice header advertises a capacity that runs into the inaccessible page: an input is len bytes long
		a.buf = guard.End(len(content)).Fill(content).OverCap(gen.Uniform(t, name+".over", 1, 64))
		a.b = a.buf.B
	case "start":
		a.buf = guard.Start(len(content)).Fill(content)
		a.b = a.buf.B
	default:
		a.b = append([]byte(nil), content...)
	}
	// pure inputs may only be READ: half of the guarded ones are made read-only, so that even a write that is undone before the
	// call returns (invisible to a before/after comparison) faults
	if a.buf != nil && gen.Bool(t, name+".readonly") {
		a.buf.ReadOnly()
		a.place += ",read-only"
	}
	return a
}

func c11Blame(f *guard.Fault, args ...*c11Arg) string {
	for _, a := range args {
		if a != nil && a.buf != nil {
			if w := a.buf.Where(f.Addr); w != "" {
				return fmt.Sprintf("%s(%s): %s", a.name, a.place, w)
			}
		}
	}
	return fmt.Sprintf("address %#x (not near a guarded argument)", f.Addr)
}

func c11ArgName(f *guard.Fault, args ...*c11Arg) string {
	for _, a := range args {
		if a != nil && a.buf != nil && a.buf.Where(f.Addr) != "" {
			return a.name
		}
	}
	return "other"
}

func TestVerif_C11_AEAD(t *testing.T) {
	rec := stats.Get("C11", "aead")
	rec.Rule("rapid: Seal and Open through cipher.AEAD with nonce, aad, plaintext/ciphertext and dst each placed (independently) so that the slice ENDS at a PROT_NONE page, STARTS right after one, or lives on the heap, and half of the guarded inputs are mapped READ-ONLY (a transient write into an input faults); dst is nil, or a guarded slice with len l in 0..40 and capacity exactly l+need (ending at the inaccessible page) or l+need+extra (the extra capacity filled with canaries); lengths from the kernel-combination generator 0..1100, nonce 1..300, tag 12..16. Oracle: no memory fault (debug.SetPanicOnFault turns faults inside the assembly into panics), output equal to the reference GCM, every canary byte intact incl. the capacity past len(dst)+need, inputs unchanged. Non-trivial: length not a multiple of 16, or a wide kernel, or tag != 16, or nonce != 12; distinct by (lengths, placements, contents).")
	t.Cleanup(stats.FlushAll)
	rapid.Check(t, func(t *rapid.T) {
		c := drawGCMCase(t)
		a, err := c.aead()
		if err == errNoGcmAble {
			rec.Skipped("Block.NewGCM not available")
			return
		}
		if err != nil {
			vt.Fail(t, rec, "C11:construct", "construct: %v", err)
			return
		}
		want := c.want()
		op := gen.Pick(t, "op", "seal", "open")
		input := c.PT
		need := len(c.PT) + c.TagSize
		expect := want
		if op == "open" {
			input, need, expect = want, len(c.PT), c.PT
		}
		nonce, aad, in := c11Place(t, "nonce", c.Nonce), c11Place(t, "aad", c.AAD), c11Place(t, "input", input)
		var dstA *c11Arg
		dcls := gen.Pick(t, "dst", "nil", "exact-at-guard", "exact-at-guard", "extra-canary")
		l := gen.Int(t, "dstlen", 0, 40)
		extra := 0
		var dst []byte
		r := gen.Rand(t, "pfx")
		prefix := gen.RandBytes(r, l)
		switch dcls {
		case "exact-at-guard":
			dstA = &c11Arg{name: "dst", place: "end", buf: guard.EndCap(l, need)}
		case "extra-canary":
			extra = gen.Int(t, "extra", 1, 80)
			dstA = &c11Arg{name: "dst", place: "end+spare", buf: guard.EndCap(l, need+extra)}
		}
		if dstA != nil {
			copy(dstA.buf.B, prefix)
			dst = dstA.buf.B
		} else {
			prefix, l = nil, 0
		}
		all := []*c11Arg{nonce, aad, in, dstA}
		defer func() {
			for _, x := range all {
				if x != nil && x.buf != nil {
					x.buf.Free()
				}
			}
		}()
		nt := len(c.PT)%16 != 0 || len(c.PT) >= 32 || c.TagSize != 16 || len(c.Nonce) != 12
		rec.Case(stats.Hash(c.Key, c.Nonce, c.AAD, c.PT, []byte(fmt.Sprint(c.TagSize, op, nonce.place, aad.place, in.place, dcls, l, extra))), nt,
			"op:"+op, "nonce@"+nonce.place, "aad@"+aad.place, "input@"+in.place, "dst:"+dcls, fmt.Sprintf("tail:%v", len(c.PT)%16 != 0))
		if rec.WantSample(op + dcls) {
			s := c.sample()
			s["op"], s["placements"] = op, fmt.Sprintf("nonce@%s aad@%s input@%s dst:%s(len %d, extra %d)", nonce.place, aad.place, in.place, dcls, l, extra)
			rec.Sample(op+dcls, s)
		}
		var out []byte
		var oerr error
		flt, other := guard.Run(func() {
			if op == "seal" {
				out = a.Seal(dst, nonce.b, in.b, aad.b)
			} else {
				out, oerr = a.Open(dst, nonce.b, in.b, aad.b)
			}
		})
		desc := fmt.Sprintf("%s: pt %d bytes, aad %d, nonce %d, tag %d; nonce@%s aad@%s input@%s dst:%s (len %d cap %d)", op, len(c.PT), len(c.AAD), len(c.Nonce), c.TagSize, nonce.place, aad.place, in.place, dcls, l, cap(dst))
		if flt != nil {
			vt.Fail(t, rec, "C11:"+op+":fault:"+c11ArgName(flt, all...), "memory fault (%s) at %s\n%s\nkey=%x", flt.Msg, c11Blame(flt, all...), desc, c.Key)
			return
		}
		if other != nil {
			vt.Fail(t, rec, "C11:"+op+":panic", "panic: %v\n%s", other, desc)
			return
		}
		if oerr != nil || !bytes.Equal(out, append(append([]byte(nil), prefix...), expect...)) {
			vt.Fail(t, rec, "C11:"+op+":wrong", "result differs from the reference when buffers are guarded (err=%v)\n%s", oerr, desc)
			return
		}
		for _, x := range []*c11Arg{nonce, aad, in} {
			if x.buf != nil {
				if ok, at := x.buf.CanariesIntact(len(x.b)); !ok {
					vt.Fail(t, rec, "C11:"+op+":write-outside:"+x.name, "a byte %+d from the start of %s (a read-only input) was overwritten\n%s", at, x.name, desc)
				}
			}
		}
		if !bytes.Equal(nonce.b, c.Nonce) || !bytes.Equal(aad.b, c.AAD) || !bytes.Equal(in.b, input) {
			vt.Fail(t, rec, "C11:"+op+":modifies-input", "an input was modified\n%s", desc)
		}
		if dstA != nil {
			if ok, at := dstA.buf.CanariesIntact(l + need); !ok {
				vt.Fail(t, rec, "C11:"+op+":write-outside:dst", "byte %+d from the start of dst was written: outside dst[len:len+need] = [%d,%d)\n%s", at, l, l+need, desc)
			}
		}
	})
}

// Short-buffer misuse of Encrypt/Decrypt on the default (accelerated if available) path.
func TestVerif_C11_ShortBlocks(t *testing.T) {
	rec := stats.Get("C11", "short-blocks")
	rec.Exhaustive(true)
	rec.Rule("complete enumeration: Block.Encrypt and Decrypt from sm4.NewCipher with len(src) in 0..16 x len(dst) in 0..16 (at least one of them short), each short slice either ending at an inaccessible page (cap = len) or with capacity >= 16 over canary-filled memory. Oracle: a Go panic (not a memory fault, not silence), and no byte outside dst[:len(dst)] written. Every case non-trivial; distinct by (op, len src, len dst, capacity class).")
	t.Cleanup(stats.FlushAll)
	key := bytes.Repeat([]byte{0x42}, 16)
	var b cipher.Block
	b, _ = sm4.NewCipher(key)
	for _, op := range []string{"Encrypt", "Decrypt"} {
		for ls := 0; ls <= 16; ls++ {
			for ld := 0; ld <= 16; ld++ {
				if ls == 16 && ld == 16 {
					continue
				}
				for _, capc := range []string{"cap=len", "cap>=16"} {
					var sb, db *guard.Buf
					if capc == "cap=len" {
						sb, db = guard.End(ls), guard.End(ld)
					} else {
						sb, db = guard.EndCap(ls, 32-ls), guard.EndCap(ld, 32-ld)
					}
					for i := range sb.B {
						sb.B[i] = byte(i + 1)
					}
					rec.Enumerated(1, op+":"+capc)
					flt, other := guard.Run(func() {
						if op == "Encrypt" {
							b.Encrypt(db.B, sb.B)
						} else {
							b.Decrypt(db.B, sb.B)
						}
					})
					desc := fmt.Sprintf("%s(dst len %d, src len %d), %s", op, ld, ls, capc)
					okD, atD := db.CanariesIntact(ld)
					okS, _ := sb.CanariesIntact(ls)
					switch {
					case flt != nil:
						vt.Fail(t, rec, "C11:short:fault", "%s: memory fault instead of a length check (%s)", desc, flt.Msg)
					case !okD || !okS:
						vt.Fail(t, rec, "C11:short:write-outside", "%s: wrote outside the destination (offset %+d)", desc, atD)
					case other == nil:
						vt.Fail(t, rec, "C11:short:silent", "%s: no panic — a block shorter than 16 bytes was silently read/written out of range", desc)
					}
					sb.Free()
					db.Free()
				}
			}
		}
	}
	rec.Sample("short", map[string]interface{}{"ops": "Encrypt, Decrypt", "len_src": "0..16", "len_dst": "0..16", "capacity": "cap=len at page end | cap>=16 with canaries"})
}
