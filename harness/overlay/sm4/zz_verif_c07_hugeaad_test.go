//go:build amd64 || arm64

package sm4_test

import (
	"bytes"
	"crypto/cipher"
	"fmt"
	"syscall"
	"testing"

	"github.com/bilibili/smgo/sm4"
	"verif.local/ref/gcmref"
	"verif.local/ref/sm4ref"
	"verif.local/ref/stats"
	"verif.local/ref/vt"
)

// Open with additional data of 2^29+5 .. 2^32+21 zero bytes (read-only anonymous mapping: untouched zero pages cost no memory).
// The message is built by the REFERENCE (the zero blocks leave GHASH at zero, so the expected tag is cheap), so Open is judged
// against SP 800-38D and not against the library's own Seal. Authentic messages must open to the plaintext; the same
// ciphertext and tag presented with additional data whose length differs by exactly 2^32, 2^29 or 16 bytes (still all zero: only the
// length block tells them apart) is a forgery and must be rejected.
func TestVerif_C07_HugeZeroAAD(t *testing.T) {
	rec := stats.Get("C07", "huge-zero-aad")
	rec.Rule("aad of L zero bytes, L in {2^29+5, 2^32+5} with 37 bytes of plaintext (quick) or {2^29+5, 2^30+16, 2^32, 2^32+5, 2^32+21} with 0, 37, 300 bytes (thorough) (read-only zero-page mapping), plaintext 0, 37, 300 bytes, 12-byte nonce: message built by the reference GCM (streaming GHASH; zero aad blocks leave the state at zero). Oracle: Open accepts it and returns the plaintext; the same ciphertext||tag with aad of L' zero bytes, L' in {L-2^32, L+2^32 (when mapped), L-2^29, L-16, L+16, L mod 2^32, L mod 2^29}, L' != L, is rejected with nil result. All cases non-trivial (aad bit length >= 2^32); distinct by (L, L', plaintext length).")
	t.Cleanup(stats.FlushAll)
	const maxAad = 1<<33 + 64
	mem, err := syscall.Mmap(-1, 0, maxAad, syscall.PROT_READ, syscall.MAP_ANON|syscall.MAP_PRIVATE|syscall.MAP_NORESERVE)
	if err != nil {
		rec.Skipped("cannot map 8 GiB of zero pages: " + err.Error())
		t.Skip()
	}
	defer syscall.Munmap(mem)
	key := []byte{0x0f, 0xe1, 0xd2, 0xc3, 0xb4, 0xa5, 0x96, 0x87, 0x78, 0x69, 0x5a, 0x4b, 0x3c, 0x2d, 0x1e, 0xf0}
	ref := sm4ref.New(key)
	b, _ := sm4.NewCipher(key)
	a, _ := cipher.NewGCM(b)
	nonce := []byte{1, 8, 7, 6, 5, 4, 3, 2, 1, 0, 1, 9}
	j0 := gcmref.J0(ref, nonce)
	ej0 := make([]byte, 16)
	ref.Encrypt(ej0, j0)
	pt := make([]byte, 300)
	for i := range pt {
		pt[i] = byte(i*11 + 3)
	}
	build := func(al, pl int) []byte {
		ct := gcmref.GCTR(ref, gcmref.CounterBlock(j0, 1), pt[:pl])
		g := gcmref.NewGHashStream(gcmref.HashKey(ref))
		g.Blocks(ct)
		s := g.Sum(al, pl)
		msg := append([]byte(nil), ct...)
		for i := 0; i < 16; i++ {
			msg = append(msg, s[i]^ej0[i])
		}
		return msg
	}
	lens := []int{1<<29 + 5, 1<<30 + 16, 1 << 32, 1<<32 + 5, 1<<32 + 21}
	pls := []int{0, 37, 300}
	if !vt.Thorough() {
		lens = []int{1<<29 + 5, 1<<32 + 5}
		pls = []int{37}
	}
	for _, al := range lens {
		for _, pl := range pls {
			msg := build(al, pl)
			var got []byte
			var oerr error
			if p := vt.Catch(func() { got, oerr = a.Open(nil, nonce, msg, mem[:al]) }); p != nil {
				vt.Fail(t, rec, "C07:panic", "Open panicked with %d bytes of aad: %v", al, p)
				continue
			}
			rec.Case(uint64(al)<<12|uint64(pl), true, "huge-aad-authentic")
			if oerr != nil || !bytes.Equal(got, pt[:pl]) {
				vt.Fail(t, rec, "C07:rejects-authentic:huge-aad", "authentic message (SP 800-38D tag) with %d zero bytes of aad (bit length %d) and %d bytes of plaintext: err=%v, %d bytes released, want the plaintext", al, uint64(al)*8, pl, oerr, len(got))
				continue
			}
			if pl != 37 {
				continue
			}
			for _, fl := range []int{al - 1<<32, al + 1<<32, al - 1<<29, al - 16, al + 16, al % (1 << 32), al % (1 << 29)} {
				if fl < 0 || fl > maxAad || fl == al {
					continue
				}
				var fgot []byte
				var ferr error
				if p := vt.Catch(func() { fgot, ferr = a.Open(nil, nonce, msg, mem[:fl]) }); p != nil {
					vt.Fail(t, rec, "C07:panic", "Open panicked with %d bytes of aad: %v", fl, p)
					continue
				}
				rec.Case(uint64(al)<<12|uint64(fl)<<40|uint64(pl), true, "huge-aad-forged-length")
				if ferr == nil || fgot != nil {
					vt.Fail(t, rec, "C07:accepts-forged:huge-aad", "Open ACCEPTED a message authenticated for %d zero bytes of aad when given %d zero bytes of aad (lengths differ by %d): err=%v, %d bytes released", al, fl, al-fl, ferr, len(fgot))
				}
			}
		}
	}
	rec.Sample("huge-zero-aad", map[string]interface{}{"aad_lengths": fmt.Sprint(lens), "pt_lengths": pls})
}
