package sm4_test

// C07 — Open releases plaintext only for an authentic message.
// Oracle: authentic (unchanged) -> original plaintext; anything else -> error and nil, never a panic;
// cross-checked with gcmref.Open so that a mutation that happens to be valid is judged correctly.

import (
	"bytes"
	"crypto/cipher"
	"fmt"
	"testing"

	"pgregory.net/rapid"
	"verif.local/ref/gcmref"
	"verif.local/ref/gen"
	"verif.local/ref/stats"
	"verif.local/ref/vt"
)

type c07Mut struct {
	name           string
	nonce, ct, aad []byte
	sameAEAD       bool
}

func c07Judge(t vt.TB, rec *stats.Recorder, c *gcmCase, open func(nonce, ct, aad []byte) ([]byte, error), m c07Mut) {
	ct := append([]byte(nil), m.ct...) // fresh copy for every Open
	want, werr := gcmref.Open(c.Ref, m.nonce, ct, m.aad, c.TagSize)
	var got []byte
	var err error
	if p := vt.Catch(func() { got, err = open(m.nonce, ct, m.aad) }); p != nil {
		vt.Fail(t, rec, "C07:open:panic:"+m.name, "Open panicked on mutation %s: %v\n%v", m.name, p, c.sample())
		return
	}
	if werr == nil {
		if err != nil {
			vt.Fail(t, rec, "C07:open:rejects-authentic:"+m.name, "Open rejected an authentic message (mutation %s): %v\n%v\nct=%x", m.name, err, c.sample(), m.ct)
			return
		}
		if !bytes.Equal(got, want) {
			vt.Fail(t, rec, "C07:open:wrong-plaintext", "Open returned a wrong plaintext (mutation %s)\n%v\n got %x\nwant %x", m.name, c.sample(), got, want)
		}
		return
	}
	if err == nil {
		vt.Fail(t, rec, "C07:open:accepts-forgery:"+m.name, "Open accepted a message that is not authentic (mutation %s) and returned %d bytes\nkey=%x\nnonce=%x\naad=%x\nct=%x", m.name, len(got), c.Key, m.nonce, m.aad, m.ct)
		return
	}
	if got != nil {
		vt.Fail(t, rec, "C07:open:plaintext-with-error:"+m.name, "Open returned an error together with %d bytes of output (mutation %s)", len(got), m.name)
	}
}

// verifProp_C07_Open builds the property (shared by the rapid test and the native fuzz target).
// verifShimAEAD builds the arm64 GCM glue over the amd64 kernels (set by zz_verif_shim_hook_test.go; nil when the driver did not
// generate the copy).
var verifShimAEAD func(key []byte, nonceSize, tagSize int) (cipher.AEAD, error)

func verifProp_C07_Open() func(*rapid.T) { return verifProp_C07_OpenVia(false) }

// The same battery against the Go glue of the arm64 path (length checks, tag handling, dispatch), which no amd64 caller reaches.
func TestVerif_C07_OpenArm64Glue(t *testing.T) {
	t.Cleanup(stats.FlushAll)
	if verifShimAEAD == nil {
		stats.Get("C07", "open-arm64-glue").Skipped("arm64 glue copy not generated")
		t.Skip()
	}
	rapid.Check(t, verifProp_C07_OpenVia(true))
}

func verifProp_C07_OpenVia(shim bool) func(*rapid.T) {
	rec := stats.Get("C07", "open")
	if shim {
		rec = stats.Get("C07", "open-arm64-glue")
	}
	rec.Rule("rapid: a sealed message from the C06 generator (all length classes, nonce lengths, tag sizes, counter wrap), then mutations, each opened from a fresh copy of the ciphertext: none; flip one drawn bit of ciphertext body / tag / nonce / aad (several per message; every tag bit for one message in eight); drop or append 1..20 bytes at either end; truncate the tag by 1..4 bytes under the same AEAD; swap two blocks; strings shorter than the tag (0..tag-1 bytes); extend aad; structured multi-position changes (the same delta at two positions 1/2/4/8 bytes apart in tag or body, a delta repeated with period 4 or 8 over the tag, the two tag halves swapped, an equal delta on both tag halves, 2-3 independent bit flips). Oracle: unchanged -> (plaintext,nil); otherwise err != nil and nil slice, no panic; verdict cross-checked with gcmref.Open. Every evaluation (message x mutation) is one case; non-trivial: any mutated case, or authentic with a tail / wide kernel / non-default tag or nonce; distinct by (message, mutation).")
	return func(t *rapid.T) {
		c := drawGCMCase(t)
		a, err := c.aead()
		if err == errNoGcmAble {
			rec.Skipped("Block.NewGCM not available")
			return
		}
		if err != nil {
			vt.Fail(t, rec, "C07:construct", "construct: %v", err)
			return
		}
		if shim {
			if a, err = verifShimAEAD(c.Key, len(c.Nonce), c.TagSize); err != nil {
				rec.Skipped("arm64 glue copy cannot be constructed here: " + err.Error())
				return
			}
		}
		sealed := c.want() // the reference's output: C06 judges Seal itself
		open := func(n, ct, ad []byte) ([]byte, error) { c.dirty(); return a.Open(nil, n, ct, ad) }
		r := gen.Rand(t, "mutseed")
		var muts []c07Mut
		add := func(name string, n, ct, ad []byte) {
			muts = append(muts, c07Mut{name: name, nonce: n, ct: ct, aad: ad})
		}
		add("none", c.Nonce, sealed, c.AAD)
		flip := func(b []byte, bit int) []byte {
			o := append([]byte(nil), b...)
			o[bit>>3] ^= 0x80 >> uint(bit&7)
			return o
		}
		body := len(sealed) - c.TagSize
		nflips := gen.Int(t, "nflips", 1, 4)
		for i := 0; i < nflips; i++ {
			if body > 0 {
				add("flip-body", c.Nonce, flip(sealed, gen.Uniform(t, "bodybit", 0, body*8-1)), c.AAD)
			}
			add("flip-tag", c.Nonce, flip(sealed, body*8+gen.Uniform(t, "tagbit", 0, c.TagSize*8-1)), c.AAD)
			add("flip-nonce", flip(c.Nonce, gen.Uniform(t, "noncebit", 0, len(c.Nonce)*8-1)), sealed, c.AAD)
			if len(c.AAD) > 0 {
				add("flip-aad", c.Nonce, sealed, flip(c.AAD, gen.Uniform(t, "aadbit", 0, len(c.AAD)*8-1)))
			}
		}
		if gen.Int(t, "alltag", 0, 7) == 0 {
			for bit := 0; bit < c.TagSize*8; bit++ {
				add("flip-tag", c.Nonce, flip(sealed, body*8+bit), c.AAD)
			}
		}
		// structured multi-position changes: the same delta at two positions a fixed distance apart (tag and body), swapped halves /
		// words of the tag, a delta repeated with period 4 or 8 — differences that cancel in a comparison that combines words wrongly
		xorAt := func(b []byte, pos []int, d byte) []byte {
			o := append([]byte(nil), b...)
			for _, p := range pos {
				o[p] ^= d
			}
			return o
		}
		for i := 0; i < 3; i++ {
			dist := []int{1, 2, 4, 8}[gen.Uniform(t, "pairdist", 0, 3)]
			if c.TagSize > dist {
				p0 := gen.Uniform(t, "pairpos", 0, c.TagSize-dist-1)
				add("tag-paired-delta", c.Nonce, xorAt(sealed, []int{body + p0, body + p0 + dist}, byte(gen.Uniform(t, "delta", 1, 255))), c.AAD)
			}
			if body > dist {
				p0 := gen.Uniform(t, "bpairpos", 0, body-dist-1)
				add("body-paired-delta", c.Nonce, xorAt(sealed, []int{p0, p0 + dist}, byte(gen.Uniform(t, "bdelta", 1, 255))), c.AAD)
			}
		}
		for _, period := range []int{4, 8} {
			var pos []int
			for p0 := gen.Uniform(t, "perstart", 0, period-1); p0 < c.TagSize; p0 += period {
				pos = append(pos, body+p0)
			}
			add("tag-periodic-delta", c.Nonce, xorAt(sealed, pos, byte(gen.Uniform(t, "pdelta", 1, 255))), c.AAD)
		}
		if c.TagSize == 16 {
			sw := append([]byte(nil), sealed...)
			copy(sw[body:body+8], sealed[body+8:])
			copy(sw[body+8:], sealed[body:body+8])
			add("tag-halves-swapped", c.Nonce, sw, c.AAD)
			// any tag whose two halves XOR to the same value as the true tag's halves
			r8 := gen.RandBytes(r, 8)
			eq := append([]byte(nil), sealed...)
			for i := 0; i < 8; i++ {
				eq[body+i] ^= r8[i]
				eq[body+8+i] ^= r8[i]
			}
			add("tag-equal-half-delta", c.Nonce, eq, c.AAD)
		}
		{
			// two and three independent bit flips
			o := append([]byte(nil), sealed...)
			for i := 0; i < 2+gen.Uniform(t, "nmulti", 0, 1); i++ {
				bit := gen.Uniform(t, "multibit", 0, len(o)*8-1)
				o[bit>>3] ^= 0x80 >> uint(bit&7)
			}
			add("multi-bit", c.Nonce, o, c.AAD)
		}
		k := gen.Int(t, "k", 1, 20)
		if len(sealed) >= k {
			add("drop-front", c.Nonce, sealed[k:], c.AAD)
			add("drop-back", c.Nonce, sealed[:len(sealed)-k], c.AAD)
		}
		add("append-back", c.Nonce, append(append([]byte(nil), sealed...), gen.RandBytes(r, k)...), c.AAD)
		add("append-front", c.Nonce, append(gen.RandBytes(r, k), sealed...), c.AAD)
		tr := gen.Int(t, "trunc", 1, 4)
		add("truncate-tag", c.Nonce, sealed[:len(sealed)-tr], c.AAD)
		add("shorter-than-tag", c.Nonce, gen.RandBytes(r, gen.Uniform(t, "short", 0, c.TagSize-1)), c.AAD)
		add("tag-only-garbage", c.Nonce, gen.RandBytes(r, c.TagSize), c.AAD)
		if body >= 32 {
			sw := append([]byte(nil), sealed...)
			i, j := gen.Uniform(t, "blk1", 0, body/16-1), gen.Uniform(t, "blk2", 0, body/16-1)
			tmp := append([]byte(nil), sw[16*i:16*i+16]...)
			copy(sw[16*i:], sw[16*j:16*j+16])
			copy(sw[16*j:], tmp)
			add("swap-blocks", c.Nonce, sw, c.AAD)
		}
		add("extend-aad", c.Nonce, sealed, append(append([]byte(nil), c.AAD...), 0))
		if len(c.AAD) > 0 {
			add("shorten-aad", c.Nonce, sealed, c.AAD[:len(c.AAD)-1])
		}
		// aad moved into the ciphertext and vice versa
		if len(c.AAD) > 0 && body > 0 {
			add("aad-ct-boundary", c.Nonce, append(append([]byte(nil), c.AAD[len(c.AAD)-1:]...), sealed...), c.AAD[:len(c.AAD)-1])
		}
		for _, m := range muts {
			nt := m.name != "none" || c.nontrivial()
			rec.Case(stats.Hash(c.Key, m.nonce, m.aad, m.ct, []byte{byte(c.TagSize)}), nt, "mut:"+m.name)
			c07Judge(t, rec, c, open, m)
		}
		if rec.WantSample(c.How) {
			s := c.sample()
			s["mutations"] = fmt.Sprint(len(muts))
			rec.Sample(c.How, s)
		}
	}
}

func TestVerif_C07_Open(t *testing.T) {
	t.Cleanup(stats.FlushAll)
	rapid.Check(t, verifProp_C07_Open())
}

// FuzzVerif_C07_Open drives the same property with Go's coverage-guided fuzzer (thorough tier).
func FuzzVerif_C07_Open(f *testing.F) {
	f.Fuzz(rapid.MakeFuzz(verifProp_C07_Open()))
}
