//go:build amd64

package sm4

// The driver generated the arm64 glue copy in this scratch copy (prep_arm64_glue_shim).
func init() { verifGlueFromLibrary = verifNewGlueGCM }
