//go:build amd64

package sm4

// C09 — SM4/GCM assembly: no key- or data-dependent branch or address.
// The parent test draws a plan of direct calls of the assembly routines (grouped by routine and lengths, several
// contents per group), starts /verif/.build/asmtrace, which runs THIS test binary again as a ptrace'd child that
// performs exactly those calls on fixed buffers, single-steps every call and compares, within each group, the
// sequence of (instruction address, effective addresses of memory operands).

import (
	"encoding/hex"
	"encoding/json"
	"fmt"
	"os"
	"os/exec"
	"path/filepath"
	"runtime"
	"strings"
	"testing"

	"pgregory.net/rapid"
	"verif.local/ref/gcmref"
	"verif.local/ref/gen"
	"verif.local/ref/sm4ref"
	"verif.local/ref/stats"
	"verif.local/ref/vt"
)

type verifC09Entry struct {
	Routine string `json:"routine"`
	Group   string `json:"group"`
	Label   string `json:"label"`
	Op      string `json:"op"`
	W       int    `json:"w"`
	Dec     bool   `json:"dec"`
	N       int    `json:"n"`
	PL      int    `json:"pl"`
	AL      int    `json:"al"`
	NL      int    `json:"nl"`
	Tag     int    `json:"tag"`
	KeyC    string `json:"keyc"`
	NonceC  string `json:"noncec"`
	AadC    string `json:"aadc"`
	TextC   string `json:"textc"`
	Forge   int    `json:"forge"` // -1 authentic, else index of the tag byte that is changed
}

// fixed buffers: their addresses are the same for every call of the child process
var (
	verifC09Key   [16]byte
	verifC09Enc   [32]uint32
	verifC09Dec   [32]uint32
	verifC09Src   [8500]byte
	verifC09Dst   [8500]byte
	verifC09Nonce [320]byte
	verifC09Aad   [8500]byte
	verifC09Temp  [128]byte
	verifC09H     [16]byte
	verifC09Tag   [16]byte
)

// verifFill fills b according to a content spec: "zero", "ff", "seed:<n>", "bit:<k>", "aa55".
func verifFill(b []byte, spec string, salt uint64) {
	var n uint64
	switch {
	case spec == "zero":
		for i := range b {
			b[i] = 0
		}
	case spec == "ff":
		for i := range b {
			b[i] = 0xff
		}
	case spec == "aa55":
		for i := range b {
			b[i] = 0xaa ^ byte(i&1*0xff)
		}
	case len(spec) > 4 && spec[:4] == "hex:":
		hb, _ := hex.DecodeString(spec[4:])
		copy(b, hb)
	case len(spec) > 4 && spec[:4] == "bit:":
		fmt.Sscanf(spec[4:], "%d", &n)
		for i := range b {
			b[i] = 0
		}
		if len(b) > 0 {
			k := int(n) % (8 * len(b))
			b[k>>3] = 0x80 >> uint(k&7)
		}
	default:
		fmt.Sscanf(spec, "seed:%d", &n)
		x := n*0x9E3779B97F4A7C15 + salt*0xD1B54A32D192ED03 + 1
		for i := range b {
			x ^= x << 13
			x ^= x >> 7
			x ^= x << 17
			b[i] = byte(x >> 32)
		}
	}
}

// verifGhz splits a text content spec "ghz:<stage>:<spec>" (GHASH accumulator crafted to be zero at a stage).
func verifGhz(spec string) (stage, rest string) {
	if strings.HasPrefix(spec, "ghz:") {
		p := strings.SplitN(spec, ":", 3)
		if len(p) == 3 {
			return p[1], p[2]
		}
	}
	return "", spec
}

func TestVerif_C09_Child(t *testing.T) {
	if os.Getenv("VERIF_C09_CHILD") == "" {
		t.Skip("only run as the traced child of TestVerif_C09_Trace")
	}
	runtime.LockOSThread()
	b, err := os.ReadFile(os.Getenv("VERIF_C09_PLAN"))
	if err != nil {
		t.Fatal(err)
	}
	var plan []verifC09Entry
	if err := json.Unmarshal(b, &plan); err != nil {
		t.Fatal(err)
	}
	for _, e := range plan {
		verifFill(verifC09Key[:], e.KeyC, 1)
		var rki int
		var rkv uint32
		if n, _ := fmt.Sscanf(e.KeyC, "rk:%d:%x", &rki, &rkv); n == 2 {
			// a key CRAFTED (key schedule run backwards) so that round key rki has the extreme value rkv
			copy(verifC09Key[:], sm4ref.KeyForRoundKey(rki, rkv, [3]uint32{0x9e3779b9, 0x7f4a7c15, uint32(rki) * 0x01000193}))
		}
		expandKey(verifC09Key[:], &verifC09Enc, &verifC09Dec) // portable Go code: not traced
		switch e.Op {
		case "expandKey":
			var enc, dec [32]uint32
			expandKeyAsm(&verifC09Key[0], &verifC09Enc[0], &verifC09Dec[0])
			_, _ = enc, dec
		case "block":
			verifFill(verifC09Src[:16*e.W], e.TextC, 2)
			rk := &verifC09Enc
			if e.Dec {
				rk = &verifC09Dec
			}
			switch e.W {
			case 1:
				cryptoBlockAsm(&rk[0], &verifC09Dst[0], &verifC09Src[0])
			case 2:
				cryptoBlockAsmX2(&rk[0], &verifC09Dst[0], &verifC09Src[0])
			case 4:
				cryptoBlockAsmX4(&rk[0], &verifC09Dst[0], &verifC09Src[0])
			case 8:
				cryptoBlockAsmX8(&rk[0], &verifC09Dst[0], &verifC09Src[0])
			case 16:
				cryptoBlockAsmX16(&rk[0], &verifC09Dst[0], &verifC09Src[0])
			}
		case "ghash":
			verifFill(verifC09H[:], e.KeyC, 3)
			verifFill(verifC09Tag[:], e.AadC, 4)
			stage, spec := verifGhz(e.TextC)
			verifFill(verifC09Src[:16*e.N], spec, 5)
			if stage != "" {
				copy(verifC09Src[:16], verifC09Tag[:]) // first block = incoming accumulator: the accumulator is 0 after the first xor
			}
			gHashBlocks(&verifC09H[0], &verifC09Tag[0], &verifC09Src[0], e.N)
		case "copy":
			verifFill(verifC09Src[:e.N+1], e.TextC, 6)
			copyAsm(&verifC09Dst[0], &verifC09Src[0], e.N)
		case "seal", "open":
			verifFill(verifC09Nonce[:e.NL], e.NonceC, 7)
			verifFill(verifC09Aad[:e.AL], e.AadC, 8)
			stage, spec := verifGhz(e.TextC)
			verifFill(verifC09Src[:e.PL], spec, 9)
			nonce, aad := verifC09Nonce[:e.NL], verifC09Aad[:e.AL]
			if stage != "" && e.PL >= 16 {
				// plaintext CRAFTED (pure Go, not traced) so that the GHASH accumulator of this very message is zero at a chosen stage
				ref := sm4ref.New(verifC09Key[:])
				ct := gcmref.Seal(ref, nonce, verifC09Src[:e.PL], aad, 16)[:e.PL]
				h := gcmref.HashKey(ref)
				var c1 []byte
				switch stage {
				case "len": // accumulator == length block just before it is xored in: the last multiplication sees zero
					c1 = gcmref.SolveFirstBlock(h, aad, ct, gcmref.LenBlock(e.AL, e.PL))
				case "mid": // accumulator zero after the last ciphertext block
					c1 = gcmref.SolveFirstBlock(h, aad, ct, make([]byte, 16))
				default: // "blk1": accumulator zero after the first ciphertext block
					g := gcmref.NewGHashStream(h)
					g.Blocks(aad)
					c1 = g.State()
				}
				for i := 0; i < 16; i++ {
					verifC09Src[i] ^= ct[i] ^ c1[i] // pt' = pt xor ct xor c1 = keystream xor c1
				}
			}
			if e.Op == "seal" {
				sealAsm(&verifC09Enc[0], e.Tag, &verifC09Dst[0], nonce, verifC09Src[:e.PL], aad, &verifC09Temp[0])
				continue
			}
			// a valid sealed message from the reference implementation (pure Go, not traced)
			sealed := gcmref.Seal(sm4ref.New(verifC09Key[:]), nonce, verifC09Src[:e.PL], aad, e.Tag)
			copy(verifC09Src[:], sealed)
			if e.Forge >= 0 {
				verifC09Src[e.PL+e.Forge%e.Tag] ^= byte(1 + e.Forge/e.Tag)
			}
			ok := openAsm(&verifC09Enc[0], e.Tag, &verifC09Dst[0], nonce, verifC09Src[:e.PL+e.Tag], aad, &verifC09Temp[0])
			if (ok == 1) != (e.Forge < 0) {
				t.Fatalf("plan/child mismatch: openAsm returned %d for forge=%d", ok, e.Forge)
			}
		}
	}
}

func TestVerif_C09_Trace(t *testing.T) {
	rec := stats.Get("C09", "asm-traces")
	rec.Rule("rapid draws groups (routine, lengths[, verdict]): expandKeyAsm; cryptoBlockAsm x1/x2/x4/x8/x16 with enc and dec keys; gHashBlocks count 1..20; copyAsm; sealAsm/openAsm with plaintext/aad lengths from the kernel-combination generator (0..1100), nonce length {12,1,8,16,17,128,130}, tag 12..16, and for openAsm authentic vs forged; each group is executed with 6-8 content variants drawn from {two uniform seeds, all-00, all-FF, AA55, single bit} independently for key, nonce, aad and text, plus keys CRAFTED by running the key schedule backwards so that one round key (index 0,1,2,3,4,15,16,28..31) is 00000000 or ffffffff (and, for forged messages, different positions/values of the wrong tag byte); in every seal/open group with at least one full block (and every gHashBlocks group) two or three variants carry a message CRAFTED in GF(2^128) so that the GHASH accumulator is zero at a stage (equal to the length block before it is folded in, zero after the last or the first ciphertext block); one group in three of seal/open uses a fixed 16-byte nonce solved in GF(2^128) so that under variant 0's key the block counter wraps inside the message while under the other keys it does not. A ptrace single-stepper records for every executed instruction its address and the effective address of every memory operand (decoded from objdump); stack addresses are taken relative to the entry stack pointer. Oracle: within a group all traces are identical. One case = one traced call; non-trivial: every call in a group with >= 3 variants including an extreme content; distinct by (group, contents).")
	t.Cleanup(stats.FlushAll)
	if !candoAsm {
		rec.Skipped("CPU lacks GFNI/AVX512/VPCLMULQDQ: the assembly cannot be executed here")
		t.Skip()
	}
	tool := filepath.Join(os.Getenv("VERIF_DIR"), ".build", "asmtrace")
	if _, err := os.Stat(tool); err != nil {
		rec.Skipped("INCONCLUSIVE: asmtrace tool not built: " + err.Error())
		t.Skip()
	}
	var plan []verifC09Entry
	var pending []func() // cases are only counted once the tracer has actually traced them
	contents := []string{"seed:1", "seed:2", "zero", "ff", "aa55", "bit:5", "bit:77"}
	// keys whose round key i is 0 / all ones (found by running the key schedule backwards): a branch or address that depends on
	// one round-key word shows only for such keys (probability 2^-32 under uniform keys)
	var crafted []string
	for _, i := range []int{0, 1, 2, 3, 4, 15, 16, 28, 29, 30, 31} {
		crafted = append(crafted, fmt.Sprintf("rk:%d:00000000", i), fmt.Sprintf("rk:%d:ffffffff", i))
	}
	rapid.Check(t, func(t *rapid.T) {
		pick := func(label string) string { return contents[gen.Uniform(t, label, 0, len(contents)-1)] }
		op := gen.Pick(t, "op", "expandKey", "block", "block", "ghash", "copy", "seal", "seal", "seal", "open", "open", "open")
		nv := gen.Int(t, "variants", 6, 8)
		base := verifC09Entry{Op: op, Forge: -1}
		switch op {
		case "expandKey":
			base.Routine, base.Group = "expandKeyAsm", "expandKeyAsm"
		case "block":
			base.W = []int{1, 2, 4, 8, 16}[gen.Uniform(t, "w", 0, 4)]
			base.Dec = gen.Bool(t, "dec")
			base.Routine = map[int]string{1: "cryptoBlockAsm", 2: "cryptoBlockAsmX2", 4: "cryptoBlockAsmX4", 8: "cryptoBlockAsmX8", 16: "cryptoBlockAsmX16"}[base.W]
			base.Group = fmt.Sprintf("%s dec=%v", base.Routine, base.Dec)
		case "ghash":
			base.N = gen.Int(t, "blocks", 1, 20)
			base.Routine, base.Group = "gHashBlocks", fmt.Sprintf("gHashBlocks n=%d", base.N)
		case "copy":
			base.N = gen.Uniform(t, "n", 0, 70)
			base.Routine, base.Group = "copyAsm", fmt.Sprintf("copyAsm n=%d", base.N)
		case "seal", "open":
			base.PL, _ = verifLen(t, "pt")
			base.AL, _ = verifLen(t, "aad")
			if gen.Bool(t, "aadsmall") {
				base.AL = gen.Uniform(t, "aadn", 0, 20)
			}
			base.NL = []int{12, 12, 1, 8, 16, 17, 128, 130}[gen.Uniform(t, "nl", 0, 7)]
			base.Tag = gen.Uniform(t, "tag", 12, 16)
			base.Routine = op + "Asm"
			forged := op == "open" && gen.Bool(t, "forged")
			base.Group = fmt.Sprintf("%sAsm pt=%d aad=%d nonce=%d tag=%d", op, base.PL, base.AL, base.NL, base.Tag)
			if op == "open" {
				base.Group += fmt.Sprintf(" forged=%v", forged)
			}
			if forged {
				base.Forge = 0
			}
		}
		// counter-wrap groups: a 16-byte nonce SOLVED (for the key of variant 0) so that the 32-bit block counter wraps inside the
		// message; every variant uses that same nonce with its own key, i.e. an ordinary counter — a branch on the counter value
		// (which depends on the hash key, hence on the key) makes the traces differ
		wrapNonce := ""
		if (op == "seal" || op == "open") && gen.Int(t, "wrapgroup", 0, 1) == 0 {
			// ... or so that the pre-counter block J0 itself — GHASH_H(nonce) for such nonces, a function of the hash key — is a
			// special block under variant 0's key: all zero, all ones, or the 0^96||1 a 12-byte zero nonce would give
			j0kind := gen.Pick(t, "j0kind", "wraps", "wraps", "zero", "zero", "zero", "ones", "0^96||1")
			if base.PL < 16 && j0kind == "wraps" {
				j0kind = "zero"
			}
			base.NL = 16
			var k0 [16]byte
			verifFill(k0[:], "seed:1", 1)
			j0 := make([]byte, 16)
			switch j0kind {
			case "wraps":
				verifFill(j0, "seed:3", 11)
				j := gen.Uniform(t, "wrapdist", 0, (base.PL+15)/16-1)
				j0[12], j0[13], j0[14], j0[15] = 0xff, 0xff, 0xff, byte(0xff-j)
				if j > 255 {
					j0[14], j0[15] = byte(0xff-j>>8), byte(0xff-j)
				}
			case "ones":
				for i := range j0 {
					j0[i] = 0xff
				}
			case "0^96||1":
				j0[15] = 1
			}
			wrapNonce = "hex:" + hex.EncodeToString(gcmref.SolveNonce16(sm4ref.New(k0[:]), j0))
			base.Group = fmt.Sprintf("%sAsm pt=%d aad=%d nonce=16(fixed, J0 %s for variant 0) tag=%d forged=%v", op, base.PL, base.AL, base.Tag, base.Forge >= 0)
		}
		extreme := false
		var es []verifC09Entry
		for v := 0; v < nv; v++ {
			e := base
			e.KeyC, e.NonceC, e.AadC, e.TextC = pick("keyc"), pick("noncec"), pick("aadc"), pick("textc")
			if v == 0 {
				e.KeyC, e.NonceC, e.AadC, e.TextC = "seed:1", "seed:1", "seed:1", "seed:1"
			}
			switch v {
			case nv - 1:
				e.KeyC = "rk:31:00000000" // last round key zero
			case nv - 2:
				e.KeyC = "rk:0:00000000" // first round key zero
			case nv - 3:
				e.KeyC = crafted[gen.Uniform(t, "crafted", 0, len(crafted)-1)]
			}
			if wrapNonce != "" {
				e.NonceC = wrapNonce
			}
			// messages CRAFTED so that the GHASH accumulator is zero at a stage (before the length block is multiplied in, after the
			// last / the first ciphertext block): a "skip the multiplication when the operand is zero" shortcut shows only there
			if ((op == "seal" || op == "open") && base.PL >= 16) || op == "ghash" {
				switch v {
				case 1:
					e.TextC = "ghz:len:" + e.TextC
				case 2:
					e.TextC = "ghz:mid:" + e.TextC
				case 3:
					if gen.Bool(t, "ghzblk1") {
						e.TextC = "ghz:blk1:" + e.TextC
					}
				}
			}
			if base.Forge >= 0 {
				e.Forge = gen.Uniform(t, "forgepos", 0, 16*3-1) // tag byte (mod tag size) and xor value 1..3
				if v == 1 {
					e.Forge = 0 // first tag byte
				}
				if v == 2 {
					e.Forge = base.Tag - 1 // last tag byte
				}
			}
			e.Label = fmt.Sprintf("key=%s nonce=%s aad=%s text=%s forge=%d", e.KeyC, e.NonceC, e.AadC, e.TextC, e.Forge)
			if e.KeyC[0] != 's' || e.TextC[0] != 's' || e.NonceC[0] != 's' || e.AadC[0] != 's' {
				extreme = true
			}
			es = append(es, e)
		}
		for _, e := range es {
			e := e
			pending = append(pending, func() { rec.Case(stats.HashS(e.Group, e.Label), nv >= 3 && extreme, "routine:"+e.Routine) })
		}
		if rec.WantSample(base.Routine) {
			rec.Sample(base.Routine, map[string]interface{}{"group": base.Group, "variants": func() []string {
				var l []string
				for _, e := range es {
					l = append(l, e.Label)
				}
				return l
			}()})
		}
		plan = append(plan, es...)
	})
	if t.Failed() || len(plan) == 0 {
		return
	}
	dir := t.TempDir()
	planPath, outPath := filepath.Join(dir, "plan.json"), filepath.Join(dir, "result.json")
	pb, _ := json.Marshal(plan)
	os.WriteFile(planPath, pb, 0o644)
	exe, _ := os.Executable()
	cmd := exec.Command(tool, "-bin", exe, "-plan", planPath, "-out", outPath, "--", "-test.run", "^TestVerif_C09_Child$", "-test.timeout", "3000s")
	cmd.Env = append(os.Environ(), "VERIF_C09_CHILD=1", "VERIF_C09_PLAN="+planPath, "GOMAXPROCS=1", "GOGC=off", "GODEBUG=asyncpreemptoff=1", "VERIF_STATS_DIR=")
	out, err := cmd.CombinedOutput()
	rb, rerr := os.ReadFile(outPath)
	if rerr != nil {
		// the tracer could not do its work (ptrace not permitted, objdump missing, child died): inconclusive, never a violation
		rec.Skipped(fmt.Sprintf("INCONCLUSIVE: tracer failed (%v): %s", err, string(out)))
		t.Skipf("HARNESS-INCONCLUSIVE: tracer failed: %v\n%s", err, out)
	}
	var res struct {
		Groups []struct {
			Group    string `json:"group"`
			Entries  int    `json:"entries"`
			Steps    int    `json:"steps"`
			Mismatch *struct {
				Group, LabelA, LabelB string
				StepsA, StepsB, At    int
				What                  string
			} `json:"mismatch"`
		} `json:"groups"`
		Calls, Steps  int
		PlanEntries   int      `json:"plan_entries"`
		ChildExit     int      `json:"child_exit"`
		VectorIndexed []string `json:"vector_indexed_operands"`
		Suppressed    int      `json:"signals_suppressed_while_stepping"`
	}
	if err := json.Unmarshal(rb, &res); err != nil {
		t.Skipf("HARNESS-INCONCLUSIVE: bad tracer output: %v", err)
	}
	if err != nil || res.Calls != len(plan) {
		rec.Skipped(fmt.Sprintf("INCONCLUSIVE: tracer incomplete: %v, %d of %d calls: %s", err, res.Calls, len(plan), string(out)))
		t.Skipf("HARNESS-INCONCLUSIVE: tracer incomplete: %v\n%s", err, out)
	}
	for _, f := range pending {
		f()
	}
	rec.Note("traced %d calls in %d groups, %d single-stepped instructions; %d signals suppressed while stepping", res.Calls, len(res.Groups), res.Steps, res.Suppressed)
	for _, v := range res.VectorIndexed {
		rec.Note("vector-indexed memory operand (address not evaluated): %s", v)
	}
	for _, g := range res.Groups {
		if g.Mismatch != nil {
			m := g.Mismatch
			desc := map[string]interface{}{"group": m.Group, "contents_A": m.LabelA, "contents_B": m.LabelB, "steps_A": m.StepsA, "steps_B": m.StepsB, "first_difference_at_step": m.At, "what": m.What, "test": "TestVerif_C09_Trace"}
			rec.Violation("C09:data-dependent-trace", desc)
			vt.Fail(t, rec, "C09:data-dependent-trace", "assembly trace depends on data in group [%s]\ncontents A: %s (%d instructions)\ncontents B: %s (%d instructions)\nfirst difference at step %d: %s", m.Group, m.LabelA, m.StepsA, m.LabelB, m.StepsB, m.At, m.What)
		}
	}
}
