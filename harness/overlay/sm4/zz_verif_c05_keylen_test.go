//go:build amd64 || arm64

package sm4_test

// C05 — key lengths that ALIAS 16 when the length is narrowed: 16 + 2^8, 16 + 2^16, 16 + 2^31, 16 + 2^32, 16 + 2^33 (and
// neighbours). The key slices are views of a read-only anonymous mapping, so nothing is committed; the call must fail at once.

import (
	"fmt"
	"syscall"
	"testing"

	"github.com/bilibili/smgo/sm4"
	"verif.local/ref/stats"
	"verif.local/ref/vt"
)

func TestVerif_C05_KeySizeAliasing(t *testing.T) {
	rec := stats.Get("C05", "keysize-aliasing")
	rec.Rule("complete list: key lengths 16+2^k and 16+2^k±1 for k in {8,16,24,31,32,33}, 2^k for the same k, and 2^32-16: NewCipher must return KeySizeError and a nil Block (slices of a read-only anonymous mapping; 16 bytes themselves must be accepted). Every case non-trivial (a length that equals 16 modulo a machine word size); distinct by length.")
	rec.Exhaustive(true)
	t.Cleanup(stats.FlushAll)
	const max = 1<<33 + 4096
	mem, err := syscall.Mmap(-1, 0, max, syscall.PROT_READ, syscall.MAP_ANON|syscall.MAP_PRIVATE|syscall.MAP_NORESERVE)
	if err != nil {
		rec.Skipped("cannot map 8 GiB of address space: " + err.Error())
		return
	}
	defer syscall.Munmap(mem)
	var lens []int
	for _, k := range []uint{8, 16, 24, 31, 32, 33} {
		lens = append(lens, 1<<k, 1<<k+15, 1<<k+16, 1<<k+17)
	}
	lens = append(lens, 1<<32-16, 16)
	for _, n := range lens {
		var c interface{ BlockSize() int }
		var err error
		if p := vt.Catch(func() { c, err = sm4.NewCipher(mem[:n]) }); p != nil {
			vt.Fail(t, rec, "C05:keysize:panic", "NewCipher(%d-byte key) panicked: %v", n, p)
			continue
		}
		rec.Enumerated(1, fmt.Sprintf("ok:%v", n == 16))
		if n == 16 {
			if err != nil || c == nil {
				vt.Fail(t, rec, "C05:newcipher:error", "NewCipher(16 bytes) failed: %v", err)
			}
			continue
		}
		if _, ok := err.(sm4.KeySizeError); !ok || c != nil {
			vt.Fail(t, rec, "C05:keysize:accepted", "NewCipher accepted a %d-byte key (= 16 modulo a power of two): returned (%v, %v), want (nil, KeySizeError)", n, c, err)
		}
	}
	rec.Sample("keysize-aliasing", map[string]interface{}{"lengths": fmt.Sprint(lens)})
}
