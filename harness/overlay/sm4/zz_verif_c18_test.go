package sm4

// C18 (SM4 part) — S-box, T-tables, CK, FK, and the constants embedded in the assembly files.

import (
	"fmt"
	"os"
	"regexp"
	"strconv"
	"testing"

	"verif.local/ref/sm4ref"
	"verif.local/ref/stats"
	"verif.local/ref/vt"
)

var verifDataRe = regexp.MustCompile(`(?m)^\s*DATA\s+(\w+)<>\+(0x[0-9a-fA-F]+|\d+)\(SB\)/(\d+),\s*\$(0x[0-9a-fA-F]+|\d+)`)
var verifDefRe = regexp.MustCompile(`(?m)^#define\s+(\w+)\s+(0b[01]+|0x[0-9a-fA-F]+)\s*$`)

// verifParseAsm returns the bytes of every DATA symbol of an assembly file and its numeric #defines.
func verifParseAsm(path string) (map[string][]byte, map[string]uint64, error) {
	b, err := os.ReadFile(path)
	if err != nil {
		return nil, nil, err
	}
	syms := map[string][]byte{}
	for _, m := range verifDataRe.FindAllStringSubmatch(string(b), -1) {
		off, _ := strconv.ParseUint(m[2], 0, 64)
		w, _ := strconv.Atoi(m[3])
		v, _ := strconv.ParseUint(m[4], 0, 64)
		s := syms[m[1]]
		for len(s) < int(off)+w {
			s = append(s, 0)
		}
		for i := 0; i < w; i++ {
			s[int(off)+i] = byte(v >> uint(8*i))
		}
		syms[m[1]] = s
	}
	defs := map[string]uint64{}
	for _, m := range verifDefRe.FindAllStringSubmatch(string(b), -1) {
		v, err := strconv.ParseUint(m[2], 0, 64)
		if err == nil {
			defs[m[1]] = v
		}
	}
	return syms, defs, nil
}

// aesInv is inversion in GF(2^8) modulo x^8+x^4+x^3+x+1 (what VGF2P8AFFINEINVQB uses).
func verifAesMul(a, b byte) byte {
	var r byte
	for i := 0; i < 8; i++ {
		if b&1 == 1 {
			r ^= a
		}
		hi := a & 0x80
		a <<= 1
		if hi != 0 {
			a ^= 0x1b
		}
		b >>= 1
	}
	return r
}
func verifAesInv(a byte) byte {
	if a == 0 {
		return 0
	}
	r := byte(1)
	for i := 0; i < 254; i++ {
		r = verifAesMul(r, a)
	}
	return r
}

// verifGfniAffine emulates one byte lane of VGF2P8AFFINEQB (Intel SDM): result bit i = parity(matrix.byte[7-i] AND x) XOR imm bit i.
func verifGfniAffine(matrix uint64, x, imm byte) byte {
	var y byte
	for i := uint(0); i < 8; i++ {
		row := byte(matrix >> (8 * (7 - i)))
		v := row & x
		v ^= v >> 4
		v ^= v >> 2
		v ^= v >> 1
		y |= (v & 1) << i
	}
	return y ^ imm
}

func TestVerif_C18_SM4Constants(t *testing.T) {
	rec := stats.Get("C18", "sm4-constants")
	rec.Exhaustive(true)
	rec.Rule("complete enumeration: sbox[x] = algebraic S-box (affine, inversion mod 0x1F5, affine) for all 256 x; s_k[x] = L(sbox[x] << 8(3-k)) for k=0..3 (1024 entries); ck[i] bytes (4i+j)*7 mod 256; fk = A3B1BAC6 56AA3350 677D9197 B27022DC; from the assembly sources (DATA directives and #defines parsed from com_amd64.s, asm_amd64.s, gcm_amd64.s, asm_arm64.s): FK/CK copies, the arm64 SBox copy, the GFNI pre/post affine matrices and constants (an emulation of VGF2P8AFFINEQB / VGF2P8AFFINEINVQB with them must reproduce all 256 S-box entries), byte-shuffle masks, nibble bit-reversal table, counter increments, GCM_POLY = 0x87. A symbol not found is reported as skipped. Every entry a case; all non-trivial.")
	t.Cleanup(stats.FlushAll)
	for x := 0; x < 256; x++ {
		w := sm4ref.Sbox(byte(x))
		rec.Enumerated(1, "sbox")
		if sbox[x] != w {
			vt.Fail(t, rec, "C18:sm4:sbox", "sbox[%#02x] = %#02x, algebraic S-box gives %#02x", x, sbox[x], w)
		}
		for k, tab := range []*[256]uint32{&s0, &s1, &s2, &s3} {
			rec.Enumerated(1, fmt.Sprintf("s%d", k))
			want := sm4ref.L(uint32(w) << uint(8*(3-k)))
			if tab[x] != want {
				vt.Fail(t, rec, fmt.Sprintf("C18:sm4:s%d", k), "s%d[%#02x] = %08x, L(sbox<<%d) = %08x", k, x, tab[x], 8*(3-k), want)
			}
		}
	}
	for i := 0; i < 32; i++ {
		rec.Enumerated(1, "ck")
		if ck[i] != sm4ref.CK(i) {
			vt.Fail(t, rec, "C18:sm4:ck", "ck[%d] = %08x, formula gives %08x", i, ck[i], sm4ref.CK(i))
		}
	}
	for i, v := range []uint32{fk0, fk1, fk2, fk3} {
		rec.Enumerated(1, "fk")
		if v != sm4ref.FK[i] {
			vt.Fail(t, rec, "C18:sm4:fk", "fk%d = %08x, standard says %08x", i, v, sm4ref.FK[i])
		}
	}
	rec.Sample("sbox", map[string]interface{}{"x": "0x00..0xff", "sbox[0]": sbox[0], "s0[0]": s0[0]})

	// ---- constants embedded in the assembly sources
	le32 := func(b []byte, i int) uint32 {
		return uint32(b[4*i]) | uint32(b[4*i+1])<<8 | uint32(b[4*i+2])<<16 | uint32(b[4*i+3])<<24
	}
	files := map[string]map[string][]byte{}
	defs := map[string]uint64{}
	for _, f := range []string{"com_amd64.s", "asm_amd64.s", "gcm_amd64.s", "asm_arm64.s", "gcm_arm64.s"} {
		syms, d, err := verifParseAsm(f)
		if err != nil {
			rec.Skipped("cannot read " + f + ": " + err.Error())
			continue
		}
		files[f] = syms
		for k, v := range d {
			defs[f+":"+k] = v
		}
	}
	get := func(file, sym string, n int) []byte {
		s, ok := files[file][sym]
		if !ok || len(s) != n {
			rec.Skipped(fmt.Sprintf("%s: symbol %s (%d bytes) not found by name — not judged", file, sym, n))
			return nil
		}
		return s
	}
	for _, f := range []string{"asm_amd64.s", "asm_arm64.s"} {
		if b := get(f, "FK", 16); b != nil {
			for i := 0; i < 4; i++ {
				rec.Enumerated(1, f+":FK")
				if le32(b, i) != sm4ref.FK[i] {
					vt.Fail(t, rec, "C18:asm:"+f+":FK", "%s FK[%d] = %08x, want %08x", f, i, le32(b, i), sm4ref.FK[i])
				}
			}
		}
		if b := get(f, "CK", 128); b != nil {
			for i := 0; i < 32; i++ {
				rec.Enumerated(1, f+":CK")
				if le32(b, i) != sm4ref.CK(i) {
					vt.Fail(t, rec, "C18:asm:"+f+":CK", "%s CK[%d] = %08x, want %08x", f, i, le32(b, i), sm4ref.CK(i))
				}
			}
		}
	}
	if b := get("asm_arm64.s", "SBox", 256); b != nil {
		for x := 0; x < 256; x++ {
			rec.Enumerated(1, "asm_arm64.s:SBox")
			if b[x] != sm4ref.Sbox(byte(x)) {
				vt.Fail(t, rec, "C18:asm:arm64:SBox", "arm64 SBox byte %#02x = %#02x, want %#02x", x, b[x], sm4ref.Sbox(byte(x)))
			}
		}
	}
	pre, post := get("com_amd64.s", "PreAffineMatrix", 8), get("com_amd64.s", "PostAffineMatrix", 8)
	pc, okc1 := defs["com_amd64.s:PreAffineConstant"]
	qc, okc2 := defs["com_amd64.s:PostAffineConstant"]
	if pre != nil && post != nil && okc1 && okc2 {
		le64 := func(b []byte) uint64 {
			var v uint64
			for i := 7; i >= 0; i-- {
				v = v<<8 | uint64(b[i])
			}
			return v
		}
		pm, qm := le64(pre), le64(post)
		for x := 0; x < 256; x++ {
			rec.Enumerated(1, "gfni-sbox")
			got := verifGfniAffine(qm, verifAesInv(verifGfniAffine(pm, byte(x), byte(pc))), byte(qc))
			if got != sm4ref.Sbox(byte(x)) {
				vt.Fail(t, rec, "C18:asm:gfni-affine", "GFNI pre/post affine constants do not realise the S-box: x=%#02x gives %#02x, want %#02x (PreAffineMatrix=%016x const=%#02x PostAffineMatrix=%016x const=%#02x)", x, got, sm4ref.Sbox(byte(x)), pm, pc, qm, qc)
				break
			}
		}
	} else {
		rec.Skipped("GFNI affine matrices/constants not found by name — not judged")
	}
	perm := func(file, sym string, f func(i int) byte) {
		if b := get(file, sym, 16); b != nil {
			for i := 0; i < 16; i++ {
				rec.Enumerated(1, file+":"+sym)
				if b[i] != f(i) {
					vt.Fail(t, rec, "C18:asm:"+sym, "%s %s byte %d = %#02x, want %#02x", file, sym, i, b[i], f(i))
				}
			}
		}
	}
	perm("com_amd64.s", "Shuffle", func(i int) byte { return byte(i&^3 | (3 - i&3)) }) // byte reversal within each 32-bit word
	perm("gcm_amd64.s", "Shuffle1", func(i int) byte { return byte(i&8 | (7 - i&7)) }) // byte reversal within each 64-bit half
	perm("gcm_amd64.s", "Shuffle2", func(i int) byte { return byte(15 - i) })          // full byte reversal
	perm("gcm_amd64.s", "AND_MASK", func(i int) byte { return 0x0f })                  // low-nibble mask
	perm("gcm_amd64.s", "LOWER_MASK", func(i int) byte {                               // 4-bit bit reversal table
		return byte(i&1<<3 | i&2<<1 | i&4>>1 | i&8>>3)
	})
	if b := get("gcm_amd64.s", "GCM_POLY", 16); b != nil {
		rec.Enumerated(1, "GCM_POLY")
		ok := b[0] == 0x87
		for i := 1; i < 16; i++ {
			ok = ok && b[i] == 0
		}
		if !ok {
			vt.Fail(t, rec, "C18:asm:GCM_POLY", "GCM_POLY = %x, the GHASH reduction constant is 0x87", b)
		}
	}
	for sym, incs := range map[string][4]uint32{"Counter_Add1": {1, 2, 3, 4}, "Counter_Add2": {4, 4, 4, 4}, "Counter_Add3": {2, 2, 2, 2}} {
		if b := get("gcm_amd64.s", sym, 64); b != nil {
			for lane := 0; lane < 4; lane++ {
				for w := 0; w < 4; w++ {
					rec.Enumerated(1, sym)
					want := uint32(0)
					if w == 3 {
						want = incs[lane]
					}
					if le32(b, 4*lane+w) != want {
						vt.Fail(t, rec, "C18:asm:"+sym, "%s lane %d word %d = %08x, want %08x (counter increment in the last word of each block)", sym, lane, w, le32(b, 4*lane+w), want)
					}
				}
			}
		}
	}
}
