//go:build amd64

package sm4_test

import "github.com/bilibili/smgo/sm4"

// The driver generated the amd64-buildable copy of the arm64 GCM glue in this scratch copy (prep_arm64_glue_shim).
func init() { verifShimAEAD = sm4.VerifNewGlueGCM }
