//go:build amd64

package sm4

// C11 (in-package part) — every pointer argument of every assembly routine, and the cipher object itself,
// laid against an inaccessible page; portable-path short buffers.

import (
	"bytes"
	"fmt"
	"testing"
	"unsafe"

	"pgregory.net/rapid"
	"verif.local/ref/gcmref"
	"verif.local/ref/gen"
	"verif.local/ref/guard"
	"verif.local/ref/sm4ref"
	"verif.local/ref/stats"
	"verif.local/ref/vt"
)

type verifGArg struct {
	name, place string
	buf         *guard.Buf
}

func verifPlace(t *rapid.T, name string, content []byte) *verifGArg {
	a := &verifGArg{name: name, place: gen.Pick(t, name+".place", "end", "end", "end-overcap", "start")}
	if a.place == "end" {
		a.buf = guard.End(len(content)).Fill(content)
	} else if a.place == "end-overcap" {
		a.buf = guard.End(len(content)).Fill(content).OverCap(gen.Uniform(t, name+".over", 1, 64))
	} else {
		a.buf = guard.Start(len(content)).Fill(content)
	}
	return a
}

func (a *verifGArg) p() *byte     { return (*byte)(a.buf.Ptr()) }
func (a *verifGArg) p32() *uint32 { return (*uint32)(a.buf.Ptr()) }
func verifBlame(f *guard.Fault, args []*verifGArg) (string, string) {
	for _, a := range args {
		if w := a.buf.Where(f.Addr); w != "" {
			return a.name, fmt.Sprintf("%s(%s): %s", a.name, a.place, w)
		}
	}
	return "other", fmt.Sprintf("address %#x", f.Addr)
}

func rkBytes(rk *[32]uint32) []byte {
	return append([]byte(nil), (*[128]byte)(unsafe.Pointer(rk))[:]...)
}

func TestVerif_C11_AsmRoutines(t *testing.T) {
	rec := stats.Get("C11", "asm-routines")
	rec.Rule("rapid: each assembly routine called directly with EVERY pointer argument in guarded memory of exactly the size the routine is entitled to (ending at, or starting after, a PROT_NONE page): expandKeyAsm(key 16, enc 128, dec 128); cryptoBlockAsm/X2/X4/X8/X16(rk 128, dst 16w, src 16w) with enc and dec keys; gHashBlocks(H 16, tag 16, data 16n); sealAsm/openAsm(rk 128, dst need, nonce, text, aad, temp 128) over the C06 length classes; copyAsm; and the sm4CipherAsm object itself (256 bytes) laid over guarded memory for Encrypt/Decrypt and as the key holder of a GCM. Oracle: no fault, canaries intact, results equal sm4ref/gcmref. Non-trivial: every case; distinct by (routine, lengths, placements, contents).")
	t.Cleanup(stats.FlushAll)
	if !candoAsm {
		rec.Skipped("CPU lacks GFNI/AVX512/VPCLMULQDQ: assembly routines cannot be executed here")
		return
	}
	rapid.Check(t, func(t *rapid.T) {
		r := gen.Rand(t, "seed")
		key := gen.RandBytes(r, 16)
		ref := sm4ref.New(key)
		var enc, dec [32]uint32
		expandKey(key, &enc, &dec)
		routine := gen.Pick(t, "routine", "expandKey", "block", "block", "ghash", "seal", "seal", "open", "open", "object", "object", "copy")
		var args []*verifGArg
		defer func() {
			for _, a := range args {
				a.buf.Free()
			}
		}()
		add := func(name string, content []byte) *verifGArg {
			a := verifPlace(t, name, content)
			args = append(args, a)
			return a
		}
		desc := routine
		var check func() (string, string) // returns (signature suffix, message) on mismatch
		var call func()
		switch routine {
		case "expandKey":
			k, e, d := add("key", key), add("enc", make([]byte, 128)), add("dec", make([]byte, 128))
			call = func() { expandKeyAsm(k.p(), e.p32(), d.p32()) }
			check = func() (string, string) {
				if !bytes.Equal(e.buf.B, rkBytes(&enc)) || !bytes.Equal(d.buf.B, rkBytes(&dec)) {
					return "wrong", "round keys differ"
				}
				return "", ""
			}
		case "block":
			w := []int{1, 2, 4, 8, 16}[gen.Uniform(t, "w", 0, 4)]
			useDec := gen.Bool(t, "dec")
			rk := &enc
			if useDec {
				rk = &dec
			}
			src := gen.RandBytes(r, 16*w)
			want := make([]byte, 16*w)
			for i := 0; i < w; i++ {
				if useDec {
					ref.Decrypt(want[16*i:], src[16*i:])
				} else {
					ref.Encrypt(want[16*i:], src[16*i:])
				}
			}
			rka, d, s := add("rk", rkBytes(rk)), add("dst", make([]byte, 16*w)), add("src", src)
			desc = fmt.Sprintf("cryptoBlockAsm x%d dec=%v", w, useDec)
			call = func() {
				switch w {
				case 1:
					cryptoBlockAsm(rka.p32(), d.p(), s.p())
				case 2:
					cryptoBlockAsmX2(rka.p32(), d.p(), s.p())
				case 4:
					cryptoBlockAsmX4(rka.p32(), d.p(), s.p())
				case 8:
					cryptoBlockAsmX8(rka.p32(), d.p(), s.p())
				case 16:
					cryptoBlockAsmX16(rka.p32(), d.p(), s.p())
				}
			}
			check = func() (string, string) {
				if !bytes.Equal(d.buf.B, want) {
					return "wrong", "output differs from sm4ref"
				}
				return "", ""
			}
		case "ghash":
			n := gen.Int(t, "blocks", 1, 20)
			h, tag, data := gen.RandBytes(r, 16), gen.RandBytes(r, 16), gen.RandBytes(r, 16*n)
			ha, ta, da := add("H", h), add("tag", tag), add("data", data)
			desc = fmt.Sprintf("gHashBlocks count=%d", n)
			call = func() { gHashBlocks(ha.p(), ta.p(), da.p(), n) }
			check = func() (string, string) {
				// tag' = GHASH continuing from tag: ((tag^d0).H ^ d1).H ...
				y := append([]byte(nil), tag...)
				for i := 0; i < n; i++ {
					for j := 0; j < 16; j++ {
						y[j] ^= data[16*i+j]
					}
					y = gcmref.Mul(y, h)
				}
				if !bytes.Equal(ta.buf.B, y) {
					return "wrong", fmt.Sprintf("GHASH state differs: got %x want %x", ta.buf.B, y)
				}
				return "", ""
			}
		case "seal", "open":
			pl, _ := verifLen(t, "pt")
			al, _ := verifLen(t, "aad")
			if gen.Bool(t, "aadsmall") {
				al = gen.Uniform(t, "aadn", 0, 20)
			}
			nl := []int{12, 12, 1, 8, 16, 17, 128, 130}[gen.Uniform(t, "nl", 0, 7)]
			tagSize := gen.Uniform(t, "tag", 12, 16)
			nonce, aad, pt := gen.RandBytes(r, nl), gen.RandBytes(r, al), gen.RandBytes(r, pl)
			sealed := gcmref.Seal(ref, nonce, pt, aad, tagSize)
			rka, na, aa, tmp := add("rk", rkBytes(&enc)), add("nonce", nonce), add("aad", aad), add("temp", make([]byte, 128))
			desc = fmt.Sprintf("%sAsm pt=%d aad=%d nonce=%d tag=%d", routine, pl, al, nl, tagSize)
			if routine == "seal" {
				da, pa := add("dst", make([]byte, pl+tagSize)), add("plaintext", pt)
				call = func() { sealAsm(rka.p32(), tagSize, da.p(), na.buf.B, pa.buf.B, aa.buf.B, tmp.p()) }
				check = func() (string, string) {
					if !bytes.Equal(da.buf.B, sealed) {
						return "wrong", "sealAsm output differs from the reference"
					}
					return "", ""
				}
			} else {
				ca := add("ciphertext", sealed)
				var da *verifGArg
				var dp *byte
				if pl > 0 {
					da = add("dst", make([]byte, pl))
					dp = da.p()
				}
				var ok int
				call = func() { ok = openAsm(rka.p32(), tagSize, dp, na.buf.B, ca.buf.B, aa.buf.B, tmp.p()) }
				check = func() (string, string) {
					if ok != 1 || (da != nil && !bytes.Equal(da.buf.B, pt)) {
						return "wrong", fmt.Sprintf("openAsm match=%d / plaintext differs", ok)
					}
					if !bytes.Equal(ca.buf.B, sealed) {
						return "modifies-input", "openAsm modified the ciphertext"
					}
					return "", ""
				}
			}
		case "object":
			// the cipher object itself ends at (or starts after) an inaccessible page
			size := int(unsafe.Sizeof(sm4CipherAsm{}))
			oa := add("cipher-object", make([]byte, size))
			obj := (*sm4CipherAsm)(oa.buf.Ptr())
			obj.enc, obj.dec = enc, dec
			src := gen.RandBytes(r, 16)
			wantE, wantD := make([]byte, 16), make([]byte, 16)
			ref.Encrypt(wantE, src)
			ref.Decrypt(wantD, src)
			gotE, gotD := make([]byte, 16), make([]byte, 16)
			pl, _ := verifLen(t, "pt")
			pt, nonce := gen.RandBytes(r, pl), gen.RandBytes(r, 12)
			var sealed []byte
			desc = fmt.Sprintf("sm4CipherAsm object (%d bytes) on guarded memory: Encrypt, Decrypt, GCM Seal of %d bytes", size, pl)
			call = func() {
				obj.Encrypt(gotE, src)
				obj.Decrypt(gotD, src)
				g, _ := obj.NewGCM(12, 16)
				sealed = g.Seal(nil, nonce, pt, nil)
			}
			check = func() (string, string) {
				if !bytes.Equal(gotE, wantE) || !bytes.Equal(gotD, wantD) || !bytes.Equal(sealed, gcmref.Seal(ref, nonce, pt, nil, 16)) {
					return "wrong", "results differ from the reference"
				}
				return "", ""
			}
		case "copy":
			n := gen.Uniform(t, "n", 0, 70)
			src := gen.RandBytes(r, n)
			da, sa := add("dst", make([]byte, n)), add("src", src)
			desc = fmt.Sprintf("copyAsm n=%d", n)
			call = func() { copyAsm(da.p(), sa.p(), n) }
			check = func() (string, string) {
				if !bytes.Equal(da.buf.B, src) {
					return "wrong", "copy differs"
				}
				return "", ""
			}
		}
		pl := ""
		for _, a := range args {
			pl += a.name + "@" + a.place + " "
		}
		rec.Case(stats.Hash(key, []byte(desc), []byte(pl), gen.RandBytes(r, 8)), true, "routine:"+routine)
		if rec.WantSample(routine) {
			rec.Sample(routine, map[string]interface{}{"call": desc, "placements": pl, "key": fmt.Sprintf("%x", key)})
		}
		flt, other := guard.Run(call)
		if flt != nil {
			who, where := verifBlame(flt, args)
			vt.Fail(t, rec, "C11:asm:"+routine+":fault:"+who, "memory fault at %s\n%s\n%s", where, desc, pl)
			return
		}
		if other != nil {
			vt.Fail(t, rec, "C11:asm:"+routine+":panic", "panic: %v\n%s", other, desc)
			return
		}
		if sig, msg := check(); sig != "" {
			vt.Fail(t, rec, "C11:asm:"+routine+":"+sig, "%s\n%s\n%s", msg, desc, pl)
			return
		}
		for _, a := range args {
			if ok, at := a.buf.CanariesIntact(len(a.buf.B)); !ok {
				vt.Fail(t, rec, "C11:asm:"+routine+":write-outside:"+a.name, "byte %+d relative to %s (%d bytes) was overwritten\n%s\n%s", at, a.name, len(a.buf.B), desc, pl)
			}
		}
	})
}

func verifLen(t *rapid.T, label string) (int, string) {
	switch gen.Pick(t, label+".lclass", "kernels", "kernels", "kernels", "kernels", "kernels", "kernels", "uniform", "uniform", "uniform", "small", "small", "small", "zero", "zero", "zero", "threshold") {
	case "threshold":
		// sizes at which bulk loops change shape (page / 256 blocks) and just around them
		return []int{4096, 4096, 8192}[gen.Uniform(t, label+".thr", 0, 2)] + gen.Uniform(t, label+".thrd", 0, 120) - 40, "threshold"
	case "kernels":
		return 256*gen.Int(t, label+".a", 0, 3) + 128*gen.Int(t, label+".b", 0, 1) + 64*gen.Int(t, label+".c", 0, 1) +
			32*gen.Int(t, label+".d", 0, 1) + 16*gen.Int(t, label+".e", 0, 1) + gen.Uniform(t, label+".f", 0, 15), "kernels"
	case "uniform":
		return gen.Uniform(t, label+".n", 0, 1100), "uniform"
	case "small":
		return gen.Uniform(t, label+".n", 0, 40), "small"
	}
	return 0, "zero"
}

// Portable path: short slices must panic even when their capacity is >= 16.
func TestVerif_C11_ShortBlocksPortable(t *testing.T) {
	rec := stats.Get("C11", "short-blocks-portable")
	rec.Exhaustive(true)
	rec.Rule("complete enumeration on the portable cipher (newCipherGeneric): Encrypt/Decrypt with len(src) in 0..16 x len(dst) in 0..16 (one of them short) x {cap=len at a page end, cap>=16 over canaries}. Oracle: a Go panic, no fault, canaries intact. Every case non-trivial.")
	t.Cleanup(stats.FlushAll)
	b, _ := newCipherGeneric(bytes.Repeat([]byte{7}, 16))
	for _, op := range []string{"Encrypt", "Decrypt"} {
		for ls := 0; ls <= 16; ls++ {
			for ld := 0; ld <= 16; ld++ {
				if ls == 16 && ld == 16 {
					continue
				}
				for _, capc := range []string{"cap=len", "cap>=16"} {
					var sb, db *guard.Buf
					if capc == "cap=len" {
						sb, db = guard.End(ls), guard.End(ld)
					} else {
						sb, db = guard.EndCap(ls, 32-ls), guard.EndCap(ld, 32-ld)
					}
					rec.Enumerated(1, op+":"+capc)
					flt, other := guard.Run(func() {
						if op == "Encrypt" {
							b.Encrypt(db.B, sb.B)
						} else {
							b.Decrypt(db.B, sb.B)
						}
					})
					desc := fmt.Sprintf("portable %s(dst len %d, src len %d), %s", op, ld, ls, capc)
					okD, atD := db.CanariesIntact(ld)
					switch {
					case flt != nil:
						vt.Fail(t, rec, "C11:short:fault", "%s: memory fault", desc)
					case !okD:
						vt.Fail(t, rec, "C11:short:write-outside", "%s: wrote outside the destination (offset %+d)", desc, atD)
					case other == nil:
						vt.Fail(t, rec, "C11:short:silent", "%s: no panic — a block shorter than 16 bytes was silently read/written beyond its length (within its capacity)", desc)
					}
					sb.Free()
					db.Free()
				}
			}
		}
	}
	rec.Sample("short", map[string]interface{}{"path": "newCipherGeneric", "len_src": "0..16", "len_dst": "0..16"})
}
