//go:build amd64

package sm4api_test

// C09 through the PUBLIC API. TestVerif_C09_Trace calls the assembly stubs directly (in-package) and therefore depends on their Go
// prototypes. This variant reaches the same routines through NewCipher / NewGCM / Seal / Open, so it keeps working when the glue
// hands the assembly other arguments (a cached hash subkey, a scratch pointer), and it adds a class of keys nothing else reaches:
// keys whose GCM hash subkey H = SM4_K(0) has a word equal to 00000000 / ffffffff (searched, vectors/sm4_hashkey_words.json).
// The AEAD of every variant is copied into ONE long-lived object (reflection: a shallow copy of the unexported struct), so that
// the round keys and whatever else the object caches lie at the same address in every traced call; messages lie in fixed buffers.

import (
	"crypto/cipher"
	"encoding/hex"
	"encoding/json"
	"fmt"
	"os"
	"os/exec"
	"path/filepath"
	"reflect"
	"runtime"
	"testing"
	"unsafe"

	"github.com/bilibili/smgo/sm4"
	"pgregory.net/rapid"
	"verif.local/ref/gcmref"
	"verif.local/ref/gen"
	"verif.local/ref/sm4ref"
	"verif.local/ref/stats"
	"verif.local/ref/vt"
)

type c09APIEntry struct {
	Routine string `json:"routine"`
	Group   string `json:"group"`
	Label   string `json:"label"`
	Op      string `json:"op"`
	Key     string `json:"key"`
	TextC   int    `json:"textc"` // 0 zero, 1 ff, n>1 seed
	PL      int    `json:"pl"`
	AL      int    `json:"al"`
	NL      int    `json:"nl"`
	Forge   int    `json:"forge"`
	Nonce   string `json:"nonce"` // hex; empty: the fixed filler
}

var (
	c09APINonce [32]byte
	c09APIAad   [64]byte
	c09APISrc   [1200]byte
	c09APIDst   [1300]byte
)

func c09APIFill(b []byte, c int) {
	x := uint64(c)*0x9E3779B97F4A7C15 + 1
	for i := range b {
		switch c {
		case 0:
			b[i] = 0
		case 1:
			b[i] = 0xff
		default:
			x ^= x << 13
			x ^= x >> 7
			x ^= x << 17
			b[i] = byte(x >> 24)
		}
	}
}

func c09APINew(key []byte, nl int) (cipher.AEAD, error) {
	b, err := sm4.NewCipher(key)
	if err != nil {
		return nil, err
	}
	if nl != 12 {
		return cipher.NewGCMWithNonceSize(b, nl)
	}
	return cipher.NewGCM(b)
}

// c09DeepCopyInto copies the CONTENTS of the object graph src into the object graph dst, which has the same shape (it was built by
// the same constructor), without replacing any pointer or slice of dst: every array, struct and slice element of dst keeps its
// address and receives src's value. (Unexported fields are reached through their addresses.)
func c09DeepCopyInto(dst, src reflect.Value, seen map[uintptr]bool) {
	if !dst.IsValid() || !src.IsValid() || dst.Type() != src.Type() {
		return
	}
	settable := func(v reflect.Value) reflect.Value {
		if v.CanAddr() && !v.CanSet() {
			return reflect.NewAt(v.Type(), unsafe.Pointer(v.UnsafeAddr())).Elem()
		}
		return v
	}
	switch dst.Kind() {
	case reflect.Ptr:
		if dst.IsNil() || src.IsNil() || seen[dst.Pointer()] {
			return
		}
		seen[dst.Pointer()] = true
		c09DeepCopyInto(dst.Elem(), src.Elem(), seen)
	case reflect.Interface:
		if dst.IsNil() || src.IsNil() {
			return
		}
		c09DeepCopyInto(dst.Elem(), src.Elem(), seen) // only pointers inside interfaces can be followed
	case reflect.Struct:
		for i := 0; i < dst.NumField(); i++ {
			c09DeepCopyInto(settable(dst.Field(i)), settable(src.Field(i)), seen)
		}
	case reflect.Array:
		for i := 0; i < dst.Len(); i++ {
			c09DeepCopyInto(dst.Index(i), src.Index(i), seen)
		}
	case reflect.Slice:
		if dst.Len() != src.Len() {
			return
		}
		for i := 0; i < dst.Len(); i++ {
			c09DeepCopyInto(dst.Index(i), src.Index(i), seen)
		}
	case reflect.Func, reflect.Map, reflect.Chan, reflect.UnsafePointer:
	default:
		if d := settable(dst); d.CanSet() {
			d.Set(settable(src))
		}
	}
}

func TestVerif_C09_APIChild(t *testing.T) {
	if os.Getenv("VERIF_C09_CHILD") == "" {
		t.Skip("only run under the tracer")
	}
	runtime.LockOSThread() // the tracer follows ONE thread: the calls must not migrate
	pb, err := os.ReadFile(os.Getenv("VERIF_C09_PLAN"))
	if err != nil {
		t.Fatal(err)
	}
	var plan []c09APIEntry
	if err := json.Unmarshal(pb, &plan); err != nil {
		t.Fatal(err)
	}
	slots := map[int]cipher.AEAD{}
	c09APIFill(c09APINonce[:], 77)
	c09APIFill(c09APIAad[:], 78)
	for _, e := range plan {
		key, _ := hex.DecodeString(e.Key)
		fresh, err := c09APINew(key, e.NL)
		if err != nil {
			t.Fatal(err)
		}
		slot, ok := slots[e.NL]
		if !ok {
			slot, _ = c09APINew(make([]byte, 16), e.NL)
			slots[e.NL] = slot
		}
		if reflect.TypeOf(slot) != reflect.TypeOf(fresh) || reflect.TypeOf(slot).Kind() != reflect.Ptr {
			t.Fatalf("AEAD type %T cannot be copied into the long-lived object %T", fresh, slot)
		}
		c09DeepCopyInto(reflect.ValueOf(slot), reflect.ValueOf(fresh), map[uintptr]bool{})
		c09APIFill(c09APINonce[:], 77)
		if nb, _ := hex.DecodeString(e.Nonce); len(nb) == e.NL && e.NL > 0 {
			copy(c09APINonce[:], nb)
		}
		nonce, aad := c09APINonce[:e.NL], c09APIAad[:e.AL]
		c09APIFill(c09APISrc[:e.PL], e.TextC)
		if e.Op == "seal" {
			slot.Seal(c09APIDst[:0], nonce, c09APISrc[:e.PL], aad)
			continue
		}
		sealed := gcmref.Seal(sm4ref.New(key), nonce, c09APISrc[:e.PL], aad, 16)
		copy(c09APISrc[:], sealed)
		if e.Forge >= 0 {
			c09APISrc[e.PL+e.Forge%16] ^= byte(1 + e.Forge/16)
		}
		_, oerr := slot.Open(c09APIDst[:0], nonce, c09APISrc[:e.PL+16], aad)
		if (oerr == nil) != (e.Forge < 0) {
			t.Fatalf("plan/child mismatch: Open error %v for forge=%d", oerr, e.Forge)
		}
	}
}

func TestVerif_C09_APITrace(t *testing.T) {
	rec := stats.Get("C09", "api-traces")
	rec.Rule("rapid draws groups (Seal or Open [authentic / forged] through the public AEAD, plaintext length from {0,1,15,16,17,64,100,255,256,257,600,1100}, aad length 0..40, nonce size 12/16/13); each group runs with 7..9 variants of (key, plaintext): uniform keys, all-00, all-FF, and the searched keys whose hash subkey H = SM4_K(0) has a word 00000000 / ffffffff; plaintext zero / FF / uniform. The AEAD is copied into one long-lived object so that every variant's round keys lie at the same address. The ptrace single-stepper records every instruction of sealAsm / openAsm and the address of every memory operand. Oracle: identical traces within a group. Non-trivial: a group that contains a special-H key; distinct by (group, key, plaintext class).")
	t.Cleanup(stats.FlushAll)
	tool := filepath.Join(os.Getenv("VERIF_DIR"), ".build", "asmtrace")
	if _, err := os.Stat(tool); err != nil {
		rec.Skipped("INCONCLUSIVE: asmtrace tool not built: " + err.Error())
		t.Skip()
	}
	if a, err := c09APINew(make([]byte, 16), 12); err != nil || reflect.TypeOf(a).String() == "*cipher.gcm" || reflect.TypeOf(a).Kind() != reflect.Ptr {
		rec.Skipped(fmt.Sprintf("the accelerated AEAD is not in use here (%T, %v)", a, err))
		t.Skip()
	}
	var special []string
	if b, err := os.ReadFile(filepath.Join(os.Getenv("VERIF_DIR"), "vectors", "sm4_hashkey_words.json")); err == nil {
		var doc struct {
			Vectors []struct {
				Key, H string
			} `json:"vectors"`
		}
		if json.Unmarshal(b, &doc) == nil {
			for _, v := range doc.Vectors {
				kb, _ := hex.DecodeString(v.Key)
				h := make([]byte, 16)
				sm4ref.New(kb).Encrypt(h, make([]byte, 16))
				if hex.EncodeToString(h) != v.H {
					t.Fatalf("HARNESS: corpus key %s: H is %x by the reference, file says %s", v.Key, h, v.H)
				}
				special = append(special, v.Key)
			}
		}
	}
	if len(special) == 0 {
		rec.Note("no special-H corpus (vectors/sm4_hashkey_words.json): only uniform and constant keys are traced")
	}
	var plan []c09APIEntry
	var pending []func()
	rapid.Check(t, func(t *rapid.T) {
		r := gen.Rand(t, "keys")
		op := gen.Pick(t, "op", "seal", "seal", "open", "open-forged")
		base := c09APIEntry{Op: "seal", Routine: "sealAsm", Forge: -1}
		if op != "seal" {
			base.Op, base.Routine = "open", "openAsm"
		}
		if op == "open-forged" {
			base.Forge = gen.Uniform(t, "forge", 0, 16*200)
		}
		base.PL = []int{0, 1, 15, 16, 17, 64, 100, 255, 256, 257, 600, 1100}[gen.Uniform(t, "pl", 0, 11)]
		base.AL = gen.Uniform(t, "al", 0, 40)
		base.NL = []int{12, 12, 12, 16, 13}[gen.Uniform(t, "nl", 0, 4)]
		base.Group = fmt.Sprintf("api %s pt=%d aad=%d nonce=%d forge=%d", op, base.PL, base.AL, base.NL, base.Forge)
		keys := []string{hex.EncodeToString(gen.RandBytes(r, 16)), hex.EncodeToString(gen.RandBytes(r, 16)), "00000000000000000000000000000000", "ffffffffffffffffffffffffffffffff"}
		keys = append(keys, special...)
		keys = append(keys, hex.EncodeToString(gen.RandBytes(r, 16)))
		// groups with 16-byte nonces: sometimes the (shared, public) nonce is SOLVED for the first key so that the pre-counter block
		// J0 = GHASH_H(nonce) — a function of the hash key — is all zero / all ones / 0^96||1 under that key and ordinary under the others
		if base.NL == 16 && gen.Bool(t, "solved-j0") {
			kb, _ := hex.DecodeString(keys[0])
			j0 := make([]byte, 16)
			switch gen.Pick(t, "j0", "zero", "zero", "ones", "0^96||1") {
			case "ones":
				for i := range j0 {
					j0[i] = 0xff
				}
			case "0^96||1":
				j0[15] = 1
			}
			base.Nonce = hex.EncodeToString(gcmref.SolveNonce16(sm4ref.New(kb), j0))
			base.Group += fmt.Sprintf(" nonce solved: J0=%x under the first key", j0)
		}
		for i, k := range keys {
			e := base
			e.Key = k
			e.TextC = []int{2, 0, 1, 3, 4, 0, 5, 1, 6}[i%9]
			e.Label = fmt.Sprintf("key=%s text-class=%d", k, e.TextC)
			plan = append(plan, e)
			sp := i >= 4 && i < 4+len(special)
			pending = append(pending, func() { rec.Case(stats.HashS(e.Group, e.Label), len(special) > 0, "routine:"+e.Routine, fmt.Sprintf("special-H-key:%v", sp)) })
		}
		if rec.WantSample(op) {
			rec.Sample(op, map[string]interface{}{"group": base.Group, "keys": keys})
		}
	})
	if t.Failed() || len(plan) == 0 {
		return
	}
	dir := t.TempDir()
	planPath, outPath := filepath.Join(dir, "plan.json"), filepath.Join(dir, "result.json")
	pb, _ := json.Marshal(plan)
	os.WriteFile(planPath, pb, 0o644)
	exe, _ := os.Executable()
	cmd := exec.Command(tool, "-bin", exe, "-plan", planPath, "-out", outPath, "--", "-test.run", "^TestVerif_C09_APIChild$", "-test.timeout", "3000s")
	cmd.Env = append(os.Environ(), "VERIF_C09_CHILD=1", "VERIF_C09_PLAN="+planPath, "GOMAXPROCS=1", "GOGC=off", "GODEBUG=asyncpreemptoff=1", "VERIF_STATS_DIR=")
	out, err := cmd.CombinedOutput()
	rb, rerr := os.ReadFile(outPath)
	if rerr != nil {
		rec.Skipped(fmt.Sprintf("INCONCLUSIVE: tracer failed (%v): %s", err, string(out)))
		t.Skipf("HARNESS-INCONCLUSIVE: tracer failed: %v\n%s", err, out)
	}
	var res struct {
		Groups []struct {
			Group    string `json:"group"`
			Mismatch *struct {
				Group, LabelA, LabelB string
				StepsA, StepsB, At    int
				What                  string
			} `json:"mismatch"`
		} `json:"groups"`
		Calls, Steps int
	}
	if err := json.Unmarshal(rb, &res); err != nil {
		t.Skipf("HARNESS-INCONCLUSIVE: bad tracer output: %v", err)
	}
	if err != nil || res.Calls != len(plan) {
		rec.Skipped(fmt.Sprintf("INCONCLUSIVE: tracer incomplete: %v, %d of %d calls: %s", err, res.Calls, len(plan), string(out)))
		t.Skipf("HARNESS-INCONCLUSIVE: tracer incomplete: %v\n%s", err, out)
	}
	for _, f := range pending {
		f()
	}
	rec.Note("traced %d public-API calls in %d groups, %d single-stepped instructions", res.Calls, len(res.Groups), res.Steps)
	for _, g := range res.Groups {
		if g.Mismatch != nil {
			m := g.Mismatch
			rec.Violation("C09:data-dependent-trace", map[string]interface{}{"group": m.Group, "contents_A": m.LabelA, "contents_B": m.LabelB, "steps_A": m.StepsA, "steps_B": m.StepsB, "first_difference_at_step": m.At, "what": m.What, "test": "TestVerif_C09_APITrace"})
			vt.Fail(t, rec, "C09:data-dependent-trace", "assembly trace (through the public API) depends on data in group [%s]\ncontents A: %s (%d instructions)\ncontents B: %s (%d instructions)\nfirst difference at step %d: %s", m.Group, m.LabelA, m.StepsA, m.LabelB, m.StepsB, m.At, m.What)
		}
	}
}
