package sm2_test

// C18, the constants as a RUNNING program sees them. The table checks live in the white-box test binary of sm2/internal, which does
// not load the public package sm2; whatever package sm2 does at start-up (init functions, self tests) or while serving calls
// happens in another process image. This test runs inside the sm2 test binary — package sm2 is loaded and initialised — and looks
// at the exported constants of sm2/internal from there: the generator, the group order, and the agreement of the table-driven
// base multiplication with a multiplication that starts from the generator constant.

import (
	"bytes"
	"fmt"
	"math/big"
	"testing"

	"github.com/bilibili/smgo/sm2"
	"github.com/bilibili/smgo/sm2/internal"
	"verif.local/ref/gen"
	"verif.local/ref/sm2gen"
	"verif.local/ref/sm2ref"
	"verif.local/ref/stats"
	"verif.local/ref/vt"
)

func TestVerif_C18_ConstantsInSM2Process(t *testing.T) {
	rec := stats.Get("C18", "sm2-process")
	rec.Rule("enumeration, inside a process that has loaded and initialised package sm2 and after a workload through its public API (key generation, signing, verification incl. a rejected and an infinity-result verification): internal.NewSM2Generator() encodes to 04||Gx||Gy of GM/T 0003.5; for 40 scalars (1..16, powers of two at comb-column boundaries, n-1, n-2, word-structured) ScalarBaseMult(m) (tables), ScalarMult(NewSM2Generator(), m) (generator constant) and the reference agree. Every item is a case; all non-trivial.")
	t.Cleanup(stats.FlushAll)
	// workload through the public API
	d := new(big.Int).SetBytes(bytes.Repeat([]byte{0x5a}, 32))
	d.Mod(d, sm2gen.NM2).Add(d, big.NewInt(1))
	px, py, _ := sm2gen.Pub(d)
	e := bytes.Repeat([]byte{0x33}, 32)
	stream := append(bytes.Repeat([]byte{0xff}, 32), bytes.Repeat([]byte{0x17}, 64)...)
	r, s, err := sm2.SignHashed(bytes.NewReader(stream), gen.Pad32(d), e)
	if err == nil {
		sm2.VerifyHashed(px, py, e, r, s)
		sm2.VerifyHashed(px, py, e, s, r)
	}
	sm2.GenerateKey(bytes.NewReader(stream))
	sm2.DerivePublic(gen.Pad32(d))
	tv := big.NewInt(0x1234567)
	sv := new(big.Int).Mul(tv, d)
	sv.Neg(sv).Mod(sv, sm2gen.N)
	rv := new(big.Int).Sub(tv, sv)
	rv.Mod(rv, sm2gen.N)
	sm2.VerifyHashed(px, py, e, gen.Pad32(rv), gen.Pad32(sv))
	sm2.CheckOnCurve(px, py)

	check := func(what string, got, want []byte) {
		rec.Enumerated(1, "constant")
		rec.Case(stats.HashS(what), true, "constant")
		if !bytes.Equal(got, want) {
			vt.Fail(t, rec, "C18:sm2-process:"+what, "in a process that has loaded package sm2: %s\n got %x\nwant %x", what, got, want)
		}
	}
	check("generator", internal.NewSM2Generator().Bytes(), sm2ref.Encode(sm2ref.G))
	check("generator-unsafe-encoding", internal.NewSM2Generator().Bytes_Unsafe(), sm2ref.Encode(sm2ref.G))
	scalars := []*big.Int{new(big.Int).Sub(sm2gen.N, big.NewInt(1)), new(big.Int).Sub(sm2gen.N, big.NewInt(2))}
	for i := int64(1); i <= 16; i++ {
		scalars = append(scalars, big.NewInt(i))
	}
	for _, b := range []uint{4, 14, 17, 46, 64, 128, 192, 255} {
		scalars = append(scalars, new(big.Int).Lsh(big.NewInt(1), b))
	}
	x := new(big.Int).SetBytes(bytes.Repeat([]byte{0xa7, 0x31, 0x0c}, 11)[:32])
	for i := 0; i < 14; i++ {
		x.Mul(x, x).Add(x, big.NewInt(int64(i))).Mod(x, sm2gen.N)
		scalars = append(scalars, new(big.Int).Set(x))
	}
	for _, m := range scalars {
		want := sm2ref.Encode(sm2ref.Mul(m, sm2ref.G))
		tb, err := internal.ScalarBaseMult(gen.Pad32(m))
		if err != nil {
			t.Fatalf("HARNESS: %v", err)
		}
		check(fmt.Sprintf("ScalarBaseMult(%x)", m), tb.Bytes(), want)
		gm, err := internal.ScalarMult(internal.NewSM2Generator(), gen.Pad32(m))
		if err != nil {
			t.Fatalf("HARNESS: %v", err)
		}
		check(fmt.Sprintf("ScalarMult(generator, %x)", m), gm.Bytes(), want)
	}
}
