package sm2_test

// C19 — a failing randomness source yields an error, never a key or signature.
// Oracle: a model of io.ReadFull in 32-byte units over a scripted reader.

import (
	"bytes"
	"context"
	crand "crypto/rand"
	"errors"
	"fmt"
	"io"
	"math/big"
	"os"
	"sync/atomic"
	"syscall"
	"testing"
	"time"

	"github.com/bilibili/smgo/sm2"
	"pgregory.net/rapid"
	"verif.local/ref/gen"
	"verif.local/ref/sm2gen"
	"verif.local/ref/sm2ref"
	"verif.local/ref/stats"
	"verif.local/ref/vt"
)

var errC19 = errors.New("verif: injected entropy failure")

// faultyReader delivers data[:failAt] in the scripted chunk sizes and then fails.
type faultyReader struct {
	data      []byte
	pos       int
	failAt    int // -1: never fails (and then io.EOF at the end of data)
	err       error
	withData  bool  // the chunk that reaches failAt is returned together with the error
	chunks    []int // sizes of successive reads (cycled); 0 = successful empty read
	ci        int
	reads     int
	failed    bool
	transient bool // the error is reported ONCE; afterwards the source delivers the rest of the stream as if nothing had happened
	reported  bool
	loop      []byte // bytes WRITTEN to the source (see c19Duplex): a loop-back device serves them once its own data has run out
	written   int
}

// c19Duplex is the scripted source as a duplex device, which many real sources are (*bytes.Buffer, *os.File opened read-write, a
// pipe or socket pair, bufio.ReadWriter): it also implements io.Writer, and what is written to it becomes readable when the
// scripted data has run out. The contract of the statement does not change: the scripted stream is the randomness the CALLER
// provided; if it ends too early the call must fail, whatever the library itself may have fed into the device.
type c19Duplex struct{ *faultyReader }

func (d c19Duplex) Write(p []byte) (int, error) {
	d.loop = append(d.loop, p...)
	d.written += len(p)
	return len(p), nil
}

func (f *faultyReader) Read(p []byte) (n int, err error) {
	defer func() {
		if err == errC19Panic {
			panic(c19PanicValue)
		}
	}()
	return f.read(p)
}

func (f *faultyReader) read(p []byte) (int, error) {
	f.reads++
	if f.reads > 2000000+1100*len(f.data) {
		// more reads than any ReadFull-based consumer of this stream can need under the slowest chunking (1000 empty reads per unit,
		// or 5 reads per byte): the callee is spinning on a source that has nothing more to give
		panic("faultyReader: runaway reader loop")
	}
	limit := len(f.data)
	if f.failAt >= 0 && !(f.transient && f.reported) {
		limit = f.failAt
	}
	if f.transient && !f.reported && f.failAt >= 0 && f.pos >= limit {
		f.reported = true
		return 0, f.err
	}
	if (f.failed || f.pos >= limit) && len(f.loop) > 0 {
		n := copy(p, f.loop)
		f.loop = f.loop[n:]
		return n, nil
	}
	if f.failed || f.pos >= limit {
		f.failed = true
		if f.failAt >= 0 {
			return 0, f.err
		}
		return 0, io.EOF
	}
	n := len(p)
	if len(f.chunks) > 0 {
		c := f.chunks[f.ci%len(f.chunks)]
		f.ci++
		if c < n {
			n = c
		}
	}
	if n > limit-f.pos {
		n = limit - f.pos
	}
	copy(p, f.data[f.pos:f.pos+n])
	f.pos += n
	if f.withData && f.failAt >= 0 && f.pos == limit && n > 0 && !f.reported {
		if f.transient {
			f.reported = true
		} else {
			f.failed = true
		}
		return n, f.err
	}
	return n, nil
}

type c19Script struct {
	stream    []byte
	need      int // bytes that must be delivered for the call to succeed
	failAt    int
	err       error
	withData  bool
	chunks    []int
	transient bool
	viaGlobal bool // install the scripted source as crypto/rand.Reader and hand THAT variable to the library
	duplex    bool // hand the source over as a duplex device (it also implements io.Writer, loop-back)
	sized     bool // hand the source over with Len()/Size() query methods
}

// c19Call runs the library call; with viaGlobal the scripted reader is first installed as the process-wide crypto/rand.Reader and the
// library receives the value of that variable (what most callers pass). A call that has not returned after 60 s (four orders of
// magnitude above its normal duration) on a source that keeps failing is reported as not terminating.
// c19Sized is the scripted source with the QUERY methods many in-memory and buffered sources have (bytes.Reader, bytes.Buffer,
// strings.Reader, ring buffers): Len() and Size() report what the script still holds. Knowing how much is there does not change
// what a Read may do — deliver less than asked for, without error — nor when the source fails.
type c19Sized struct{ *faultyReader }

func (z c19Sized) Len() int    { return len(z.data) - z.pos }
func (z c19Sized) Size() int64 { return int64(len(z.data)) }

func c19Call(s *c19Script, rd io.Reader, f func(io.Reader)) (pan interface{}, hung bool) {
	if fr, ok := rd.(*faultyReader); ok && s.duplex {
		rd = c19Duplex{fr}
	} else if ok && s.sized {
		rd = c19Sized{fr}
	}
	if s.viaGlobal {
		old := crand.Reader
		crand.Reader = rd
		defer func() { crand.Reader = old }()
		rd = crand.Reader
	}
	done := make(chan interface{}, 1)
	go func() { done <- vt.Catch(func() { f(rd) }) }()
	limit := 60 * time.Second
	if c19HangSeen.Load() {
		limit = 5 * time.Second // a first call has already hung for a minute: the re-runs while shrinking need not wait as long
	}
	select {
	case pan = <-done:
		return pan, false
	case <-time.After(limit):
		c19HangSeen.Store(true)
		return nil, true
	}
}

var c19HangSeen atomic.Bool

func (s *c19Script) reader() *faultyReader {
	return &faultyReader{data: s.stream, failAt: s.failAt, err: s.err, withData: s.withData, chunks: s.chunks, transient: s.transient}
}

// c19Judge applies the model. gotErr/outputsNil describe the call's result; equalRef tells whether a successful result equals the reference.
func c19Judge(t vt.TB, rec *stats.Recorder, fn string, s *c19Script, rd *faultyReader, panicked interface{}, gotErr error, outputsNil bool, equalRef func() bool) {
	desc := fmt.Sprintf("%s: stream of %d bytes, %d needed, first failure at byte %d (err=%v, with data=%v, source recovers afterwards=%v), chunks=%v", fn, len(s.stream), s.need, s.failAt, s.err, s.withData, s.transient, s.chunks)
	if s.err == errC19Panic {
		// the source panics where the other scripts return an error. Reached at all? (a failure placed after the last needed byte is
		// never read.) Then the call must not succeed: the panic propagates, or it is reported as an error without any output.
		reached := s.failAt >= 0 && (s.failAt < s.need || (s.withData && s.failAt == s.need && s.failAt > 0))
		switch {
		case panicked != nil && fmt.Sprint(panicked) == c19PanicValue && reached:
			return
		case panicked != nil:
			vt.Fail(t, rec, "C19:"+fn+":panic", "panic %v\n%s\nstream=%s", panicked, desc, stats.Hex(s.stream))
			return
		case reached && gotErr == nil:
			vt.Fail(t, rec, "C19:"+fn+":no-error", "the source panicked inside Read before the needed bytes were delivered, but the call returned success\n%s\nstream=%s", desc, stats.Hex(s.stream))
			return
		case reached:
			if !outputsNil {
				vt.Fail(t, rec, "C19:"+fn+":output-with-error", "an error was returned together with a public key / signature\n%s", desc)
			}
			return
		}
	}
	if panicked != nil {
		vt.Fail(t, rec, "C19:"+fn+":panic", "panic %v\n%s\nstream=%s", panicked, desc, stats.Hex(s.stream))
		return
	}
	mustFail := s.failAt >= 0 && s.failAt < s.need
	// An error delivered TOGETHER WITH the byte that completes a 32-byte unit is dropped by io.ReadFull (it returns n == 32, nil):
	// whether the call then reports it is a matter of reading, so both outcomes are accepted — at the last needed byte always,
	// and at an earlier unit boundary when the source recovers afterwards (otherwise the next read fails anyway).
	ambiguous := s.withData && s.failAt > 0 && s.failAt%32 == 0 && (s.failAt == s.need || (s.transient && s.failAt < s.need))
	if ambiguous && mustFail {
		if gotErr != nil {
			if !outputsNil {
				vt.Fail(t, rec, "C19:"+fn+":output-with-error", "an error was returned together with a public key / signature\n%s", desc)
			}
			return
		}
		mustFail = false // judged as a success below: the result must then be the reference result
	}
	if mustFail {
		if gotErr == nil {
			vt.Fail(t, rec, "C19:"+fn+":no-error", "randomness failed before the needed bytes were delivered, but the call succeeded\n%s\nstream=%s", desc, stats.Hex(s.stream))
			return
		}
		if !outputsNil {
			vt.Fail(t, rec, "C19:"+fn+":output-with-error", "an error was returned together with a public key / signature\n%s", desc)
		}
		return
	}
	if gotErr != nil {
		if ambiguous && outputsNil {
			return // reporting the error that came with the final bytes is also fine
		}
		vt.Fail(t, rec, "C19:"+fn+":spurious-error", "all needed bytes were delivered without error, but the call returned %v\n%s\nstream=%s", gotErr, desc, stats.Hex(s.stream))
		return
	}
	if !equalRef() {
		vt.Fail(t, rec, "C19:"+fn+":partial-fill", "result differs from the reference on the delivered bytes (a short read was not completed, or a partially filled buffer was used)\n%s\nstream=%s", desc, stats.Hex(s.stream))
		return
	}
	if rd.pos > s.need && !s.transient {
		vt.Fail(t, rec, "C19:"+fn+":overread", "consumed %d bytes, only %d were needed\n%s", rd.pos, s.need, desc)
	}
}

func c19RunSign(t vt.TB, rec *stats.Recorder, s *c19Script, d *big.Int, denc, e []byte) {
	rd := s.reader()
	var r, sg []byte
	var err error
	p, hung := c19Call(s, rd, func(src io.Reader) { r, sg, err = sm2.SignHashed(src, denc, e) })
	if hung {
		vt.Fail(t, rec, "C19:sign:does-not-return", "SignHashed did not return within 60 s on a failing source (fail at byte %d, via crypto/rand.Reader=%v)", s.failAt, s.viaGlobal)
		return
	}
	c19Judge(t, rec, "sign", s, rd, p, err, r == nil && sg == nil, func() bool {
		wr, ws, _, _, werr := sm2ref.Sign(d, e, s.stream)
		return werr == nil && bytes.Equal(r, gen.Pad32(wr)) && bytes.Equal(sg, gen.Pad32(ws))
	})
}

func c19RunKeygen(t vt.TB, rec *stats.Recorder, s *c19Script) {
	rd := s.reader()
	var priv, x, y []byte
	var err error
	p, hung := c19Call(s, rd, func(src io.Reader) { priv, x, y, err = sm2.GenerateKey(src) })
	if hung {
		vt.Fail(t, rec, "C19:keygen:does-not-return", "GenerateKey did not return within 60 s on a failing source (fail at byte %d, via crypto/rand.Reader=%v)", s.failAt, s.viaGlobal)
		return
	}
	if p == nil && err != nil && priv != nil {
		rec.Note("GenerateKey returns a non-nil priv buffer together with an error (recorded, not judged: the statement forbids a public key or signature)")
	}
	c19Judge(t, rec, "keygen", s, rd, p, err, x == nil && y == nil, func() bool {
		good := s.stream[s.need-32 : s.need]
		px, py, _ := sm2gen.Pub(new(big.Int).SetBytes(good))
		return bytes.Equal(priv, good) && bytes.Equal(x, px) && bytes.Equal(y, py)
	})
}

// an error that declares itself temporary (as EAGAIN/EINTR and net-style errors do)
type c19TempErr struct{}

func (c19TempErr) Error() string   { return "verif: temporary entropy failure" }
func (c19TempErr) Temporary() bool { return true }
func (c19TempErr) Timeout() bool   { return true }

// c19NilPtrErr is an error whose dynamic value is a nil pointer: a non-nil error all the same.
type c19NilPtrErr struct{}

func (*c19NilPtrErr) Error() string { return "rng failure (nil receiver)" }

// errC19Panic stands for a source that does not return an error but PANICS inside Read (a driver bug, a closed device handle): the
// bytes it delivered before are in the caller's buffer. Letting the panic through is fine; turning it into success is not.
var errC19Panic = errors.New("verif: the source panics inside Read")

const c19PanicValue = "verif: entropy source panicked inside Read"

var c19Errs = []error{errC19Panic, io.EOF, io.ErrUnexpectedEOF, errC19, syscall.EAGAIN, syscall.EINTR,
	&os.PathError{Op: "read", Path: "/dev/hwrng", Err: syscall.EAGAIN}, fmt.Errorf("rng: %w", c19TempErr{}), os.ErrDeadlineExceeded,
	// errors that LOOK like "no error" to code that inspects them instead of comparing with nil
	syscall.Errno(0), &os.PathError{Op: "read", Path: "/dev/hwrng", Err: syscall.Errno(0)}, os.NewSyscallError("getrandom", syscall.Errno(0)),
	errors.New(""), fmt.Errorf("%w", io.EOF), context.Canceled, (*c19NilPtrErr)(nil), syscall.ENOSYS, syscall.EIO}

func c19Chunks(t *rapid.T) []int {
	switch gen.Pick(t, "chunking", "full", "full", "full", "bytes", "bytes", "mixed", "mixed", "zeros", "zeros", "many-empties") {
	case "many-empties":
		// an io.Reader may return (0, nil) any number of times (io.ReadFull simply reads again): long runs of empty reads before data
		switch gen.Pick(t, "empties", "100-then-unit", "1000-then-unit", "4-per-byte", "13-per-4-bytes", "260-then-byte") {
		case "100-then-unit":
			return append(make([]int, 100), 32)
		case "1000-then-unit":
			return append(make([]int, 1000), 32)
		case "4-per-byte":
			return []int{0, 0, 0, 0, 1}
		case "13-per-4-bytes":
			return append(make([]int, 13), 4)
		}
		return append(make([]int, 260), 1)
	case "full":
		return nil
	case "bytes":
		return []int{1}
	case "zeros":
		return []int{0, 0, 0, 5, 0, 27, 0, 0, 1}
	}
	n := gen.Int(t, "nchunks", 1, 8)
	out := make([]int, 0, n+1)
	zeros := 0
	for i := 0; i < n; i++ {
		c := gen.Int(t, "chunk", 0, 33)
		if c == 0 {
			zeros++
			if zeros > 3 {
				c = 1
			}
		} else {
			zeros = 0
		}
		out = append(out, c)
	}
	return append(out, 7) // make sure progress is possible
}

func TestVerif_C19_Sign(t *testing.T) {
	rec := stats.Get("C19", "sign")
	rec.Rule("rapid: SignHashed under a scripted reader: stream = 0..4 candidates that must be rejected (k>=n, k=0, r=0, r+k=n, s=0 by construction) + acceptable + trailing; reads chunked (full, byte-wise, mixed sizes incl. up to 3 consecutive empty successful reads, or long runs of 100..1000 empty reads before data); first failure at a drawn byte offset (anywhere in 0..len, weighted to the inside of each candidate and to candidate boundaries) with io.EOF / io.ErrUnexpectedEOF / a custom error / EAGAIN / EINTR / a PathError / a wrapped error whose Temporary() is true / a deadline error / errors that look like success when inspected (errno 0 bare or wrapped, an empty message, a nil-pointer error value), alone or together with the final chunk, the source either staying failed or RECOVERING after having reported the error once; or no failure. One call in four installs the scripted source as the process-wide crypto/rand.Reader and passes that variable. Oracle (ReadFull model): failure before the last needed byte -> err != nil, r = s = nil, no panic; otherwise success equal to the reference signature and no byte consumed beyond the accepted candidate. Non-trivial: failure strictly inside a candidate, or after >= 1 rejected candidate, or chunked reads; distinct by (stream, failAt, err, chunks).")
	t.Cleanup(stats.FlushAll)
	rapid.Check(t, func(t *rapid.T) {
		foreignCalls(t, rec, "foreign") // state left behind by other entry points must not matter
		c := sm2gen.DrawSignCase(t)
		s := &c19Script{stream: c.Stream, need: 32 * c.Cands, failAt: -1, chunks: c19Chunks(t)}
		mode := gen.Pick(t, "fault", "none", "inside", "inside", "boundary", "anywhere")
		switch mode {
		case "inside":
			s.failAt = 32*gen.Uniform(t, "cand", 0, c.Cands-1) + gen.Uniform(t, "off", 1, 31)
		case "boundary":
			s.failAt = 32 * gen.Uniform(t, "cand", 0, c.Cands)
		case "anywhere":
			s.failAt = gen.Uniform(t, "at", 0, len(c.Stream))
		}
		s.err = c19Errs[gen.Uniform(t, "err", 0, len(c19Errs)-1)]
		s.withData = gen.Bool(t, "withData")
		s.transient = gen.Bool(t, "transient")
		s.viaGlobal = gen.Uniform(t, "viaGlobal", 0, 3) == 0
		s.duplex = gen.Uniform(t, "duplex", 0, 2) == 0
		s.sized = !s.duplex && gen.Uniform(t, "sized", 0, 1) == 0
		rec.Tally(fmt.Sprintf("source-is-duplex:%v", s.duplex))
		rec.Tally(fmt.Sprintf("source-has-Len:%v", s.sized))
		rec.Tally(fmt.Sprintf("source-is-crypto/rand.Reader:%v", s.viaGlobal))
		inside := s.failAt >= 0 && s.failAt%32 != 0 && s.failAt < s.need
		nt := inside || (s.failAt >= 32 && len(c.Rejected) > 0) || s.chunks != nil
		rec.Case(stats.Hash(c.Stream, c.DEnc, c.E, []byte(fmt.Sprint(s.failAt, s.err, s.withData, s.chunks))), nt,
			"fault:"+mode, fmt.Sprintf("mustFail:%v", s.failAt >= 0 && s.failAt < s.need), fmt.Sprintf("rejected:%d", len(c.Rejected)), fmt.Sprintf("chunked:%v", s.chunks != nil))
		if rec.WantSample(mode) {
			rec.Sample(mode, map[string]interface{}{"stream": stats.Hex(c.Stream), "needed_bytes": s.need, "fail_at": s.failAt, "err": fmt.Sprint(s.err), "with_data": s.withData, "chunks": s.chunks, "rejected_first": c.Rejected})
		}
		c19RunSign(t, rec, s, c.D, c.DEnc, c.E)
	})
}

func TestVerif_C19_Keygen(t *testing.T) {
	rec := stats.Get("C19", "keygen")
	rec.Rule("rapid: GenerateKey under the same scripted reader: stream = 0..4 out-of-range candidates (0, n-1, n, n+1, 2^256-1, uniform>=n-1) + valid + trailing; chunking and first-failure position as for signing; plus GenerateKey(nil). Oracle: failure before the last needed byte -> err != nil and x = y = nil; otherwise priv = first valid candidate and (x,y) = [d]G by the reference. Non-trivial as for signing.")
	t.Cleanup(stats.FlushAll)
	rapid.Check(t, func(t *rapid.T) {
		foreignCalls(t, rec, "foreign") // state left behind by other entry points must not matter
		nrej := gen.Int(t, "nrej", 0, 4)
		var stream []byte
		for i := 0; i < nrej; i++ {
			b, _ := c12Candidate(t, fmt.Sprintf("rej%d", i), false)
			stream = append(stream, b...)
		}
		good, _ := c12Candidate(t, "good", true)
		stream = append(stream, good...)
		r := gen.Rand(t, "trail")
		stream = append(stream, gen.RandBytes(r, gen.Int(t, "trailing", 0, 40))...)
		s := &c19Script{stream: stream, need: 32 * (nrej + 1), failAt: -1, chunks: c19Chunks(t)}
		mode := gen.Pick(t, "fault", "none", "inside", "inside", "boundary", "anywhere")
		switch mode {
		case "inside":
			s.failAt = 32*gen.Uniform(t, "cand", 0, nrej) + gen.Uniform(t, "off", 1, 31)
		case "boundary":
			s.failAt = 32 * gen.Uniform(t, "cand", 0, nrej+1)
		case "anywhere":
			s.failAt = gen.Uniform(t, "at", 0, len(stream))
		}
		s.err = c19Errs[gen.Uniform(t, "err", 0, len(c19Errs)-1)]
		s.withData = gen.Bool(t, "withData")
		s.transient = gen.Bool(t, "transient")
		s.viaGlobal = gen.Uniform(t, "viaGlobal", 0, 3) == 0
		s.duplex = gen.Uniform(t, "duplex", 0, 2) == 0
		s.sized = !s.duplex && gen.Uniform(t, "sized", 0, 1) == 0
		rec.Tally(fmt.Sprintf("source-is-duplex:%v", s.duplex))
		rec.Tally(fmt.Sprintf("source-has-Len:%v", s.sized))
		rec.Tally(fmt.Sprintf("source-is-crypto/rand.Reader:%v", s.viaGlobal))
		inside := s.failAt >= 0 && s.failAt%32 != 0 && s.failAt < s.need
		nt := inside || (s.failAt >= 32 && nrej > 0) || s.chunks != nil
		rec.Case(stats.Hash(stream, []byte(fmt.Sprint(s.failAt, s.err, s.withData, s.chunks))), nt,
			"fault:"+mode, fmt.Sprintf("mustFail:%v", s.failAt >= 0 && s.failAt < s.need), fmt.Sprintf("rejected:%d", nrej), fmt.Sprintf("chunked:%v", s.chunks != nil))
		if rec.WantSample(mode) {
			rec.Sample(mode, map[string]interface{}{"stream": stats.Hex(stream), "needed_bytes": s.need, "fail_at": s.failAt, "err": fmt.Sprint(s.err), "with_data": s.withData, "chunks": s.chunks})
		}
		c19RunKeygen(t, rec, s)
	})
}

// Complete enumeration of the first-failure position: every byte offset 0..need of streams with 0..2 rejected
// candidates x 3 error kinds x with/without data x {full, 5-byte chunked} reads, for both functions.
func TestVerif_C19_AllPositions(t *testing.T) {
	rec := stats.Get("C19", "all-positions")
	rec.Exhaustive(true)
	rec.Rule("complete enumeration: rejected-candidate prefixes of length 0..2 drawn from {k>=n (n, 2^256-1), k=0} for signing and {0, n-1, n, 2^256-1} for key generation (all combinations) + one valid candidate; first failure at EVERY byte offset 0..need x {EOF, ErrUnexpectedEOF, custom, EAGAIN, EINTR, PathError, temporary, deadline} (source staying failed or recovering, alternating) x {error alone, error with the final chunk} x {full reads, 5-byte chunks}; plus GenerateKey(nil) and the never-failing reader. Oracle as above. Every case non-trivial; distinct by construction.")
	t.Cleanup(stats.FlushAll)
	d := new(big.Int).SetBytes(bytes.Repeat([]byte{0x5a}, 32))
	d.Mod(d, sm2gen.NM2).Add(d, big.NewInt(1))
	denc := gen.Pad32(d)
	e := bytes.Repeat([]byte{0xe1}, 32)
	goodK := gen.Pad32(new(big.Int).Rsh(sm2gen.N, 3))
	signRej := [][]byte{gen.Pad32(sm2gen.N), bytes.Repeat([]byte{0xff}, 32), make([]byte, 32)}
	keyRej := [][]byte{make([]byte, 32), gen.Pad32(sm2gen.NM1), gen.Pad32(sm2gen.N), bytes.Repeat([]byte{0xff}, 32)}
	prefixes := func(alph [][]byte) [][]byte {
		out := [][]byte{nil}
		for _, a := range alph {
			out = append(out, a)
			for _, b := range alph {
				out = append(out, append(append([]byte{}, a...), b...))
			}
		}
		return out
	}
	si, sn := vt.Shard()
	idx := 0
	run := func(fn string, stream []byte, need int) {
		for failAt := -1; failAt <= need; failAt++ {
			for ei, err := range c19Errs {
				for wd := 0; wd < 2; wd++ {
					for ch := 0; ch < 2; ch++ {
						if failAt == -1 && (ei > 0 || wd > 0) {
							continue
						}
						idx++
						if idx%sn != si {
							continue
						}
						s := &c19Script{stream: stream, need: need, failAt: failAt, err: err, withData: wd == 1, transient: (failAt+ei+wd)%2 == 1}
						if ch == 1 {
							s.chunks = []int{5}
						}
						rec.Enumerated(1, fn)
						if fn == "sign" {
							c19RunSign(t, rec, s, d, denc, e)
						} else {
							c19RunKeygen(t, rec, s)
						}
					}
				}
			}
		}
	}
	quick := !vt.Thorough()
	for pi, pre := range prefixes(signRej) {
		if quick && pi%3 != 0 {
			continue
		}
		stream := append(append(append([]byte{}, pre...), goodK...), 0xAA, 0xBB)
		run("sign", stream, len(pre)+32)
	}
	for pi, pre := range prefixes(keyRej) {
		if quick && pi%4 != 0 {
			continue
		}
		stream := append(append(append([]byte{}, pre...), denc...), 0xAA, 0xBB)
		run("keygen", stream, len(pre)+32)
	}
	rec.Sample("enumeration", map[string]interface{}{"prefixes_sign": len(prefixes(signRej)), "prefixes_keygen": len(prefixes(keyRej)), "positions": "every byte offset 0..need, and 'never fails'", "quick_subsample": quick})
	// nil source
	var priv, x, y []byte
	var err error
	if p := vt.Catch(func() { priv, x, y, err = sm2.GenerateKey(nil) }); p != nil {
		vt.Fail(t, rec, "C19:keygen:nil-panic", "GenerateKey(nil) panicked: %v", p)
	} else if err == nil || x != nil || y != nil || priv != nil {
		vt.Fail(t, rec, "C19:keygen:nil-accepted", "GenerateKey(nil) returned err=%v priv=%x x=%x", err, priv, x)
	}
	rec.Enumerated(1, "nil-source")
}
