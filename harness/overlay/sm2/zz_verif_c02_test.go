package sm2_test

// C02 — signatures are exactly the GM/T 0003.2 values for (d, e, k).
// Oracle: sm2ref.Sign (big.Int, spec order of checks) + byte accounting on the reader.

import (
	"bytes"
	"fmt"
	"math/big"
	"testing"

	"github.com/bilibili/smgo/sm2"
	"pgregory.net/rapid"
	"verif.local/ref/gen"
	"verif.local/ref/sm2gen"
	"verif.local/ref/sm2ref"
	"verif.local/ref/stats"
	"verif.local/ref/vt"
)

func TestVerif_C02_Exact(t *testing.T) {
	rec := stats.Get("C02", "exact")
	rec.Rule("rapid: (d,e,stream) from the solver generator: 0..4 leading candidates each built to hit one named rejection rule (k>=n: n, n+1, 2^256-1, uniform; k=0; r=0 via e=-x([k]G) incl. the twin n-k; r+k=n; s=0 via k=r*d), repeated/interleaved, then an acceptable k (uniform, or solved so that r/s/t is short), then 0..40 trailing bytes. Oracle: SignHashed returns err=nil and exactly sm2ref.Sign's (r,s) as 32-byte strings, and the reader was asked for exactly 32*(candidates) bytes in 32-byte requests. Non-trivial: at least one rejected candidate or r/s with a leading zero byte; distinct by (d,e,stream).")
	t.Cleanup(stats.FlushAll)
	rapid.Check(t, func(t *rapid.T) {
		foreignCalls(t, rec, "foreign") // state left behind by other entry points must not matter
		c := sm2gen.DrawSignCase(t)
		wr, ws, wc, wrej, werr := sm2ref.Sign(c.D, c.E, c.Stream)
		if werr != nil || wc != c.Cands || fmt.Sprint(wrej) != fmt.Sprint(c.Rejected) {
			// generator and reference disagree about the construction: harness problem, not a finding
			t.Fatalf("HARNESS: reference signer disagrees with the construction: err=%v cands=%d/%d rej=%v/%v", werr, wc, c.Cands, wrej, c.Rejected)
		}
		rd := newStream(c.Stream)
		// how the bytes arrive is not the signer's business: short reads and runs of empty reads (0, nil) are what an io.Reader may do
		switch gen.Pick(t, "delivery", "whole", "whole", "whole", "short-reads", "empties", "re-entrant", "re-entrant") {
		case "re-entrant":
			// a source that itself USES the library while it is being read (an entropy daemon that signs its health report, a
			// deterministic generator keyed by a signature): between two chunks of the outer call's nonce another SignHashed /
			// GenerateKey / VerifyHashed runs to completion on the same goroutine. The outer call must not notice.
			rd.chunk = []int{0, 7, 16, 31}[gen.Uniform(t, "rechunk", 0, 3)]
			nk := new(big.Int).SetBytes(gen.RandBytes(gen.Rand(t, "nestedkey"), 40))
			nk.Mod(nk, sm2gen.NM2).Add(nk, big.NewInt(1))
			nst := gen.RandBytes(gen.Rand(t, "nestedstream"), 96)
			nst[0] &= 0x7f
			which := gen.Uniform(t, "nested-op", 0, 2)
			every := gen.Uniform(t, "nested-every", 1, 3)
			npx, npy, _ := sm2gen.Pub(nk)
			rd.nested = func(read int) {
				if read%every != 0 {
					return
				}
				switch which {
				case 0:
					sm2.SignHashed(bytes.NewReader(nst), gen.Pad32(nk), c.E)
				case 1:
					sm2.GenerateKey(bytes.NewReader(nst))
				default:
					rr, ss, err := sm2.SignHashed(bytes.NewReader(nst), gen.Pad32(nk), c.E)
					if err == nil {
						sm2.VerifyHashed(npx, npy, c.E, rr, ss)
					}
				}
			}
		case "short-reads":
			rd.chunk = gen.Uniform(t, "chunk", 1, 31)
		case "empties":
			rd.empties = []int{1, 4, 99, 100, 128, 1000}[gen.Uniform(t, "nempty", 0, 5)]
			rd.chunk = []int{0, 1, 4}[gen.Uniform(t, "emptychunk", 0, 2)]
			if len(c.Stream) > 4096 && rd.chunk != 0 {
				rd.chunk = 0 // long streams: keep the number of reads reasonable
			}
		}
		var r, s []byte
		var err error
		if p := vt.Catch(func() { r, s, err = sm2.SignHashed(rd, c.DEnc, c.E) }); p != nil {
			vt.Fail(t, rec, "C02:sign:panic", "SignHashed panicked: %v\nd=%x e=%x stream=%x", p, c.DEnc, c.E, c.Stream)
			return
		}
		cls := append([]string{}, c.Classes...)
		for _, rj := range c.Rejected {
			cls = append(cls, "rule:"+rj)
		}
		nt := len(c.Rejected) > 0 || (len(r) == 32 && (r[0] == 0 || s[0] == 0))
		rec.Case(stats.Hash(c.DEnc, c.E, c.Stream), nt, cls...)
		if len(c.Rejected) > 0 && rec.WantSample("rej:"+c.Rejected[0]) {
			rec.Sample("rej:"+c.Rejected[0], map[string]interface{}{"d": stats.Hex(c.DEnc), "e": stats.Hex(c.E), "stream": stats.Hex(c.Stream), "must_reject": c.Rejected, "want_r": fmt.Sprintf("%064x", wr), "want_s": fmt.Sprintf("%064x", ws)})
		}
		if err != nil {
			vt.Fail(t, rec, "C02:refuses-valid", "SignHashed returned error %v for a valid key and a stream with an acceptable nonce\nd=%x e=%x stream=%x", err, c.DEnc, c.E, c.Stream)
			return
		}
		if len(r) != 32 || len(s) != 32 {
			vt.Fail(t, rec, "C02:length", "r,s lengths %d,%d (want 32,32)", len(r), len(s))
			return
		}
		if !bytes.Equal(r, gen.Pad32(wr)) || !bytes.Equal(s, gen.Pad32(ws)) {
			sig := "C02:value"
			if rd.consumed != 32*c.Cands && len(c.Rejected) > 0 {
				// which candidate did it stop at?
				idx := rd.consumed/32 - 1
				if idx >= 0 && idx < len(c.Rejected) {
					sig = "C02:not-skipped:" + c.Rejected[idx]
				}
			}
			vt.Fail(t, rec, sig, "signature differs from GM/T 0003.2 for (d,e,first acceptable k)\nd=%x e=%x\nstream=%x\nmust reject first: %v\n got r=%x s=%x (consumed %d bytes)\nwant r=%064x s=%064x (consume %d bytes)", c.DEnc, c.E, c.Stream, c.Rejected, r, s, rd.consumed, wr, ws, 32*c.Cands)
			return
		}
		if rd.consumed != 32*c.Cands {
			vt.Fail(t, rec, "C02:consumed", "consumed %d bytes of the stream, want %d (= 32 x %d candidates)", rd.consumed, 32*c.Cands, c.Cands)
		}
		for _, n := range rd.reads {
			if n > 32 {
				vt.Fail(t, rec, "C02:unit", "reader asked for %d bytes in one request (units are 32 bytes)", n)
			}
		}
	})
}

func TestVerif_C02_KeyRange(t *testing.T) {
	rec := stats.Get("C02", "keyrange")
	rec.Rule("rapid: private key encodings outside [1,n-2]: value 0 as 32 zero bytes / 1..31 zero bytes / empty; n-1, n, n+1, 2^256-1, uniform in [n-1,2^256); 33..40-byte strings; and valid controls 1, 2, n-2, n-3. Oracle: out-of-range -> err != nil and r = s = nil, nothing more than needed read; in range -> signature equal to the reference. Every case non-trivial (boundary keys); distinct by (key encoding, e).")
	t.Cleanup(stats.FlushAll)
	rapid.Check(t, func(t *rapid.T) {
		foreignCalls(t, rec, "foreign") // state left behind by other entry points must not matter
		r0 := gen.Rand(t, "seed")
		cls := gen.Pick(t, "class", "zero32", "zeroShort", "empty", "n-1", "n", "n+1", "max", "uniform>=n-1", "long", "valid-low", "valid-high", "nil")
		var key []byte
		valid := false
		switch cls {
		case "zero32":
			key = make([]byte, 32)
		case "zeroShort":
			key = make([]byte, gen.Int(t, "len", 1, 31))
		case "empty":
			key = []byte{}
		case "nil":
			key = nil
		case "n-1":
			key = gen.Pad32(sm2gen.NM1)
		case "n":
			key = gen.Pad32(sm2gen.N)
		case "n+1":
			key = gen.Pad32(new(big.Int).Add(sm2gen.N, big.NewInt(1)))
		case "max":
			key = bytes.Repeat([]byte{0xff}, 32)
		case "uniform>=n-1":
			span := new(big.Int).Sub(sm2gen.T256, sm2gen.NM1)
			v := new(big.Int).SetBytes(gen.RandBytes(r0, 40))
			v.Mod(v, span).Add(v, sm2gen.NM1)
			key = gen.Pad32(v)
		case "long":
			key = gen.RandBytes(r0, gen.Int(t, "len", 33, 40))
			key[0] |= 1 // value >= 2^256, out of range whatever one thinks of over-long encodings
		case "valid-low":
			key = gen.Pad32(big.NewInt(int64(gen.Int(t, "v", 1, 3))))
			valid = true
		case "valid-high":
			key = gen.Pad32(new(big.Int).Sub(sm2gen.N, big.NewInt(int64(gen.Int(t, "v", 2, 4)))))
			valid = true
		}
		e := gen.RandBytes(r0, 32)
		stream := gen.RandBytes(r0, 96)
		stream[0] &= 0x7f
		rd := newStream(stream)
		var r, s []byte
		var err error
		if p := vt.Catch(func() { r, s, err = sm2.SignHashed(rd, key, e) }); p != nil {
			vt.Fail(t, rec, "C02:key:panic", "SignHashed panicked for key class %s: %v\nkey=%x", cls, p, key)
			return
		}
		rec.Case(stats.Hash(key, e), true, "key:"+cls)
		if rec.WantSample(cls) {
			rec.Sample(cls, map[string]interface{}{"key": stats.Hex(key), "in_range": valid})
		}
		if valid {
			wr, ws, _, _, werr := sm2ref.Sign(new(big.Int).SetBytes(key), e, stream)
			if werr != nil {
				t.Fatalf("HARNESS: reference failed: %v", werr)
			}
			if err != nil || !bytes.Equal(r, gen.Pad32(wr)) || !bytes.Equal(s, gen.Pad32(ws)) {
				vt.Fail(t, rec, "C02:key:refuses-valid", "boundary key %x: err=%v r=%x s=%x, want r=%064x s=%064x", key, err, r, s, wr, ws)
			}
			return
		}
		if err == nil || r != nil || s != nil {
			vt.Fail(t, rec, "C02:key:accepts-out-of-range:"+cls, "SignHashed accepted a key outside [1,n-2] (class %s): err=%v r=%x s=%x\nkey=%x", cls, err, r, s, key)
		}
	})
}

// Histories of consecutive SignHashed calls whose private keys are RELATED (prefix, extension, padding, one byte changed,
// the same key again): each signature must be the standard's value for ITS key, whatever was signed before.
func TestVerif_C02_RelatedKeyHistory(t *testing.T) {
	rec := stats.Get("C02", "related-keys")
	rec.Rule("rapid history of 2..5 SignHashed calls in one process; the key of each call is derived from the previous one by a drawn relation {same key, same key in a fresh slice, a prefix d[:k] (a shorter encoding = a different integer), an extension of a short key with drawn bytes, left-padded with zeros to 32 bytes (same integer), last byte changed, first byte changed, unrelated}; digest and nonce fresh per call. Oracle: every (r,s) equals sm2ref.Sign for that call's own key (or an error iff the key is outside [1,n-2]). Non-trivial: every history (state carried across calls); distinct by history.")
	t.Cleanup(stats.FlushAll)
	rapid.Check(t, func(t *rapid.T) {
		foreignCalls(t, rec, "foreign") // state left behind by other entry points must not matter
		r0 := gen.Rand(t, "seed")
		_, key, _ := sm2gen.PrivKey(t, "d0")
		steps := gen.Int(t, "steps", 2, 5)
		var hist []byte
		for i := 0; i < steps; i++ {
			if i > 0 {
				rel := gen.Pick(t, "relation", "same", "same-copy", "prefix", "extend", "pad32", "last-byte", "first-byte", "unrelated")
				hist = append(hist, []byte(rel)[0], []byte(rel)[len(rel)-1])
				switch rel {
				case "same-copy":
					key = append([]byte(nil), key...)
				case "prefix":
					if len(key) > 1 {
						key = append([]byte(nil), key[:gen.Uniform(t, "plen", 1, len(key)-1)]...)
					}
				case "extend":
					if len(key) < 32 {
						key = append(append([]byte(nil), key...), gen.RandBytes(r0, 32-len(key))...)
					}
				case "pad32":
					key = gen.Pad32(new(big.Int).SetBytes(key))
				case "last-byte":
					key = append([]byte(nil), key...)
					key[len(key)-1] ^= byte(gen.Uniform(t, "delta", 1, 255))
				case "first-byte":
					key = append([]byte(nil), key...)
					key[0] ^= byte(gen.Uniform(t, "delta", 1, 255))
				case "unrelated":
					_, key, _ = sm2gen.PrivKey(t, "dn")
				}
			}
			d := new(big.Int).SetBytes(key)
			e := gen.RandBytes(r0, 32)
			stream := gen.RandBytes(r0, 96)
			stream[0] &= 0x7f
			var r, s []byte
			var err error
			if p := vt.Catch(func() { r, s, err = sm2.SignHashed(newStream(stream), key, e) }); p != nil {
				vt.Fail(t, rec, "C02:history:panic", "SignHashed panicked at step %d of a related-key history: %v (key %x)", i, p, key)
				return
			}
			if !sm2ref.ValidPrivate(d) {
				if err == nil {
					vt.Fail(t, rec, "C02:key:accepts-out-of-range:history", "step %d: key %x is outside [1,n-2] but a signature was returned", i, key)
					return
				}
				continue
			}
			wr, ws, _, _, werr := sm2ref.Sign(d, e, stream)
			if werr != nil {
				continue
			}
			if err != nil || !bytes.Equal(r, gen.Pad32(wr)) || !bytes.Equal(s, gen.Pad32(ws)) {
				vt.Fail(t, rec, "C02:history:value", "step %d of a history of consecutive SignHashed calls with related keys (relations %q): signature is not the standard's value for this call's key\nkey=%x e=%x stream=%x\n got r=%x s=%x err=%v\nwant r=%064x s=%064x", i, hist, key, e, stream, r, s, err, wr, ws)
				return
			}
		}
		rec.Case(stats.Hash(hist, key), true, fmt.Sprintf("steps:%d", steps))
		if rec.WantSample("history") {
			rec.Sample("history", map[string]interface{}{"relations(first,last letter)": fmt.Sprintf("%q", hist), "last_key": stats.Hex(key)})
		}
	})
}
