package sm2_test

// C02 — signatures are exactly the GM/T 0003.2 values for (d, e, k).
// Oracle: sm2ref.Sign (big.Int, spec order of checks) + byte accounting on the reader.

import (
	"bytes"
	"fmt"
	"math/big"
	"testing"

	"github.com/bilibili/smgo/sm2"
	"pgregory.net/rapid"
	"verif.local/ref/gen"
	"verif.local/ref/sm2gen"
	"verif.local/ref/sm2ref"
	"verif.local/ref/stats"
	"verif.local/ref/vt"
)

func TestVerif_C02_Exact(t *testing.T) {
	rec := stats.Get("C02", "exact")
	rec.Rule("rapid: (d,e,stream) from the solver generator: 0..4 leading candidates each built to hit one named rejection rule (k>=n: n, n+1, 2^256-1, uniform; k=0; r=0 via e=-x([k]G) incl. the twin n-k; r+k=n; s=0 via k=r*d), repeated/interleaved, then an acceptable k (uniform, or solved so that r/s/t is short), then 0..40 trailing bytes. Oracle: SignHashed returns err=nil and exactly sm2ref.Sign's (r,s) as 32-byte strings, and the reader was asked for exactly 32*(candidates) bytes in 32-byte requests. Non-trivial: at least one rejected candidate or r/s with a leading zero byte; distinct by (d,e,stream).")
	t.Cleanup(stats.FlushAll)
	rapid.Check(t, func(t *rapid.T) {
		c := sm2gen.DrawSignCase(t)
		wr, ws, wc, wrej, werr := sm2ref.Sign(c.D, c.E, c.Stream)
		if werr != nil || wc != c.Cands || fmt.Sprint(wrej) != fmt.Sprint(c.Rejected) {
			// generator and reference disagree about the construction: harness problem, not a finding
			t.Fatalf("HARNESS: reference signer disagrees with the construction: err=%v cands=%d/%d rej=%v/%v", werr, wc, c.Cands, wrej, c.Rejected)
		}
		rd := newStream(c.Stream)
		var r, s []byte
		var err error
		if p := vt.Catch(func() { r, s, err = sm2.SignHashed(rd, c.DEnc, c.E) }); p != nil {
			vt.Fail(t, rec, "C02:sign:panic", "SignHashed panicked: %v\nd=%x e=%x stream=%x", p, c.DEnc, c.E, c.Stream)
			return
		}
		cls := append([]string{}, c.Classes...)
		for _, rj := range c.Rejected {
			cls = append(cls, "rule:"+rj)
		}
		nt := len(c.Rejected) > 0 || (len(r) == 32 && (r[0] == 0 || s[0] == 0))
		rec.Case(stats.Hash(c.DEnc, c.E, c.Stream), nt, cls...)
		if len(c.Rejected) > 0 && rec.WantSample("rej:"+c.Rejected[0]) {
			rec.Sample("rej:"+c.Rejected[0], map[string]interface{}{"d": stats.Hex(c.DEnc), "e": stats.Hex(c.E), "stream": stats.Hex(c.Stream), "must_reject": c.Rejected, "want_r": fmt.Sprintf("%064x", wr), "want_s": fmt.Sprintf("%064x", ws)})
		}
		if err != nil {
			vt.Fail(t, rec, "C02:refuses-valid", "SignHashed returned error %v for a valid key and a stream with an acceptable nonce\nd=%x e=%x stream=%x", err, c.DEnc, c.E, c.Stream)
			return
		}
		if len(r) != 32 || len(s) != 32 {
			vt.Fail(t, rec, "C02:length", "r,s lengths %d,%d (want 32,32)", len(r), len(s))
			return
		}
		if !bytes.Equal(r, gen.Pad32(wr)) || !bytes.Equal(s, gen.Pad32(ws)) {
			sig := "C02:value"
			if rd.consumed != 32*c.Cands && len(c.Rejected) > 0 {
				// which candidate did it stop at?
				idx := rd.consumed/32 - 1
				if idx >= 0 && idx < len(c.Rejected) {
					sig = "C02:not-skipped:" + c.Rejected[idx]
				}
			}
			vt.Fail(t, rec, sig, "signature differs from GM/T 0003.2 for (d,e,first acceptable k)\nd=%x e=%x\nstream=%x\nmust reject first: %v\n got r=%x s=%x (consumed %d bytes)\nwant r=%064x s=%064x (consume %d bytes)", c.DEnc, c.E, c.Stream, c.Rejected, r, s, rd.consumed, wr, ws, 32*c.Cands)
			return
		}
		if rd.consumed != 32*c.Cands {
			vt.Fail(t, rec, "C02:consumed", "consumed %d bytes of the stream, want %d (= 32 x %d candidates)", rd.consumed, 32*c.Cands, c.Cands)
		}
		for _, n := range rd.reads {
			if n > 32 {
				vt.Fail(t, rec, "C02:unit", "reader asked for %d bytes in one request (units are 32 bytes)", n)
			}
		}
	})
}

func TestVerif_C02_KeyRange(t *testing.T) {
	rec := stats.Get("C02", "keyrange")
	rec.Rule("rapid: private key encodings outside [1,n-2]: value 0 as 32 zero bytes / 1..31 zero bytes / empty; n-1, n, n+1, 2^256-1, uniform in [n-1,2^256); 33..40-byte strings; and valid controls 1, 2, n-2, n-3. Oracle: out-of-range -> err != nil and r = s = nil, nothing more than needed read; in range -> signature equal to the reference. Every case non-trivial (boundary keys); distinct by (key encoding, e).")
	t.Cleanup(stats.FlushAll)
	rapid.Check(t, func(t *rapid.T) {
		r0 := gen.Rand(t, "seed")
		cls := gen.Pick(t, "class", "zero32", "zeroShort", "empty", "n-1", "n", "n+1", "max", "uniform>=n-1", "long", "valid-low", "valid-high", "nil")
		var key []byte
		valid := false
		switch cls {
		case "zero32":
			key = make([]byte, 32)
		case "zeroShort":
			key = make([]byte, gen.Int(t, "len", 1, 31))
		case "empty":
			key = []byte{}
		case "nil":
			key = nil
		case "n-1":
			key = gen.Pad32(sm2gen.NM1)
		case "n":
			key = gen.Pad32(sm2gen.N)
		case "n+1":
			key = gen.Pad32(new(big.Int).Add(sm2gen.N, big.NewInt(1)))
		case "max":
			key = bytes.Repeat([]byte{0xff}, 32)
		case "uniform>=n-1":
			span := new(big.Int).Sub(sm2gen.T256, sm2gen.NM1)
			v := new(big.Int).SetBytes(gen.RandBytes(r0, 40))
			v.Mod(v, span).Add(v, sm2gen.NM1)
			key = gen.Pad32(v)
		case "long":
			key = gen.RandBytes(r0, gen.Int(t, "len", 33, 40))
			key[0] |= 1 // value >= 2^256, out of range whatever one thinks of over-long encodings
		case "valid-low":
			key = gen.Pad32(big.NewInt(int64(gen.Int(t, "v", 1, 3))))
			valid = true
		case "valid-high":
			key = gen.Pad32(new(big.Int).Sub(sm2gen.N, big.NewInt(int64(gen.Int(t, "v", 2, 4)))))
			valid = true
		}
		e := gen.RandBytes(r0, 32)
		stream := gen.RandBytes(r0, 96)
		stream[0] &= 0x7f
		rd := newStream(stream)
		var r, s []byte
		var err error
		if p := vt.Catch(func() { r, s, err = sm2.SignHashed(rd, key, e) }); p != nil {
			vt.Fail(t, rec, "C02:key:panic", "SignHashed panicked for key class %s: %v\nkey=%x", cls, p, key)
			return
		}
		rec.Case(stats.Hash(key, e), true, "key:"+cls)
		if rec.WantSample(cls) {
			rec.Sample(cls, map[string]interface{}{"key": stats.Hex(key), "in_range": valid})
		}
		if valid {
			wr, ws, _, _, werr := sm2ref.Sign(new(big.Int).SetBytes(key), e, stream)
			if werr != nil {
				t.Fatalf("HARNESS: reference failed: %v", werr)
			}
			if err != nil || !bytes.Equal(r, gen.Pad32(wr)) || !bytes.Equal(s, gen.Pad32(ws)) {
				vt.Fail(t, rec, "C02:key:refuses-valid", "boundary key %x: err=%v r=%x s=%x, want r=%064x s=%064x", key, err, r, s, wr, ws)
			}
			return
		}
		if err == nil || r != nil || s != nil {
			vt.Fail(t, rec, "C02:key:accepts-out-of-range:"+cls, "SignHashed accepted a key outside [1,n-2] (class %s): err=%v r=%x s=%x\nkey=%x", cls, err, r, s, key)
		}
	})
}
