package sm2_test

// C12 — generated and accepted keys are exactly the valid ones.
// Oracles: sm2ref ([d]G by affine big.Int arithmetic, curve predicate), integer range tests.

import (
	"bytes"
	"fmt"
	"math/big"
	"testing"

	"github.com/bilibili/smgo/sm2"
	"pgregory.net/rapid"
	"verif.local/ref/gen"
	"verif.local/ref/sm2gen"
	"verif.local/ref/sm2ref"
	"verif.local/ref/stats"
	"verif.local/ref/vt"
)

// keyCandidate draws a 32-byte candidate with a class; valid says whether it is in [1,n-2].
func c12Candidate(t *rapid.T, label string, wantValid bool) ([]byte, string) {
	r := gen.Rand(t, label+".seed")
	if wantValid {
		cls := gen.Pick(t, label+".vclass", "uniform", "uniform", "1", "2", "n-2", "n-3", "lead00")
		var v *big.Int
		switch cls {
		case "uniform":
			v = new(big.Int).SetBytes(gen.RandBytes(r, 40))
			v.Mod(v, sm2gen.NM2).Add(v, big.NewInt(1))
		case "1":
			v = big.NewInt(1)
		case "2":
			v = big.NewInt(2)
		case "n-2":
			v = new(big.Int).Sub(sm2gen.N, big.NewInt(2))
		case "n-3":
			v = new(big.Int).Sub(sm2gen.N, big.NewInt(3))
		case "lead00":
			v = new(big.Int).SetBytes(gen.RandBytes(r, gen.Int(t, label+".len", 1, 31)))
			if v.Sign() == 0 {
				v = big.NewInt(3)
			}
		}
		return gen.Pad32(v), "valid:" + cls
	}
	cls := gen.Pick(t, label+".iclass", "0", "0", "n-1", "n", "n+1", "max", "uniform>=n-1")
	var v *big.Int
	switch cls {
	case "0":
		v = big.NewInt(0)
	case "n-1":
		v = new(big.Int).Set(sm2gen.NM1)
	case "n":
		v = new(big.Int).Set(sm2gen.N)
	case "n+1":
		v = new(big.Int).Add(sm2gen.N, big.NewInt(1))
	case "max":
		v = new(big.Int).Sub(sm2gen.T256, big.NewInt(1))
	default:
		span := new(big.Int).Sub(sm2gen.T256, sm2gen.NM1)
		v = new(big.Int).SetBytes(gen.RandBytes(r, 40))
		v.Mod(v, span).Add(v, sm2gen.NM1)
	}
	return gen.Pad32(v), "invalid:" + cls
}

func TestVerif_C12_GenerateKey(t *testing.T) {
	rec := stats.Get("C12", "generatekey")
	rec.Rule("rapid: randomness stream = 0..4 (occasionally 10..4000 identical) out-of-range 32-byte candidates (0, n-1, n, n+1, 2^256-1, uniform >= n-1) followed by a valid one (uniform, 1, 2, n-2, n-3, leading zeros) and 0..40 trailing bytes; the reader delivers whole requests or short reads of 1/7/16/31 bytes. Oracle: GenerateKey returns err=nil, priv = the first candidate in [1,n-2], exactly 32 bytes consumed per candidate, (x,y) = sm2ref.Mul(d,G) as 32-byte strings; no panic. Non-trivial: at least one rejected candidate or a boundary key; distinct by stream.")
	t.Cleanup(stats.FlushAll)
	rapid.Check(t, func(t *rapid.T) {
		foreignCalls(t, rec, "foreign") // state left behind by other entry points must not matter
		nrej := gen.Int(t, "nrej", 0, 4)
		if gen.Bool(t, "none") {
			nrej = 0
		}
		var stream []byte
		var cls []string
		if gen.Int(t, "many", 0, 19) == 0 {
			// a long run of rejected candidates (a stuck or biased source): the loop must keep redrawing
			nrej = []int{10, 100, 999, 1000, 1001, 1500, 4000}[gen.Uniform(t, "manyN", 0, 6)]
			b, c := c12Candidate(t, "rejmany", false)
			for i := 0; i < nrej; i++ {
				stream = append(stream, b...)
			}
			cls = append(cls, c, "many-rejected")
		} else {
			for i := 0; i < nrej; i++ {
				b, c := c12Candidate(t, fmt.Sprintf("rej%d", i), false)
				stream = append(stream, b...)
				cls = append(cls, c)
			}
		}
		good, gc := c12Candidate(t, "good", true)
		cls = append(cls, gc, fmt.Sprintf("rejected:%d", min(nrej, 5)))
		stream = append(stream, good...)
		r := gen.Rand(t, "trail")
		stream = append(stream, gen.RandBytes(r, gen.Int(t, "trailing", 0, 40))...)
		rd := newStream(stream)
		if gen.Int(t, "chunked", 0, 2) == 0 {
			rd.chunk = []int{1, 7, 16, 31}[gen.Uniform(t, "chunk", 0, 3)] // a reader may return fewer bytes than asked for
			cls = append(cls, "short-reads")
		}
		var priv, x, y []byte
		var err error
		if p := vt.Catch(func() { priv, x, y, err = sm2.GenerateKey(rd) }); p != nil {
			vt.Fail(t, rec, "C12:generatekey:panic", "GenerateKey panicked: %v\nstream=%x", p, stream)
			return
		}
		rec.Case(stats.Hash(stream), nrej > 0 || gc != "valid:uniform", cls...)
		if nrej > 0 && rec.WantSample(cls[0]) {
			rec.Sample(cls[0], map[string]interface{}{"stream": stats.Hex(stream), "rejected_first": nrej, "expected_priv": stats.Hex(good)})
		}
		if err != nil {
			vt.Fail(t, rec, "C12:generatekey:error", "GenerateKey returned %v on a stream with a valid candidate\nstream=%x", err, stream)
			return
		}
		if !bytes.Equal(priv, good) {
			vt.Fail(t, rec, "C12:generatekey:wrong-candidate", "GenerateKey returned priv=%x, the first candidate in [1,n-2] is %x\nstream=%x (classes %v)", priv, good, stream, cls)
			return
		}
		if rd.consumed != 32*(nrej+1) {
			vt.Fail(t, rec, "C12:generatekey:consumed", "consumed %d bytes, want %d", rd.consumed, 32*(nrej+1))
		}
		px, py, _ := sm2gen.Pub(new(big.Int).SetBytes(good))
		if !bytes.Equal(x, px) || !bytes.Equal(y, py) {
			vt.Fail(t, rec, "C12:generatekey:public", "public key is not [d]G\nd=%x\n got (%x,%x)\nwant (%x,%x)", good, x, y, px, py)
		}
	})
}

func TestVerif_C12_TestPrivateKey(t *testing.T) {
	rec := stats.Get("C12", "testprivatekey")
	rec.Rule("rapid: 32-byte strings: values 0..3, n-4..n+2, 2^256-1, uniform, leading 00/FF runs, strings sharing a k-byte prefix with n-1; and 33..40-byte strings. Oracle: for 32 bytes TestPrivateKey==0 iff 1<=value<=n-2 (non-zero otherwise); for longer strings a non-zero code. Non-trivial: value within 4 of a range end, or shares >= 8 leading bytes with n-1; distinct by bytes.")
	t.Cleanup(stats.FlushAll)
	rapid.Check(t, func(t *rapid.T) {
		foreignCalls(t, rec, "foreign") // state left behind by other entry points must not matter
		r := gen.Rand(t, "seed")
		cls := gen.Pick(t, "class", "low", "high", "uniform", "prefix", "shape", "long")
		var b []byte
		switch cls {
		case "low":
			b = gen.Pad32(big.NewInt(int64(gen.Int(t, "v", 0, 3))))
		case "high":
			b = gen.Pad32(new(big.Int).Add(sm2gen.N, big.NewInt(int64(gen.Uniform(t, "off", -4, 2)))))
		case "uniform":
			b = gen.RandBytes(r, 32)
		case "prefix":
			b = gen.RandBytes(r, 32)
			k := gen.Uniform(t, "k", 1, 32)
			copy(b[:k], gen.Pad32(sm2gen.NM1)[:k])
		case "shape":
			b, _ = gen.Bytes32(t, "b")
		case "long":
			b = gen.RandBytes(r, gen.Int(t, "len", 33, 40))
		}
		var got int
		if p := vt.Catch(func() { got = sm2.TestPrivateKey(b) }); p != nil {
			vt.Fail(t, rec, "C12:testprivatekey:panic", "TestPrivateKey(%x) panicked: %v", b, p)
			return
		}
		v := new(big.Int).SetBytes(b)
		want := len(b) == 32 && sm2ref.ValidPrivate(v)
		pre := 0
		for pre < 32 && pre < len(b) && b[pre] == gen.Pad32(sm2gen.NM1)[pre] {
			pre++
		}
		rec.Case(stats.Hash(b), cls == "low" || cls == "high" || pre >= 8, "class:"+cls, fmt.Sprintf("valid:%v", want))
		if rec.WantSample(cls) {
			rec.Sample(cls, map[string]interface{}{"key": stats.Hex(b), "in_range": want})
		}
		if (got == 0) != want {
			vt.Fail(t, rec, "C12:testprivatekey:verdict", "TestPrivateKey(%x) = %d, but value in [1,n-2] is %v", b, got, want)
		}
	})
}

func TestVerif_C12_DerivePublic(t *testing.T) {
	rec := stats.Get("C12", "derivepublic")
	rec.Rule("rapid: private key strings: valid 32-byte keys; 0, n, 2n (if <2^256) i.e. multiples of n; n-1, n+1..n+5, 2^256-1; lengths 0..40. Oracle: never a panic; returns either an error or exactly the 32-byte coordinates of [d]G by sm2ref; for d = 0 mod n (no affine image) it must be an error; for 32-byte d in [1,n-1] it must succeed. Non-trivial: anything but a uniform valid key; distinct by bytes.")
	t.Cleanup(stats.FlushAll)
	rapid.Check(t, func(t *rapid.T) {
		foreignCalls(t, rec, "foreign") // state left behind by other entry points must not matter
		r := gen.Rand(t, "seed")
		cls := gen.Pick(t, "class", "valid", "valid", "multiple-of-n", "multiple-of-n", "n-1", "above-n", "max", "length", "shape")
		var b []byte
		switch cls {
		case "valid":
			b, _ = c12Candidate(t, "k", true)
		case "multiple-of-n":
			if gen.Bool(t, "zero") {
				b = make([]byte, 32)
			} else {
				b = gen.Pad32(sm2gen.N)
			}
		case "n-1":
			b = gen.Pad32(sm2gen.NM1)
		case "above-n":
			b = gen.Pad32(new(big.Int).Add(sm2gen.N, big.NewInt(int64(gen.Uniform(t, "off", 1, 5)))))
		case "max":
			b = bytes.Repeat([]byte{0xff}, 32)
		case "length":
			n := gen.Int(t, "len", 0, 40)
			if n == 32 {
				n = 31
			}
			b = gen.RandBytes(r, n)
		case "shape":
			b, _ = gen.Bytes32(t, "b")
		}
		in := append([]byte(nil), b...)
		var x, y []byte
		var err error
		if p := vt.Catch(func() { x, y, err = sm2.DerivePublic(b) }); p != nil {
			vt.Fail(t, rec, "C12:derivepublic:panic", "DerivePublic(%x) panicked: %v", b, p)
			return
		}
		rec.Case(stats.Hash(b), cls != "valid", "class:"+cls, fmt.Sprintf("err:%v", err != nil))
		if rec.WantSample(cls) {
			rec.Sample(cls, map[string]interface{}{"priv": stats.Hex(b), "error": err != nil})
		}
		if !bytes.Equal(in, b) {
			vt.Fail(t, rec, "C12:derivepublic:modifies-input", "DerivePublic modified its argument")
		}
		d := new(big.Int).SetBytes(b)
		pt := sm2ref.Mul(d, sm2ref.G)
		if err != nil {
			if len(b) == 32 && d.Sign() > 0 && d.Cmp(sm2gen.N) < 0 {
				vt.Fail(t, rec, "C12:derivepublic:refuses-valid", "DerivePublic(%x) returned error %v for a scalar in [1,n-1]", b, err)
			}
			return
		}
		if pt.Inf {
			vt.Fail(t, rec, "C12:derivepublic:infinity", "DerivePublic(%x): [d]G is the point at infinity, but coordinates (%x,%x) were returned without an error", b, x, y)
			return
		}
		if !bytes.Equal(x, gen.Pad32(pt.X)) || !bytes.Equal(y, gen.Pad32(pt.Y)) {
			vt.Fail(t, rec, "C12:derivepublic:wrong", "DerivePublic(%x) = (%x,%x), [d]G = (%064x,%064x)", b, x, y, pt.X, pt.Y)
		}
	})
}

func TestVerif_C12_CheckOnCurve(t *testing.T) {
	rec := stats.Get("C12", "checkoncurve")
	rec.Rule("rapid: coordinate pairs: on-curve points ([m]G, points with tiny x), (x,p-y), off-curve by one bit or +1, off-curve with y^2 equal to the right-hand side except in part of one 64-bit limb of its plain or Montgomery form (y by square root), x+p / y>=p non-canonical encodings, (0,0), (p,..), wrong lengths 0..40, uniform. Oracle: CheckOnCurve(x,y) iff both are 32 bytes, both values < p and y^2 = x^3-3x+b. Non-trivial: everything except uniform garbage; distinct by (x,y).")
	t.Cleanup(stats.FlushAll)
	rapid.Check(t, func(t *rapid.T) {
		foreignCalls(t, rec, "foreign") // state left behind by other entry points must not matter
		r := gen.Rand(t, "seed")
		d, _, _ := sm2gen.PrivKey(t, "d")
		px, py, _ := sm2gen.Pub(d)
		cls := gen.Pick(t, "class", "oncurve", "oncurve", "negY", "bitflip", "plus1", "x+p", "y>=p", "zero", "p", "length", "uniform", "tinyx", "limb-near-miss", "limb-near-miss")
		x, y := px, py
		switch cls {
		case "limb-near-miss":
			// off the curve, but y^2 and x^3-3x+b agree except in part of one 64-bit limb (plain or Montgomery form)
			if yy, ok := sm2gen.NearMissY(t, "nm", new(big.Int).SetBytes(px)); ok {
				y = gen.Pad32(yy)
			}
		case "negY":
			y = gen.Pad32(new(big.Int).Sub(sm2gen.P, new(big.Int).SetBytes(py)))
		case "bitflip":
			tgt := append([]byte(nil), px...)
			if gen.Bool(t, "y") {
				tgt = append([]byte(nil), py...)
				bit := gen.Uniform(t, "bit", 0, 255)
				tgt[bit>>3] ^= 0x80 >> uint(bit&7)
				y = tgt
			} else {
				bit := gen.Uniform(t, "bit", 0, 255)
				tgt[bit>>3] ^= 0x80 >> uint(bit&7)
				x = tgt
			}
		case "plus1":
			v := new(big.Int).SetBytes(py)
			v.Add(v, big.NewInt(1)).Mod(v, sm2gen.P)
			y = gen.Pad32(v)
		case "x+p", "tinyx":
			xv := big.NewInt(int64(gen.Int(t, "tinyx", 0, 3000)))
			var pt sm2ref.Point
			for {
				var ok bool
				if pt, ok = sm2ref.LiftX(xv); ok {
					break
				}
				xv.Add(xv, big.NewInt(1))
			}
			x, y = gen.Pad32(pt.X), gen.Pad32(pt.Y)
			if cls == "x+p" {
				x = gen.Pad32(new(big.Int).Add(pt.X, sm2gen.P))
			}
		case "y>=p":
			lim := new(big.Int).Sub(sm2gen.T256, sm2gen.P)
			v := new(big.Int).SetBytes(gen.RandBytes(r, 40))
			v.Mod(v, lim).Add(v, sm2gen.P)
			y = gen.Pad32(v)
		case "zero":
			x, y = make([]byte, 32), make([]byte, 32)
		case "p":
			x = gen.Pad32(sm2gen.P)
		case "length":
			n := gen.Int(t, "len", 0, 40)
			if gen.Bool(t, "which") {
				x = gen.RandBytes(r, n)
			} else {
				y = gen.RandBytes(r, n)
			}
		case "uniform":
			x, y = gen.RandBytes(r, 32), gen.RandBytes(r, 32)
		}
		_, want := sm2ref.ValidPublic(x, y)
		var got bool
		if p := vt.Catch(func() { got = sm2.CheckOnCurve(x, y) }); p != nil {
			vt.Fail(t, rec, "C12:checkoncurve:panic", "CheckOnCurve panicked: %v\nx=%x y=%x", p, x, y)
			return
		}
		rec.Case(stats.Hash(x, y), cls != "uniform", "class:"+cls, fmt.Sprintf("on:%v", want))
		if rec.WantSample(cls) {
			rec.Sample(cls, map[string]interface{}{"x": stats.Hex(x), "y": stats.Hex(y), "on_curve_canonical": want})
		}
		if got != want {
			vt.Fail(t, rec, "C12:checkoncurve:verdict:"+cls, "CheckOnCurve=%v, reference predicate=%v (class %s)\nx=%x\ny=%x", got, want, cls, x, y)
		}
	})
}
