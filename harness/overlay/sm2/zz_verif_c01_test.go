package sm2_test

// C01 — every signature the library produces verifies, without panicking.
// Oracle: round trip through the matching verification entry point, plus the
// independent reference verifier (so a signer/verifier pair broken the same
// way is still seen).

import (
	"fmt"
	"math/big"
	"testing"

	"github.com/bilibili/smgo/sm2"
	"pgregory.net/rapid"
	"verif.local/ref/gen"
	"verif.local/ref/sm2gen"
	"verif.local/ref/sm2ref"
	"verif.local/ref/stats"
	"verif.local/ref/vt"
)

func TestVerif_C01_RoundTrip(t *testing.T) {
	rec := stats.Get("C01", "roundtrip")
	rec.Rule("rapid: key d in [1,n-2] (uniform, boundary 1..4 / n-5..n-2, leading zero bytes, shorter-than-32-byte encodings); digest e and nonce stream either uniform or SOLVED (k=s+t*d, e=r-x([k]G)) so that r, s or t=(r+s) mod n has 1..31 leading zero bytes / is tiny / is near n; stream = 0..4 candidates that must be rejected (k>=n, k=0, r=0, r+k=n, s=0) then an acceptable one then trailing bytes; entry pair drawn from {SignHashed/VerifyHashed, SignZa/VerifyZa, Sign/Verify (id 0..64 bytes, msg 0..200)}. Oracle: verify(sign(..)) = (true,nil), no panic in either call, and sm2ref.Verify accepts. Non-trivial: r, s or t has a leading zero byte, or a candidate was rejected, or the key is short/boundary; distinct by (d,e,stream,entry).")
	t.Cleanup(stats.FlushAll)
	rapid.Check(t, func(t *rapid.T) {
		foreignCalls(t, rec, "foreign") // state left behind by other entry points must not matter
		c := sm2gen.DrawSignCase(t)
		px, py, _ := sm2gen.Pub(c.D)
		entry := gen.Pick(t, "entry", "hashed", "hashed", "za", "full")
		r0 := gen.Rand(t, "msgseed")
		var id, msg, za []byte
		if entry != "hashed" {
			id = gen.RandBytes(r0, gen.Int(t, "idlen", 0, 64))
			msg = gen.RandBytes(r0, gen.Len(t, "msglen", 9000))
			za = gen.RandBytes(r0, 32)
		}
		rd := newStream(c.Stream)
		var r, s []byte
		var err error
		p := vt.Catch(func() {
			switch entry {
			case "hashed":
				r, s, err = sm2.SignHashed(rd, c.DEnc, c.E)
			case "za":
				r, s, err = sm2.SignZa(rd, c.DEnc, za, msg)
			case "full":
				r, s, err = sm2.Sign(id, px, py, rd, c.DEnc, msg)
			}
		})
		if p != nil {
			vt.Fail(t, rec, "C01:sign:panic", "%s signing panicked: %v\nd=%x e=%x stream=%x", entry, p, c.DEnc, c.E, c.Stream)
			return
		}
		cls := append([]string{"entry:" + entry}, c.Classes...)
		if err != nil {
			// no signature returned: nothing for C01 to say (C02 judges the signer's accept/refuse decisions)
			rec.Case(stats.Hash(c.DEnc, c.E, c.Stream, []byte(entry)), false, append(cls, "sign-error")...)
			return
		}
		var e []byte
		switch entry {
		case "hashed":
			e = c.E
		case "za":
			e = sm2ref.E(za, msg)
		case "full":
			z, _ := sm2ref.ZA(id, px, py)
			e = sm2ref.E(z, msg)
		}
		var ok bool
		var verr error
		p = vt.Catch(func() {
			switch entry {
			case "hashed":
				ok, verr = sm2.VerifyHashed(px, py, c.E, r, s)
			case "za":
				ok, verr = sm2.VerifyZa(px, py, za, msg, r, s)
			case "full":
				ok, verr = sm2.Verify(id, px, py, msg, r, s)
			}
		})
		lz := func(b []byte) int { return gen.LeadingZeroBytes(b) }
		tt := new(big.Int).Add(new(big.Int).SetBytes(r), new(big.Int).SetBytes(s))
		tt.Mod(tt, sm2gen.N)
		tz := 32 - len(tt.Bytes())
		if len(r) == 32 && len(s) == 32 {
			cls = append(cls, fmt.Sprintf("lz(r)>0:%v", lz(r) > 0), fmt.Sprintf("lz(s)>0:%v", lz(s) > 0), fmt.Sprintf("lz(t)>0:%v", tz > 0))
		}
		nt := lz(r) > 0 || lz(s) > 0 || tz > 0 || len(c.Rejected) > 0 || len(c.DEnc) < 32 || c.Classes[0] == "key:boundary"
		rec.Case(stats.Hash(c.DEnc, c.E, c.Stream, []byte(entry), id, msg), nt, cls...)
		if rec.WantSample(entry) || (tz > 0 && rec.WantSample("short-t")) {
			k := entry
			if tz > 0 {
				k = "short-t"
			}
			rec.Sample(k, map[string]interface{}{"entry": entry, "d": stats.Hex(c.DEnc), "e": stats.Hex(e), "stream": stats.Hex(c.Stream), "r": stats.Hex(r), "s": stats.Hex(s), "t=(r+s)mod n": fmt.Sprintf("%064x", tt), "rejected_first": c.Rejected})
		}
		if p != nil {
			vt.Fail(t, rec, "C01:verify:panic", "%s verification of an honest signature panicked: %v\npx=%x py=%x e=%x\nr=%x s=%x t=%064x", entry, p, px, py, e, r, s, tt)
			return
		}
		if !ok || verr != nil {
			vt.Fail(t, rec, "C01:verify:rejects-honest", "%s verification rejected an honest signature: ok=%v err=%v\nd=%x px=%x py=%x e=%x\nr=%x s=%x", entry, ok, verr, c.DEnc, px, py, e, r, s)
			return
		}
		if !sm2ref.Verify(px, py, e, r, s) {
			vt.Fail(t, rec, "C01:ref-rejects", "library accepts its own signature but the reference verifier does not\nd=%x e=%x r=%x s=%x", c.DEnc, e, r, s)
		}
	})
}
