package sm2_test

// C13 — identity and message are bound into the digest as the standard says.
// Oracles: reference ZA / e built on sm3ref with the curve constants written
// out in the harness; digest-level calls with an identical reader; static
// signatures made by OpenSSL.

import (
	"math/rand"
	"bytes"
	"encoding/hex"
	"encoding/json"
	"fmt"
	"math/big"
	"os"
	"path/filepath"
	"strconv"
	"syscall"
	"testing"
	"verif.local/ref/sm3ref"

	"github.com/bilibili/smgo/sm2"
	"pgregory.net/rapid"
	"verif.local/ref/gen"
	"verif.local/ref/sm2gen"
	"verif.local/ref/sm2ref"
	"verif.local/ref/stats"
	"verif.local/ref/vt"
)

var c13IdLens = []int{0, 1, 16, 31, 32, 53, 54, 55, 56, 62, 63, 64, 117, 118, 119, 120, 8190, 8191, 8192, 8193, 10000, 70000}

func TestVerif_C13_ZA(t *testing.T) {
	rec := stats.Get("C13", "za")
	rec.Rule("rapid: id length from {0,1,16,31,32,53..56,62..64,117..120 (SM3 padding edges of the 2+len+192-byte preimage), 8190,8191,8192,8193,10000,70000} or uniform 0..300 or uniform 0..8300; public key of a generated private key. Oracle: ZA = sm3ref(ENTL||id||a||b||Gx||Gy||xA||yA) with constants from GM/T 0003.5 written out in the harness; len(id) >= 8192 -> error and nil; inputs unmodified. Non-trivial: id length >= 8190 or (2+len+192) mod 64 in 55..64 or 0; distinct by (id,key).")
	t.Cleanup(stats.FlushAll)
	rapid.Check(t, func(t *rapid.T) {
		foreignCalls(t, rec, "foreign") // state left behind by other entry points must not matter
		r := gen.Rand(t, "seed")
		var n int
		switch gen.Pick(t, "idlenClass", "listed", "listed", "short", "any") {
		case "listed":
			n = c13IdLens[gen.Uniform(t, "idlen", 0, len(c13IdLens)-1)]
		case "short":
			n = gen.Uniform(t, "idlenU", 0, 300)
		default:
			n = gen.Uniform(t, "idlenA", 0, 8300)
		}
		id := c13ID(t, r, n)
		id, idShape := gen.Absent(t, "id", id)
		n = len(id)
		rec.Tally("id-shape:" + idShape)
		d, _, _ := sm2gen.PrivKey(t, "d")
		px, py, _ := sm2gen.Pub(d)
		in := snap(id, px, py)
		placed, recordChanged := recordLayoutRW(t, "rec", id, px, py) // the id buffer is overwritten and reused below
		var za []byte
		var err error
		if p := vt.Catch(func() { za, err = sm2.ZA(placed[0], placed[1], placed[2]) }); p != nil {
			vt.Fail(t, rec, "C13:za:panic", "ZA panicked: %v (id length %d)", p, n)
			return
		}
		want, ok := sm2ref.ZA(id, px, py)
		m := (2 + n + 192) % 64
		rec.Case(stats.Hash(id, px), n >= 8190 || m >= 55 || m == 0, fmt.Sprintf("idlen>=8192:%v", n >= 8192), fmt.Sprintf("padEdge:%v", m >= 55 || m == 0))
		if rec.WantSample(fmt.Sprint(n >= 8190)) {
			rec.Sample(fmt.Sprint(n >= 8190), map[string]interface{}{"id_len": n, "id": stats.Hex(id), "px": stats.Hex(px), "py": stats.Hex(py), "must_refuse": !ok})
		}
		if !sameAll(in, id, px, py) {
			vt.Fail(t, rec, "C13:za:modifies-input", "ZA modified an argument")
		}
		if ch := recordChanged(); ch != "" {
			vt.Fail(t, rec, "C13:za:writes-behind-input", "ZA wrote into the caller's buffer behind one of its inputs (arguments laid out as sub-slices of one record): %s", ch)
			return
		}
		if !ok {
			if err == nil || za != nil {
				vt.Fail(t, rec, "C13:za:accepts-long-id", "ZA accepted an id of %d bytes (bit length %d does not fit ENTL): za=%x", n, n*8, za)
			}
			return
		}
		if err != nil {
			vt.Fail(t, rec, "C13:za:refuses", "ZA refused an id of %d bytes: %v", n, err)
			return
		}
		if !bytes.Equal(za, want) {
			vt.Fail(t, rec, "C13:za:value", "ZA mismatch for id of %d bytes\n got %x\nwant %x", n, za, want)
			return
		}
		// the caller reuses its id buffer for the next identity (same length, other contents), then asks again — first with the reused
		// buffer, then with a fresh slice holding the same bytes
		if n > 0 {
			idBuf := placed[0]
			copy(idBuf, gen.RandBytes(r, n))
			want2, _ := sm2ref.ZA(idBuf, px, py)
			for _, arg := range [][]byte{idBuf, append([]byte(nil), idBuf...)} {
				za2, err2 := sm2.ZA(arg, px, py)
				if err2 != nil || !bytes.Equal(za2, want2) {
					vt.Fail(t, rec, "C13:za:stale-after-buffer-reuse", "ZA after the caller overwrote its id buffer with another identity of the same length: result belongs to the OLD identity (or is wrong)\nold id %x\nnew id %x\n got %x\nwant %x", id, idBuf, za2, want2)
					return
				}
			}
		}
	})
}

func TestVerif_C13_Wrappers(t *testing.T) {
	rec := stats.Get("C13", "wrappers")
	rec.Rule("rapid: key, id (lengths as above, < 8192 mostly), message of 0..9000 bytes (half 0..200 with all residues mod 64, a quarter within 72 below / 40 above a power of two, a quarter uniform), a deterministic nonce stream. The arguments of Sign / Verify / ZA are passed as sub-slices of ONE record buffer in a drawn order (capacity extending over the following fields, as when a wire record is parsed in place). Oracle: the record is byte-identical afterwards; Sign(id,..,msg) and SignZa(za,msg) return exactly SignHashed(identical stream, d, e) for e = sm3ref(ZA||msg) computed by the reference; Verify/VerifyZa return what VerifyHashed returns on e (for the true signature and for one with a changed id / message); Sign/Verify with an over-long id return an error. Non-trivial: (32+len(msg)) mod 64 in 55..64 or 0, or id length >= 8190, or a mutated id/message; distinct by (id,msg,key,stream).")
	t.Cleanup(stats.FlushAll)
	rapid.Check(t, func(t *rapid.T) {
		foreignCalls(t, rec, "foreign") // state left behind by other entry points must not matter
		r := gen.Rand(t, "seed")
		var n int
		if gen.Int(t, "listed", 0, 3) == 0 {
			n = rapid.SampledFrom(c13IdLens).Draw(t, "idlen")
		} else {
			n = gen.Int(t, "idlenU", 0, 80)
		}
		id := c13ID(t, r, n)
		msg := gen.RandBytes(r, gen.Len(t, "msglen", 9000))
		id, idShape := gen.Absent(t, "id", id)
		msg, _ = gen.Absent(t, "msg", msg)
		n = len(id)
		rec.Tally("id-shape:" + idShape)
		d, denc, _ := sm2gen.PrivKey(t, "d")
		px, py, _ := sm2gen.Pub(d)
		// The wrappers hash the PUBLIC KEY THEY ARE GIVEN into ZA. One case in five gives them a point whose Y coordinate is
		// word-structured — next to 2^255 (where Y and p-Y have the same top bit), next to 0 or p, or drawn limb by limb — found by
		// solving the curve equation for x (sm2ref.LiftY). The private key stays the drawn one: what is compared is
		// Sign(id, P, d, M) against SignHashed(d, SM3(ZA(id, P) || M)), which does not need the pair to match.
		pubcls := "derived"
		if gen.Uniform(t, "structured-pub", 0, 4) == 0 {
			var y0 *big.Int
			ycls := gen.Pick(t, "ycls", "below-2^255", "below-2^255", "above-p-2^255", "near-0", "near-p", "limbs")
			switch ycls {
			case "below-2^255":
				y0 = new(big.Int).Sub(new(big.Int).Lsh(big.NewInt(1), 255), big.NewInt(int64(gen.Uniform(t, "yoff", 1, 100000))))
			case "above-p-2^255":
				y0 = new(big.Int).Sub(gen.P, new(big.Int).Lsh(big.NewInt(1), 255))
				y0.Add(y0, big.NewInt(int64(gen.Uniform(t, "yoff", 1, 100000))))
			case "near-0":
				y0 = big.NewInt(int64(gen.Uniform(t, "yoff", 1, 100000)))
			case "near-p":
				y0 = new(big.Int).Sub(gen.P, big.NewInt(int64(gen.Uniform(t, "yoff", 1, 100000))))
			default:
				y0, _ = gen.Limbs(t, "ylimbs")
				y0.Mod(y0, gen.P)
			}
			for i := 0; i < 60; i++ {
				if pt, ok := sm2ref.LiftY(y0); ok {
					px, py, pubcls = gen.Pad32(pt.X), gen.Pad32(pt.Y), "structured-Y:"+ycls
					break
				}
				y0.Add(y0, big.NewInt(1)).Mod(y0, gen.P)
			}
		}
		rec.Tally("public-key:" + pubcls)
		// ... and the identity used by the PREVIOUS call may be a near relative of this one: the same id with the negated key (same X),
		// the same key with another id, another key with the same id. Whatever a wrapper remembers about "the last signer" must
		// tell these apart.
		if prior := gen.Pick(t, "previous-identity", "none", "none", "negated-key", "negated-key", "other-id", "other-key"); prior != "none" {
			pid, ppx, ppy := id, px, py
			switch prior {
			case "negated-key":
				ppy = gen.Pad32(new(big.Int).Sub(gen.P, new(big.Int).SetBytes(py)))
			case "other-id":
				pid = append(append([]byte(nil), id...), 'x')
			case "other-key":
				ppx, ppy, _ = sm2gen.Pub(new(big.Int).Add(new(big.Int).Mod(new(big.Int).Add(d, big.NewInt(99)), sm2gen.NM2), big.NewInt(1)))
			}
			if len(pid) < 8192 {
				ps := gen.RandBytes(r, 96)
				ps[0] &= 0x7f
				vt.Catch(func() { sm2.Sign(pid, ppx, ppy, bytes.NewReader(ps), denc, msg) })
			}
			rec.Tally("previous-identity:" + prior)
		}
		stream := gen.RandBytes(r, 128)
		stream[0] &= 0x7f
		m := (32 + len(msg)) % 64
		nt := m >= 55 || m == 0 || n >= 8190
		za, ok := sm2ref.ZA(id, px, py)
		if !ok {
			rec.Case(stats.Hash(id, msg, px, stream), true, "long-id")
			var r1, s1 []byte
			var e1, e2 error
			var v bool
			if p := vt.Catch(func() {
				r1, s1, e1 = sm2.Sign(id, px, py, newStream(stream), denc, msg)
				v, e2 = sm2.Verify(id, px, py, msg, make([]byte, 32), make([]byte, 32))
			}); p != nil {
				vt.Fail(t, rec, "C13:wrappers:panic", "Sign/Verify panicked with a %d-byte id: %v", n, p)
				return
			}
			if e1 == nil || r1 != nil || s1 != nil || v || e2 == nil {
				vt.Fail(t, rec, "C13:za:accepts-long-id", "Sign/Verify accepted an id of %d bytes: sign err=%v verify=(%v,%v)", n, e1, v, e2)
			}
			return
		}
		e := sm2ref.E(za, msg)
		resplit(t, rec, "resplit", id, px, py)
		var r0, s0, r1, s1, r2, s2 []byte
		var e0, e1, e2 error
		if p := vt.Catch(func() {
			r0, s0, e0 = sm2.SignHashed(newStream(stream), denc, e)
			plz, changedZ := recordLayout(t, "signzarec", za, denc, msg)
			r1, s1, e1 = sm2.SignZa(newStream(stream), plz[1], plz[0], plz[2])
			if ch := changedZ(); ch != "" {
				panic("SignZa wrote into the caller's record: " + ch)
			}
			// the id/message-level call gets its arguments as sub-slices of one in-place record
			pl, changed := recordLayout(t, "signrec", id, px, py, denc, msg)
			r2, s2, e2 = sm2.Sign(pl[0], pl[1], pl[2], newStream(stream), pl[3], pl[4])
			if ch := changed(); ch != "" {
				panic("Sign wrote into the caller's record: " + ch)
			}
		}); p != nil {
			vt.Fail(t, rec, "C13:wrappers:panic", "signing panicked: %v", p)
			return
		}
		mut := gen.Pick(t, "mut", "none", "id", "msg", "idlen")
		rec.Case(stats.Hash(id, msg, px, stream, []byte(mut)), nt || mut != "none", fmt.Sprintf("msgPadEdge:%v", m >= 55 || m == 0), "mut:"+mut)
		if rec.WantSample(mut) {
			rec.Sample(mut, map[string]interface{}{"id": stats.Hex(id), "msg": stats.Hex(msg), "d": stats.Hex(denc), "e_ref": stats.Hex(e)})
		}
		if e0 != nil || e1 != nil || e2 != nil {
			vt.Fail(t, rec, "C13:wrappers:error", "signing failed: %v %v %v", e0, e1, e2)
			return
		}
		if !bytes.Equal(r0, r1) || !bytes.Equal(s0, s1) {
			vt.Fail(t, rec, "C13:wrappers:signza", "SignZa(za,msg) differs from SignHashed(SM3(za||msg))\nza=%x msg=%x\n(r,s)=(%x,%x) vs (%x,%x)", za, msg, r1, s1, r0, s0)
			return
		}
		if !bytes.Equal(r0, r2) || !bytes.Equal(s0, s2) {
			vt.Fail(t, rec, "C13:wrappers:sign", "Sign(id,..,msg) differs from SignHashed(SM3(ZA||msg)) with the reference ZA\nid=%x msg=%x\n(r,s)=(%x,%x) vs (%x,%x)", id, msg, r2, s2, r0, s0)
			return
		}
		// verification through the wrappers, on the true and on a perturbed (id, msg)
		id2, msg2 := append([]byte(nil), id...), append([]byte(nil), msg...)
		switch mut {
		case "id":
			if len(id2) > 0 {
				id2[gen.Uniform(t, "ipos", 0, len(id2)-1)] ^= 0x40
			} else {
				id2 = []byte{0}
			}
		case "idlen":
			id2 = append(id2, 0)
		case "msg":
			msg2 = append(msg2, 0)
		}
		za2, _ := sm2ref.ZA(id2, px, py)
		ev := sm2ref.E(za2, msg2)
		var vh, vz, vf bool
		if p := vt.Catch(func() {
			vh, _ = sm2.VerifyHashed(px, py, ev, r0, s0)
			plv, changedV := recordLayout(t, "verifyzarec", za2, px, py, msg2, r0, s0)
			vz, _ = sm2.VerifyZa(plv[1], plv[2], plv[0], plv[3], plv[4], plv[5])
			if ch := changedV(); ch != "" {
				panic("VerifyZa wrote into the caller's record: " + ch)
			}
			pl, changed := recordLayout(t, "verifyrec", id2, px, py, msg2, r0, s0)
			vf, _ = sm2.Verify(pl[0], pl[1], pl[2], pl[3], pl[4], pl[5])
			if ch := changed(); ch != "" {
				panic("Verify wrote into the caller's record: " + ch)
			}
		}); p != nil {
			vt.Fail(t, rec, "C13:wrappers:panic", "verification panicked: %v", p)
			return
		}
		wantV := mut == "none"
		if pubcls != "derived" {
			wantV = sm2ref.Verify(px, py, ev, r0, s0) // the given point is not the signer's key: the reference decides (false)
		}
		if vz != vh || vf != vh || vh != wantV {
			vt.Fail(t, rec, "C13:wrappers:verify", "mutation %s, public key %s: VerifyHashed(e_ref)=%v VerifyZa=%v Verify=%v (want all %v)\nid=%x msg=%x", mut, pubcls, vh, vz, vf, wantV, id2, msg2)
		}
	})
}

// Signatures made by OpenSSL 3.5 (static vectors) verify, and do not with one id byte changed.
func TestVerif_C13_OpenSSLVectors(t *testing.T) {
	rec := stats.Get("C13", "openssl-vectors")
	rec.Rule("static third-party vectors (vectors/sm2_openssl.json: 6 OpenSSL-generated keys x ids of 1..1000 bytes x messages of 14..300 bytes): Verify accepts each, rejects it with one id bit changed, ZA equals the reference ZA, and DerivePublic(priv) equals OpenSSL's public key. Each vector non-trivial; distinct by vector.")
	rec.Exhaustive(true)
	t.Cleanup(stats.FlushAll)
	b, err := os.ReadFile(filepath.Join(os.Getenv("VERIF_DIR"), "vectors", "sm2_openssl.json"))
	if err != nil {
		rec.Skipped("vectors/sm2_openssl.json not readable: " + err.Error())
		return
	}
	var f struct {
		Vectors []struct{ Priv, Px, Py, Id, Msg, R, S string }
	}
	if err := json.Unmarshal(b, &f); err != nil {
		t.Fatal(err)
	}
	hx := func(s string) []byte { v, _ := hex.DecodeString(s); return v }
	for i, v := range f.Vectors {
		id, msg, px, py, r, s := hx(v.Id), hx(v.Msg), hx(v.Px), hx(v.Py), hx(v.R), hx(v.S)
		rec.Enumerated(1, fmt.Sprintf("idlen=%d", len(id)))
		ok, err := sm2.Verify(id, px, py, msg, r, s)
		if !ok || err != nil {
			vt.Fail(t, rec, "C13:openssl:rejects", "vector %d: OpenSSL signature rejected (%v, %v); id %d bytes, msg %d bytes", i, ok, err, len(id), len(msg))
		}
		bad := append([]byte(nil), id...)
		bad[len(bad)/2] ^= 1
		if ok, _ := sm2.Verify(bad, px, py, msg, r, s); ok {
			vt.Fail(t, rec, "C13:openssl:id-not-bound", "vector %d: signature verifies under a different id", i)
		}
		x, y, err := sm2.DerivePublic(hx(v.Priv))
		if err != nil || !bytes.Equal(x, px) || !bytes.Equal(y, py) {
			vt.Fail(t, rec, "C13:openssl:public", "vector %d: DerivePublic differs from OpenSSL's public key", i)
		}
		if i == 0 {
			rec.Sample("vector", map[string]interface{}{"id": v.Id, "msg": v.Msg, "px": v.Px, "r": v.R, "s": v.S})
		}
	}
}

// Complete sweep of the id length (thorough: every length 0..8200; quick: every 16th and the neighbourhood of 8192).
func TestVerif_C13_IdLengthSweep(t *testing.T) {
	rec := stats.Get("C13", "idlen-sweep")
	rec.Exhaustive(true)
	rec.Rule("complete enumeration of the id length: thorough every length 0..8200 (sharded), quick every 16th length plus 8180..8200; fixed key, pseudo-random id bytes. Oracle: ZA equals the reference for lengths < 8192 and is refused from 8192 on. Every case non-trivial; distinct by length.")
	t.Cleanup(stats.FlushAll)
	d := new(big.Int).SetBytes(bytes.Repeat([]byte{0x3c}, 32))
	d.Mod(d, sm2gen.NM2).Add(d, big.NewInt(1))
	px, py, _ := sm2gen.Pub(d)
	id := make([]byte, 8200)
	for i := range id {
		id[i] = byte(i*89 + 3)
	}
	si, sn := vt.Shard()
	for n := 0; n <= 8200; n++ {
		if !vt.Thorough() && n%16 != 0 && n < 8180 {
			continue
		}
		if n%sn != si {
			continue
		}
		rec.Enumerated(1)
		za, err := sm2.ZA(id[:n], px, py)
		want, ok := sm2ref.ZA(id[:n], px, py)
		if !ok {
			if err == nil || za != nil {
				vt.Fail(t, rec, "C13:za:accepts-long-id", "ZA accepted an id of %d bytes", n)
			}
			continue
		}
		if err != nil || !bytes.Equal(za, want) {
			vt.Fail(t, rec, "C13:za:value", "ZA wrong for an id of %d bytes (err=%v)", n, err)
		}
	}
	rec.Sample("sweep", map[string]interface{}{"id_lengths": "0..8200", "px": stats.Hex(px)})
}

// Messages whose digest e = SM3(ZA||M) is >= n as an integer: about 2^-32 of all messages, not constructible (e is a hash
// output), found once by brute force with the reference SM3 (tools/digestsearch) and kept as a corpus. Every other message has
// e < n, so anything the id/message-level wrappers do with "e mod n" is invisible without them. Each corpus entry is re-validated
// with the reference first.
func TestVerif_C13_LargeDigestCorpus(t *testing.T) {
	rec := stats.Get("C13", "large-digest-corpus")
	rec.Rule("corpus vectors/sm2_large_digest.json (key, id, message) with SM3(ZA||M) >= n (searched with the reference SM3, re-validated here) x rapid-drawn nonce streams: Sign(id,..,M) and SignZa(ZA,M) must equal the reference signature of the 32-byte digest e (which the standard reduces only inside r = (e+x1) mod n) and SignHashed on e; Verify/VerifyZa accept it and reject it with a changed message. Non-trivial: every case (e >= n); distinct by (vector, stream).")
	t.Cleanup(stats.FlushAll)
	b, err := os.ReadFile(filepath.Join(os.Getenv("VERIF_DIR"), "vectors", "sm2_large_digest.json"))
	if err != nil {
		rec.Skipped("vectors/sm2_large_digest.json not readable: " + err.Error())
		return
	}
	var f struct {
		Vectors []struct{ Priv, Px, Py, ID, Msg, E string }
	}
	if err := json.Unmarshal(b, &f); err != nil {
		t.Fatal(err)
	}
	type vec struct{ d, px, py, id, msg, za, e []byte }
	var vs []vec
	for _, v := range f.Vectors {
		h := func(s string) []byte { x, _ := hex.DecodeString(s); return x }
		c := vec{d: h(v.Priv), px: h(v.Px), py: h(v.Py), id: h(v.ID), msg: h(v.Msg)}
		gx, gy, _ := sm2gen.Pub(new(big.Int).SetBytes(c.d))
		za, ok := sm2ref.ZA(c.id, c.px, c.py)
		if !ok || !bytes.Equal(gx, c.px) || !bytes.Equal(gy, c.py) {
			continue
		}
		c.za, c.e = za, sm2ref.E(za, c.msg)
		if new(big.Int).SetBytes(c.e).Cmp(gen.N) < 0 {
			continue // not a large digest after all: dropped
		}
		vs = append(vs, c)
	}
	if len(vs) == 0 {
		rec.Skipped("no valid large-digest vector in the corpus")
		return
	}
	rapid.Check(t, func(t *rapid.T) {
		c := vs[gen.Uniform(t, "vector", 0, len(vs)-1)]
		r := gen.Rand(t, "seed")
		stream := gen.RandBytes(r, 128)
		stream[0] &= 0x7f
		rec.Case(stats.Hash(c.msg, stream), true, "large-digest")
		if rec.WantSample("large-digest") {
			rec.Sample("large-digest", map[string]interface{}{"id": stats.Hex(c.id), "msg": stats.Hex(c.msg), "e": stats.Hex(c.e)})
		}
		wr, ws, _, _, werr := sm2ref.Sign(new(big.Int).SetBytes(c.d), c.e, stream)
		if werr != nil {
			return // stream exhausted by rejected candidates (practically never)
		}
		var r0, s0, r1, s1, r2, s2 []byte
		var e0, e1, e2 error
		if p := vt.Catch(func() {
			r0, s0, e0 = sm2.SignHashed(newStream(stream), c.d, c.e)
			r1, s1, e1 = sm2.SignZa(newStream(stream), c.d, c.za, c.msg)
			r2, s2, e2 = sm2.Sign(c.id, c.px, c.py, newStream(stream), c.d, c.msg)
		}); p != nil {
			vt.Fail(t, rec, "C13:wrappers:panic", "signing a message with digest >= n panicked: %v", p)
			return
		}
		if e0 != nil || e1 != nil || e2 != nil {
			vt.Fail(t, rec, "C13:wrappers:error", "signing a message with digest >= n failed: %v %v %v", e0, e1, e2)
			return
		}
		want := fmt.Sprintf("%x|%x", gen.Pad32(wr), gen.Pad32(ws))
		if got := fmt.Sprintf("%x|%x", r0, s0); got != want {
			vt.Fail(t, rec, "C13:large-digest:signhashed", "SignHashed on a digest >= n differs from the reference\ne=%x\n got %s\nwant %s", c.e, got, want)
			return
		}
		if got := fmt.Sprintf("%x|%x", r1, s1); got != want {
			vt.Fail(t, rec, "C13:wrappers:signza", "SignZa(za,msg) differs from the signature of e = SM3(za||msg) when e >= n\nmsg=%x e=%x\n got %s\nwant %s", c.msg, c.e, got, want)
			return
		}
		if got := fmt.Sprintf("%x|%x", r2, s2); got != want {
			vt.Fail(t, rec, "C13:wrappers:sign", "Sign(id,..,msg) differs from the signature of e = SM3(ZA||msg) when e >= n\nid=%x msg=%x e=%x\n got %s\nwant %s", c.id, c.msg, c.e, got, want)
			return
		}
		msg2 := append(append([]byte(nil), c.msg...), 0)
		var vh, vz, vf, bz, bf bool
		if p := vt.Catch(func() {
			vh, _ = sm2.VerifyHashed(c.px, c.py, c.e, r0, s0)
			vz, _ = sm2.VerifyZa(c.px, c.py, c.za, c.msg, r0, s0)
			vf, _ = sm2.Verify(c.id, c.px, c.py, c.msg, r0, s0)
			bz, _ = sm2.VerifyZa(c.px, c.py, c.za, msg2, r0, s0)
			bf, _ = sm2.Verify(c.id, c.px, c.py, msg2, r0, s0)
		}); p != nil {
			vt.Fail(t, rec, "C13:wrappers:panic", "verification panicked: %v", p)
			return
		}
		if !vh || !vz || !vf || bz || bf {
			vt.Fail(t, rec, "C13:wrappers:verify", "message with digest >= n: VerifyHashed(e)=%v VerifyZa=%v Verify=%v (want true); with a changed message VerifyZa=%v Verify=%v (want false)\nmsg=%x e=%x", vh, vz, vf, bz, bf, c.msg, c.e)
		}
	})
}

// The SM3 state-word corpus (blocks after which the chaining value has a 00000000 / ffffffff word) presented through the ZA-level
// entry points: za is whatever 32 bytes the caller passes, so za = block[:32], msg = block[32:] || tail makes za||msg start with a
// corpus block. SignZa / VerifyZa must still behave like the digest-level functions on e = SM3(za||msg).
func TestVerif_C13_StateWordCorpus(t *testing.T) {
	rec := stats.Get("C13", "state-word-corpus")
	rec.Rule("corpus vectors/sm3_state_words.json split as za = block[:32], msg = block[32:] || drawn tail (0..120 bytes) x drawn key and nonce stream: SignZa(za,msg) equals the reference signature of e = sm3ref(za||msg); VerifyZa accepts it and rejects it for a changed tail. Non-trivial: every case; distinct by (block, tail, key).")
	t.Cleanup(stats.FlushAll)
	b, err := os.ReadFile(filepath.Join(os.Getenv("VERIF_DIR"), "vectors", "sm3_state_words.json"))
	if err != nil {
		rec.Skipped("vectors/sm3_state_words.json not readable: " + err.Error())
		return
	}
	var f struct{ Vectors []struct{ Block string } }
	if err := json.Unmarshal(b, &f); err != nil {
		t.Fatal(err)
	}
	var blocks [][]byte
	for _, v := range f.Vectors {
		if blk, _ := hex.DecodeString(v.Block); len(blk) == 64 {
			blocks = append(blocks, blk)
		}
	}
	if len(blocks) == 0 {
		rec.Skipped("empty corpus")
		return
	}
	rapid.Check(t, func(t *rapid.T) {
		r := gen.Rand(t, "seed")
		blk := blocks[gen.Uniform(t, "block", 0, len(blocks)-1)]
		za := append([]byte(nil), blk[:32]...)
		msg := append(append([]byte(nil), blk[32:]...), gen.RandBytes(r, gen.Uniform(t, "tail", 0, 120))...)
		d, denc, _ := sm2gen.PrivKey(t, "d")
		if len(denc) != 32 {
			denc = gen.Pad32(d)
		}
		px, py, _ := sm2gen.Pub(d)
		stream := gen.RandBytes(r, 128)
		stream[0] &= 0x7f
		e := sm2ref.E(za, msg)
		rec.Case(stats.Hash(za, msg, denc), true, "state-word")
		wr, ws, _, _, werr := sm2ref.Sign(d, e, stream)
		if werr != nil {
			return
		}
		var r1, s1 []byte
		var e1 error
		var ok, bad bool
		if p := vt.Catch(func() {
			r1, s1, e1 = sm2.SignZa(newStream(stream), denc, za, msg)
			ok, _ = sm2.VerifyZa(px, py, za, msg, gen.Pad32(wr), gen.Pad32(ws))
			bad, _ = sm2.VerifyZa(px, py, za, append(append([]byte(nil), msg...), 1), gen.Pad32(wr), gen.Pad32(ws))
		}); p != nil {
			vt.Fail(t, rec, "C13:wrappers:panic", "SignZa/VerifyZa panicked: %v", p)
			return
		}
		if e1 != nil || !bytes.Equal(r1, gen.Pad32(wr)) || !bytes.Equal(s1, gen.Pad32(ws)) {
			vt.Fail(t, rec, "C13:wrappers:signza", "SignZa(za,msg) differs from the signature of e = SM3(za||msg) when za||msg starts with a block that leaves a special word in the hash state (err=%v)\nza=%x msg=%x\n got (%x,%x)\nwant (%x,%x)", e1, za, msg, r1, s1, wr, ws)
			return
		}
		if !ok || bad {
			vt.Fail(t, rec, "C13:wrappers:verify", "VerifyZa on such a message: valid signature accepted=%v, with a changed message accepted=%v\nza=%x msg=%x", ok, bad, za, msg)
		}
	})
}

// 32-bit build, thorough tier: a message of 2^28 bytes (bit length 2^31) through SignZa / VerifyZa.
func TestVerif_C13_LargeMessage32Bit(t *testing.T) {
	rec := stats.Get("C13", "large-message-32bit")
	rec.Rule("32-bit build, thorough only: message of 2^28 and 2^28+3 zero bytes (anonymous mapping), drawn za, key and nonce: SignZa equals the reference signature of e = sm3ref(za||msg) (streamed), VerifyZa accepts it. 2 cases, non-trivial (bit length of za||msg at 2^31); distinct by length.")
	rec.Exhaustive(true)
	t.Cleanup(stats.FlushAll)
	if strconv.IntSize != 32 || !vt.Thorough() {
		rec.Skipped("runs in the thorough tier of the 32-bit (GOARCH=386) unit only")
		return
	}
	if si, _ := vt.Shard(); si != 0 {
		return
	}
	mem, err := syscall.Mmap(-1, 0, 1<<28+4096, syscall.PROT_READ, syscall.MAP_ANON|syscall.MAP_PRIVATE)
	if err != nil {
		rec.Skipped("cannot map 256 MiB of zero pages: " + err.Error())
		return
	}
	defer syscall.Munmap(mem)
	d := new(big.Int).SetBytes(bytes.Repeat([]byte{0x42, 0x17}, 16))
	d.Mod(d, sm2gen.NM2).Add(d, big.NewInt(1))
	px, py, _ := sm2gen.Pub(d)
	za := bytes.Repeat([]byte{0xa7}, 32)
	stream := bytes.Repeat([]byte{0x31, 0x5c}, 48)
	for _, n := range []int{1 << 28, 1<<28 + 3} {
		msg := mem[:n]
		st := sm3ref.NewStream()
		st.Write(za)
		for off := 0; off < n; off += 1 << 20 {
			end := off + 1<<20
			if end > n {
				end = n
			}
			st.Write(msg[off:end])
		}
		ev := st.Sum()
		wr, ws, _, _, werr := sm2ref.Sign(d, ev[:], stream)
		if werr != nil {
			t.Fatalf("HARNESS: %v", werr)
		}
		rec.Enumerated(1, "large-message")
		r, s, err := sm2.SignZa(newStream(stream), gen.Pad32(d), za, msg)
		if err != nil || !bytes.Equal(r, gen.Pad32(wr)) || !bytes.Equal(s, gen.Pad32(ws)) {
			vt.Fail(t, rec, "C13:wrappers:signza", "32-bit build: SignZa over a %d-byte message differs from the signature of e = SM3(za||msg) (err=%v)", n, err)
			continue
		}
		if ok, _ := sm2.VerifyZa(px, py, za, msg, gen.Pad32(wr), gen.Pad32(ws)); !ok {
			vt.Fail(t, rec, "C13:wrappers:verify", "32-bit build: VerifyZa rejects the reference signature of a %d-byte message", n)
		}
	}
}

// c13ID returns an id of n bytes: random content, or (one case in four) content built around the identifier every SM2 deployment
// knows — the GM/T 0009 default id "1234567812345678": the default id itself, a prefix of it, the default id followed by other
// bytes, repeated, or with one byte changed. A fast path for "the default id" that recognises it by anything less than its full
// length and content confuses these.
func c13ID(t *rapid.T, r *rand.Rand, n int) []byte {
	if gen.Uniform(t, "id.default-related", 0, 3) != 0 {
		return gen.RandBytes(r, n)
	}
	def := []byte("1234567812345678")
	var id []byte
	switch gen.Pick(t, "id.default-shape", "exact", "prefix-of", "followed-by-random", "followed-by-text", "repeated", "one-byte-changed", "preceded-by") {
	case "exact":
		id = append(id, def...)
	case "prefix-of":
		id = append(id, def[:gen.Uniform(t, "id.pfx", 1, 15)]...)
	case "followed-by-random":
		id = append(append(id, def...), gen.RandBytes(r, gen.Uniform(t, "id.sfx", 1, 40))...)
	case "followed-by-text":
		id = append(append(id, def...), "@example.com"[:gen.Uniform(t, "id.sfx", 1, 12)]...)
	case "repeated":
		for i, k := 0, gen.Uniform(t, "id.rep", 2, 6); i < k; i++ {
			id = append(id, def...)
		}
	case "one-byte-changed":
		id = append(id, def...)
		id[gen.Uniform(t, "id.pos", 0, 15)] ^= byte(1 << uint(gen.Uniform(t, "id.bit", 0, 7)))
	default:
		id = append(gen.RandBytes(r, gen.Uniform(t, "id.pre", 1, 8)), def...)
	}
	return id
}
