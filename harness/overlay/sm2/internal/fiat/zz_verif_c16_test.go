package fiat

// C16 — field arithmetic mod p and mod n agrees with the integers.
// Oracle: math/big. Operands are built from carry-critical 64-bit limbs.

import (
	"bytes"
	"fmt"
	"math/big"
	"testing"

	"pgregory.net/rapid"
	"verif.local/ref/gen"
	"verif.local/ref/stats"
	"verif.local/ref/vt"
)

var (
	c16P = gen.P
	c16N = gen.N
)

func c16Limbs(m *big.Int) []uint64 {
	var out []uint64
	w := new(big.Int).Set(m)
	mask := new(big.Int).SetUint64(^uint64(0))
	for i := 0; i < 4; i++ {
		l := new(big.Int).And(w, mask).Uint64()
		out = append(out, l, l+1, l-1)
		w.Rsh(w, 64)
	}
	return out
}

var c16Extreme = append(append([]uint64{0, 1, 2, 1<<32 - 1, 1 << 32, 1<<32 + 1, 1 << 63, 1<<63 - 1, 1<<64 - 2, 1<<64 - 1},
	c16Limbs(gen.P)...), c16Limbs(gen.N)...)

// c16FirstInInterval returns the smallest x >= 0 with lo <= (a*x mod m) <= hi, or -1 (Euclid-like descent).
func c16FirstInInterval(a, m, lo, hi *big.Int) *big.Int {
	if lo.Sign() == 0 {
		return big.NewInt(0)
	}
	a = new(big.Int).Mod(a, m)
	if a.Sign() == 0 {
		return big.NewInt(-1)
	}
	if new(big.Int).Lsh(a, 1).Cmp(m) > 0 {
		lo, hi = new(big.Int).Sub(m, hi), new(big.Int).Sub(m, lo)
		a = new(big.Int).Sub(m, a)
	}
	t := new(big.Int).Add(lo, a)
	t.Sub(t, big.NewInt(1)).Div(t, a)
	if new(big.Int).Mul(t, a).Cmp(hi) <= 0 {
		return t
	}
	l2, h2 := new(big.Int).Mod(lo, a), new(big.Int).Mod(hi, a)
	if l2.Cmp(h2) > 0 {
		return big.NewInt(-1)
	}
	a2 := new(big.Int).Sub(a, new(big.Int).Mod(m, a))
	y := c16FirstInInterval(a2, a, l2, h2)
	if y.Sign() < 0 {
		return y
	}
	r := new(big.Int).Mul(m, y)
	r.Add(r, lo).Add(r, a).Sub(r, big.NewInt(1)).Div(r, a)
	return r
}

// c16WordOfProduct returns a 64-bit limb x such that word k (0..4) of the 320-bit product x*c has the value target, or nil.
// Word-by-word multiplication code forms exactly these products (operand limb times a multi-limb constant or the other operand);
// a word equal to 2^64-1 or 0 is where a carry added in the wrong place is lost.
func c16WordOfProduct(c *big.Int, k int, target uint64) *big.Int {
	mod := new(big.Int).Lsh(big.NewInt(1), uint(64*(k+1)))
	lo := new(big.Int).Lsh(new(big.Int).SetUint64(target), uint(64*k))
	hi := new(big.Int).Add(lo, new(big.Int).Sub(new(big.Int).Lsh(big.NewInt(1), uint(64*k)), big.NewInt(1)))
	x := c16FirstInInterval(c, mod, lo, hi)
	if x.Sign() <= 0 || x.BitLen() > 64 {
		return nil
	}
	return x
}

// c16MontAccExtreme returns canonical (a, b) whose Montgomery forms A = a*2^256, B = b*2^256 (mod m) make the accumulator of the
// word-by-word Montgomery product A*B after round r (r = 1, 2 or 3, drawn) — (A_low*B + Q*m) / 2^(64r), A_low = A mod 2^(64r),
// Q the r Montgomery quotient words — fall into [2^256 - 2^192, 2^256), the state from which a carry into the next word is most easily
// lost. The low r limbs of both operands fix Q (B_low is SOLVED so that Q is next to 2^(64r); for a square, A_low is searched);
// the accumulator is then affine in the remaining limbs of B, which are taken from the admissible window. For a square a == b.
func c16MontAccExtreme(t *rapid.T, m *big.Int) (a, b *big.Int, ok bool) {
	rnd := gen.Rand(t, "montacc.seed")
	r := uint(gen.Uniform(t, "montacc.round", 1, 3))
	square := gen.Uniform(t, "montacc.square", 0, 2) == 0
	W := new(big.Int).Lsh(big.NewInt(1), 64*r)
	mprime := new(big.Int).ModInverse(m, W)
	mprime.Neg(mprime).Mod(mprime, W)
	rinv := new(big.Int).ModInverse(new(big.Int).Lsh(big.NewInt(1), 256), m)
	randW := func() *big.Int { v := new(big.Int).SetBytes(gen.RandBytes(rnd, 32)); return v.Mod(v, W) }
	var Alow, Blow, Q *big.Int
	if square {
		for try := 0; try < 20000 && Q == nil; try++ {
			x := randW()
			x.SetBit(x, 0, 1)
			q := new(big.Int).Mul(x, x)
			q.Mul(q, mprime).Mod(q, W)
			if new(big.Int).Rsh(q, 64*r-10).Cmp(big.NewInt(1023)) == 0 { // top ten bits set
				Alow, Blow, Q = x, x, q
			}
		}
		if Q == nil {
			return nil, nil, false
		}
	} else {
		Alow = new(big.Int).Sub(W, new(big.Int).SetInt64(int64(2*gen.Uniform(t, "montacc.v", 0, 1<<12)+1)))
		if gen.Bool(t, "montacc.randA") {
			Alow = randW()
			Alow.SetBit(Alow, 0, 1).SetBit(Alow, int(64*r-1), 1)
		}
		Q = new(big.Int).Sub(W, new(big.Int).SetInt64(int64(gen.Uniform(t, "montacc.u", 1, 1<<12))))
		den := new(big.Int).Mul(Alow, mprime)
		den.Mod(den, W)
		inv := new(big.Int).ModInverse(den, W)
		if inv == nil {
			return nil, nil, false
		}
		Blow = new(big.Int).Mul(Q, inv)
		Blow.Mod(Blow, W)
	}
	// A_low*(B_low + W*B_high) + Q*m  in  [(2^256-2^192)*W, 2^256*W)
	c := new(big.Int).Mul(Alow, Blow)
	c.Add(c, new(big.Int).Mul(Q, m))
	step := new(big.Int).Mul(Alow, W)
	lo := new(big.Int).Sub(new(big.Int).Lsh(big.NewInt(1), 256), new(big.Int).Lsh(big.NewInt(1), 192))
	lo.Mul(lo, W).Sub(lo, c)
	hi := new(big.Int).Lsh(W, 256)
	hi.Sub(hi, big.NewInt(1)).Sub(hi, c)
	if hi.Sign() < 0 {
		return nil, nil, false
	}
	bhLo := new(big.Int)
	if lo.Sign() > 0 {
		bhLo.Add(lo, step).Sub(bhLo, big.NewInt(1)).Div(bhLo, step)
	}
	bhHi := new(big.Int).Div(hi, step)
	if bhHi.Cmp(bhLo) < 0 {
		return nil, nil, false
	}
	span := new(big.Int).Sub(bhHi, bhLo)
	bh := new(big.Int).Set(bhLo)
	if span.Sign() > 0 {
		k := new(big.Int).SetBytes(gen.RandBytes(rnd, 32))
		bh.Add(bh, k.Mod(k, new(big.Int).Add(span, big.NewInt(1))))
	}
	if bh.BitLen() > int(64*(4-r)) {
		return nil, nil, false
	}
	B := new(big.Int).Add(Blow, new(big.Int).Mul(bh, W))
	if B.Cmp(m) >= 0 {
		return nil, nil, false
	}
	var A *big.Int
	if square {
		A = B
	} else {
		A = new(big.Int).SetBytes(gen.RandBytes(rnd, 32))
		A.Rsh(A, 64*r).Lsh(A, 64*r).Or(A, Alow)
		if A.Cmp(m) >= 0 {
			A.SetBit(A, 255, 0)
			if A.Cmp(m) >= 0 {
				return nil, nil, false
			}
		}
	}
	// self-check of the construction
	acc := new(big.Int).Mul(Alow, B)
	acc.Add(acc, new(big.Int).Mul(Q, m))
	if new(big.Int).Mod(acc, W).Sign() != 0 {
		t.Fatalf("HARNESS: Montgomery quotient words not as solved (round %d, square %v)", r, square)
	}
	acc.Rsh(acc, 64*r)
	if acc.BitLen() > 256 || new(big.Int).Rsh(acc, 192).Cmp(new(big.Int).SetUint64(^uint64(0))) != 0 {
		t.Fatalf("HARNESS: accumulator %x not in the top window (round %d, square %v)", acc, r, square)
	}
	a = new(big.Int).Mul(A, rinv)
	b = new(big.Int).Mul(B, rinv)
	return a.Mod(a, m), b.Mod(b, m), true
}

// c16Residue draws a canonical residue mod m; ext reports whether an extreme limb was used.
func c16Residue(t *rapid.T, label string, m *big.Int) (v *big.Int, ext bool) {
	cls := gen.Pick(t, label+".class", "limbs", "limbs", "uniform", "near", "word-of-product", "limbs", "uniform", "gcd-slow")
	switch cls {
	case "gcd-slow":
		// a residue on which a Euclid-style (divstep) inversion needs far more iterations than on any random or word-structured
		// value (vectors/divstep_slow.json), as the plain value, as the value whose Montgomery form it is, or as its inverse (the
		// value an inversion is applied to a second time)
		if v = gen.GcdSlow(t, label+".slow"); v == nil {
			t.Fatalf("HARNESS: vectors/divstep_slow.json missing")
		}
		v.Mod(v, m)
		switch gen.Pick(t, label+".slowform", "plain", "plain", "montgomery", "times-R", "negated") {
		case "montgomery":
			rinv := new(big.Int).ModInverse(new(big.Int).Lsh(big.NewInt(1), 256), m)
			v.Mul(v, rinv).Mod(v, m)
		case "times-R":
			v.Lsh(v, 256).Mod(v, m)
		case "negated":
			v.Sub(m, v).Mod(v, m)
		}
		ext = true
	case "word-of-product":
		// one limb of the value SOLVED so that a chosen word of (limb x constant) is 2^64-1 / 0 / ...; the constant is what the
		// conversion into Montgomery form multiplies by (2^512 mod m), the modulus itself (reduction step), or a random operand
		r := gen.Rand(t, label+".wseed")
		var c *big.Int
		switch gen.Pick(t, label+".const", "R^2", "R^2", "modulus", "operand") {
		case "R^2":
			c = new(big.Int).Mod(new(big.Int).Lsh(big.NewInt(1), 512), m)
		case "modulus":
			c = new(big.Int).Set(m)
		default:
			c = new(big.Int).SetBytes(gen.RandBytes(r, 32))
			c.Mod(c, m)
		}
		k := gen.Uniform(t, label+".word", 0, 4)
		target := []uint64{^uint64(0), ^uint64(0), ^uint64(0), 0, 1, 1 << 63, ^uint64(0) - 1}[gen.Uniform(t, label+".target", 0, 6)]
		limb := c16WordOfProduct(c, k, target)
		v = new(big.Int).SetBytes(gen.RandBytes(r, 32))
		if limb != nil {
			w := new(big.Int).Mul(limb, c)
			w.Rsh(w, uint(64*k)).And(w, new(big.Int).SetUint64(^uint64(0)))
			if w.Uint64() != target {
				t.Fatalf("HARNESS: word-of-product solver gave limb %x for constant %x word %d target %x (got %x)", limb, c, k, target, w)
			}
			i := uint(gen.Uniform(t, label+".limbpos", 0, 3))
			mask := new(big.Int).Lsh(new(big.Int).SetUint64(^uint64(0)), 64*i)
			v.AndNot(v, mask).Or(v, new(big.Int).Lsh(limb, 64*i))
			ext = true
		}
		if v.Cmp(m) >= 0 {
			v.SetBit(v, 255, 0) // clear the top bit rather than reduce: the solved limb stays in place
			if v.Cmp(m) >= 0 {
				v.Mod(v, m)
			}
		}
	case "limbs":
		v = new(big.Int)
		for i := 0; i < 4; i++ {
			var l uint64
			if gen.Int(t, label+".ext", 0, 3) != 0 {
				l = rapid.SampledFrom(c16Extreme).Draw(t, label+".limb")
				ext = true
			} else {
				l = rapid.Uint64().Draw(t, label+".limbU")
			}
			v.Lsh(v, 64)
			v.Or(v, new(big.Int).SetUint64(l))
		}
		v.Mod(v, m)
	case "uniform":
		r := gen.Rand(t, label+".seed")
		v = new(big.Int).SetBytes(gen.RandBytes(r, 40))
		v.Mod(v, m)
	default:
		off := int64(gen.Int(t, label+".off", 0, 4))
		if gen.Bool(t, label+".top") {
			v = new(big.Int).Sub(m, big.NewInt(1+off))
		} else {
			v = big.NewInt(off)
		}
		ext = true
	}
	return
}

type c16Field struct {
	name string
	m    *big.Int
	// operations through the real wrappers, on 32-byte canonical encodings
	set  func(b []byte) (interface{}, error)
	bin  func(op string, a, b interface{}) interface{}
	un   func(op string, a interface{}) interface{}
	sel  func(a, b interface{}, cond int) interface{}
	byts func(a interface{}) []byte
}

var c16Fields = []c16Field{
	{
		name: "p", m: gen.P,
		set: func(b []byte) (interface{}, error) { e, err := new(SM2Element).SetBytes(b); return e, err },
		bin: func(op string, a, b interface{}) interface{} {
			x, y, z := a.(*SM2Element), b.(*SM2Element), new(SM2Element)
			switch op {
			case "add":
				return z.Add(x, y)
			case "sub":
				return z.Sub(x, y)
			case "mul":
				return z.Mul(x, y)
			}
			panic(op)
		},
		un: func(op string, a interface{}) interface{} {
			x, z := a.(*SM2Element), new(SM2Element)
			switch op {
			case "opp":
				return z.Opp(x)
			case "square":
				return z.Square(x)
			case "invert":
				return z.Invert(x)
			case "set":
				return z.Set(x)
			}
			panic(op)
		},
		sel: func(a, b interface{}, c int) interface{} {
			return new(SM2Element).Select(a.(*SM2Element), b.(*SM2Element), c)
		},
		byts: func(a interface{}) []byte { return a.(*SM2Element).Bytes() },
	},
	{
		name: "n", m: gen.N,
		set: func(b []byte) (interface{}, error) { e, err := new(SM2ScalarElement).SetBytes(b); return e, err },
		bin: func(op string, a, b interface{}) interface{} {
			x, y, z := a.(*SM2ScalarElement), b.(*SM2ScalarElement), new(SM2ScalarElement)
			switch op {
			case "add":
				return z.Add(x, y)
			case "sub":
				return z.Sub(x, y)
			case "mul":
				return z.Mul(x, y)
			}
			panic(op)
		},
		un: func(op string, a interface{}) interface{} {
			x, z := a.(*SM2ScalarElement), new(SM2ScalarElement)
			switch op {
			case "opp": // the scalar wrapper has no Opp: 0 - x
				return z.Sub(new(SM2ScalarElement), x)
			case "square":
				return z.Square(x)
			case "invert":
				return z.Invert(x)
			case "set":
				return z.Set(x)
			}
			panic(op)
		},
		sel: func(a, b interface{}, c int) interface{} {
			return new(SM2ScalarElement).Select(a.(*SM2ScalarElement), b.(*SM2ScalarElement), c)
		},
		byts: func(a interface{}) []byte { return a.(*SM2ScalarElement).Bytes() },
	},
}

func c16Check(t vt.TB, rec *stats.Recorder, f *c16Field, op string, got interface{}, want *big.Int, args ...*big.Int) {
	gb := f.byts(got)
	if len(gb) != 32 {
		vt.Fail(t, rec, "C16:"+f.name+":bytes-length", "Bytes() returned %d bytes", len(gb))
		return
	}
	gv := new(big.Int).SetBytes(gb)
	if gv.Cmp(f.m) >= 0 {
		vt.Fail(t, rec, "C16:"+f.name+":"+op+":non-canonical", "%s mod %s returned non-canonical %x (args %x)", op, f.name, gv, args)
		return
	}
	if gv.Cmp(want) != 0 {
		vt.Fail(t, rec, "C16:"+f.name+":"+op+":wrong", "%s mod %s: got %x want %x (args %x)", op, f.name, gv, want, args)
	}
}

func TestVerif_C16_Ops(t *testing.T) {
	rec := stats.Get("C16", "ops")
	rec.Rule("rapid: field in {p,n}; operands a,b canonical residues whose 64-bit limbs are drawn from {0,1,2,2^32-1,2^32,2^32+1,2^63-1,2^63,2^64-2,2^64-1, limbs of p and n and limb±1} or uniformly, or 0..4 / m-1..m-5, or uniform mod m, or a pair (for squaring: one operand) solved so that the accumulator of the Montgomery product after round 1, 2 or 3 is in the top 2^-64 of its range; ops add, sub, neg, mul, square, select(cond 0/1), Set, Bytes/SetBytes round trip, Equal/IsZero, each binary op / Select / Opp also with the receiver aliasing the first, the second or both operands; oracle math/big mod m and result < m. Non-trivial: an operand with an extreme limb, or the result needed the final conditional correction (a+b>=m, a<b); distinct by (field,a,b).")
	t.Cleanup(stats.FlushAll)
	rapid.Check(t, func(t *rapid.T) {
		f := &c16Fields[gen.Int(t, "field", 0, 1)]
		a, ea := c16Residue(t, "a", f.m)
		b, eb := c16Residue(t, "b", f.m)
		if gen.Int(t, "same", 0, 9) == 0 {
			b = new(big.Int).Set(a)
		}
		if gen.Uniform(t, "montacc", 0, 5) == 0 {
			// a PAIR of operands solved so that, in the word-by-word Montgomery multiplication of their internal forms, the accumulator
			// after the FIRST round lies in the top 2^-64 of its range (top limb all ones): the state from which a carry into the next
			// word is most easily lost. No single operand, limb or limb product controls that sum.
			if x, y, ok := c16MontAccExtreme(t, f.m); ok {
				a, b, ea, eb = x, y, true, true
				if gen.Bool(t, "montacc-swap") {
					a, b = b, a
				}
			}
		}
		A, err := f.set(gen.Pad32(a))
		if err != nil {
			vt.Fail(t, rec, "C16:"+f.name+":decode-rejects-canonical", "SetBytes rejected canonical %x: %v", a, err)
			return
		}
		B, err := f.set(gen.Pad32(b))
		if err != nil {
			vt.Fail(t, rec, "C16:"+f.name+":decode-rejects-canonical", "SetBytes rejected canonical %x: %v", b, err)
			return
		}
		m := f.m
		mod := func(x *big.Int) *big.Int { return x.Mod(x, m) }
		c16Check(t, rec, f, "roundtrip", A, a, a)
		c16Check(t, rec, f, "add", f.bin("add", A, B), mod(new(big.Int).Add(a, b)), a, b)
		c16Check(t, rec, f, "sub", f.bin("sub", A, B), mod(new(big.Int).Sub(a, b)), a, b)
		c16Check(t, rec, f, "mul", f.bin("mul", A, B), mod(new(big.Int).Mul(a, b)), a, b)
		c16Check(t, rec, f, "mul", f.bin("mul", B, A), mod(new(big.Int).Mul(a, b)), b, a)
		c16Check(t, rec, f, "opp", f.un("opp", A), mod(new(big.Int).Neg(a)), a)
		c16Check(t, rec, f, "square", f.un("square", A), mod(new(big.Int).Mul(a, a)), a)
		c16Check(t, rec, f, "square", f.un("square", B), mod(new(big.Int).Mul(b, b)), b)
		c16Check(t, rec, f, "set", f.un("set", A), a, a)
		c16Check(t, rec, f, "select1", f.sel(A, B, 1), a, a, b)
		c16Check(t, rec, f, "select0", f.sel(A, B, 0), b, a, b)
		// aliasing: out == in
		if f.name == "p" {
			x, _ := new(SM2Element).SetBytes(gen.Pad32(a))
			y, _ := new(SM2Element).SetBytes(gen.Pad32(b))
			x.Mul(x, y)
			c16Check(t, rec, f, "mul-alias", x, mod(new(big.Int).Mul(a, b)), a, b)
			y.Square(y)
			c16Check(t, rec, f, "square-alias", y, mod(new(big.Int).Mul(b, b)), b)
			x2, _ := new(SM2Element).SetBytes(gen.Pad32(a))
			y2, _ := new(SM2Element).SetBytes(gen.Pad32(b))
			if (x2.Equal(y2) == 1) != (a.Cmp(b) == 0) || (x2.IsZero() == 1) != (a.Sign() == 0) {
				vt.Fail(t, rec, "C16:p:equal", "Equal/IsZero wrong for %x, %x", a, b)
			}
			if x2.ToBigInt().Cmp(a) != 0 {
				vt.Fail(t, rec, "C16:p:tobigint", "ToBigInt wrong for %x", a)
			}
		} else {
			x, _ := new(SM2ScalarElement).SetBytes(gen.Pad32(a))
			y, _ := new(SM2ScalarElement).SetBytes(gen.Pad32(b))
			x.Mul(x, y)
			c16Check(t, rec, f, "mul-alias", x, mod(new(big.Int).Mul(a, b)), a, b)
			y.Square(y)
			c16Check(t, rec, f, "square-alias", y, mod(new(big.Int).Mul(b, b)), b)
			x2, _ := new(SM2ScalarElement).SetBytes(gen.Pad32(a))
			y2, _ := new(SM2ScalarElement).SetBytes(gen.Pad32(b))
			if (x2.Equal(y2) == 1) != (a.Cmp(b) == 0) || (x2.IsZero() == 1) != (a.Sign() == 0) {
				vt.Fail(t, rec, "C16:n:equal", "Equal/IsZero wrong for %x, %x", a, b)
			}
			if x2.ToBigInt().Cmp(a) != 0 {
				vt.Fail(t, rec, "C16:n:tobigint", "ToBigInt wrong for %x", a)
			}
		}
		// receiver aliasing: every binary operation and Select with the receiver being the first, the second, or both operands
		{
			mk := func(v *big.Int) interface{} { e, _ := f.set(gen.Pad32(v)); return e }
			type alias struct {
				name string
				run  func() interface{}
				want *big.Int
			}
			var cases []alias
			if f.name == "p" {
				for _, op := range []string{"add", "sub", "mul"} {
					op := op
					w := map[string]*big.Int{"add": new(big.Int).Add(a, b), "sub": new(big.Int).Sub(a, b), "mul": new(big.Int).Mul(a, b)}[op]
					w2 := map[string]*big.Int{"add": new(big.Int).Add(a, a), "sub": big.NewInt(0), "mul": new(big.Int).Mul(a, a)}[op]
					do := func(r, x, y *SM2Element) *SM2Element {
						switch op {
						case "add":
							return r.Add(x, y)
						case "sub":
							return r.Sub(x, y)
						}
						return r.Mul(x, y)
					}
					cases = append(cases,
						alias{op + ":recv=a", func() interface{} { x, y := mk(a).(*SM2Element), mk(b).(*SM2Element); return do(x, x, y) }, mod(w)},
						alias{op + ":recv=b", func() interface{} { x, y := mk(a).(*SM2Element), mk(b).(*SM2Element); return do(y, x, y) }, mod(new(big.Int).Set(w))},
						alias{op + ":all-same", func() interface{} { x := mk(a).(*SM2Element); return do(x, x, x) }, mod(w2)})
				}
				for _, cond := range []int{0, 1} {
					cond := cond
					w := b
					if cond == 1 {
						w = a
					}
					cases = append(cases,
						alias{fmt.Sprintf("select%d:recv=a", cond), func() interface{} { x, y := mk(a).(*SM2Element), mk(b).(*SM2Element); return x.Select(x, y, cond) }, w},
						alias{fmt.Sprintf("select%d:recv=b", cond), func() interface{} { x, y := mk(a).(*SM2Element), mk(b).(*SM2Element); return y.Select(x, y, cond) }, w})
				}
				// (Invert with the receiver aliasing its argument is NOT checked: the addition chain overwrites z before it has finished
				// reading x, nothing documents or uses that aliasing, so demanding it would be asserting a property the code never claims.)
				cases = append(cases, alias{"opp:recv=a", func() interface{} { x := mk(a).(*SM2Element); return x.Opp(x) }, mod(new(big.Int).Neg(a))})
			} else {
				for _, op := range []string{"add", "sub", "mul"} {
					op := op
					w := map[string]*big.Int{"add": new(big.Int).Add(a, b), "sub": new(big.Int).Sub(a, b), "mul": new(big.Int).Mul(a, b)}[op]
					w2 := map[string]*big.Int{"add": new(big.Int).Add(a, a), "sub": big.NewInt(0), "mul": new(big.Int).Mul(a, a)}[op]
					do := func(r, x, y *SM2ScalarElement) *SM2ScalarElement {
						switch op {
						case "add":
							return r.Add(x, y)
						case "sub":
							return r.Sub(x, y)
						}
						return r.Mul(x, y)
					}
					cases = append(cases,
						alias{op + ":recv=a", func() interface{} { x, y := mk(a).(*SM2ScalarElement), mk(b).(*SM2ScalarElement); return do(x, x, y) }, mod(w)},
						alias{op + ":recv=b", func() interface{} { x, y := mk(a).(*SM2ScalarElement), mk(b).(*SM2ScalarElement); return do(y, x, y) }, mod(new(big.Int).Set(w))},
						alias{op + ":all-same", func() interface{} { x := mk(a).(*SM2ScalarElement); return do(x, x, x) }, mod(w2)})
				}
				for _, cond := range []int{0, 1} {
					cond := cond
					w := b
					if cond == 1 {
						w = a
					}
					cases = append(cases,
						alias{fmt.Sprintf("select%d:recv=a", cond), func() interface{} {
							x, y := mk(a).(*SM2ScalarElement), mk(b).(*SM2ScalarElement)
							return x.Select(x, y, cond)
						}, w},
						alias{fmt.Sprintf("select%d:recv=b", cond), func() interface{} {
							x, y := mk(a).(*SM2ScalarElement), mk(b).(*SM2ScalarElement)
							return y.Select(x, y, cond)
						}, w})
				}
			}
			for _, c := range cases {
				c16Check(t, rec, f, "alias:"+c.name, c.run(), c.want, a, b)
			}
		}
		corr := new(big.Int).Add(a, b).Cmp(m) >= 0 || a.Cmp(b) < 0
		nt := ea || eb || corr
		rec.Case(stats.Hash([]byte(f.name), a.Bytes(), b.Bytes()), nt, "field="+f.name, fmt.Sprintf("extreme:%v", ea || eb), fmt.Sprintf("correction:%v", corr))
		if rec.WantSample(f.name) {
			rec.Sample(f.name, map[string]interface{}{"field": f.name, "a": fmt.Sprintf("%064x", a), "b": fmt.Sprintf("%064x", b)})
		}
	})
}

func TestVerif_C16_Invert(t *testing.T) {
	rec := stats.Get("C16", "invert")
	rec.Rule("rapid: field in {p,n}; x a canonical residue (extreme limbs / uniform / 0..4 / m-1..m-5); oracle: Invert(x)*x = 1 (x != 0), Invert(0) = 0, and Invert(x) = x^(m-2) by big.Int.Exp (pins the chain's exponent modulo the order of x; for uniform x that is m-1 up to small factors). Non-trivial: x has an extreme limb or is 0, 1, m-1; distinct by (field,x).")
	t.Cleanup(stats.FlushAll)
	rapid.Check(t, func(t *rapid.T) {
		f := &c16Fields[gen.Int(t, "field", 0, 1)]
		x, ext := c16Residue(t, "x", f.m)
		X, err := f.set(gen.Pad32(x))
		if err != nil {
			vt.Fail(t, rec, "C16:"+f.name+":decode-rejects-canonical", "SetBytes rejected canonical %x", x)
			return
		}
		inv := f.un("invert", X)
		want := new(big.Int).Exp(x, new(big.Int).Sub(f.m, big.NewInt(2)), f.m)
		c16Check(t, rec, f, "invert", inv, want, x)
		prod := f.bin("mul", inv, X)
		one := big.NewInt(1)
		if x.Sign() == 0 {
			one = big.NewInt(0)
		}
		c16Check(t, rec, f, "invert-times-x", prod, one, x)
		rec.Case(stats.Hash([]byte(f.name), x.Bytes()), ext, "field="+f.name, fmt.Sprintf("extreme:%v", ext), fmt.Sprintf("zero:%v", x.Sign() == 0))
		if rec.WantSample(f.name) {
			rec.Sample(f.name, map[string]interface{}{"field": f.name, "x": fmt.Sprintf("%064x", x)})
		}
	})
}

func TestVerif_C16_Decode(t *testing.T) {
	rec := stats.Get("C16", "decode")
	rec.Rule("rapid: byte strings of length 0..40 (32 weighted) with values m-2..m+2, m-1..m+1 moved by one or two powers of two, 2^256-1, 0, uniform, 32-byte strings sharing a k-byte prefix with m; oracle: SetBytes accepts iff len=32 and value < m, on error the receiver is unchanged, accepted values round-trip through Bytes. Non-trivial: rejected input, or value within 2 of the modulus; distinct by (field, bytes).")
	t.Cleanup(stats.FlushAll)
	rapid.Check(t, func(t *rapid.T) {
		f := &c16Fields[gen.Int(t, "field", 0, 1)]
		cls := gen.Pick(t, "class", "near-m", "near-m", "near-m-pow2", "near-m-pow2", "uniform32", "prefix-m", "len", "allFF", "zero")
		r := gen.Rand(t, "seed")
		var b []byte
		switch cls {
		case "near-m":
			v := new(big.Int).Add(f.m, big.NewInt(int64(gen.Uniform(t, "off", -3, 3))))
			b = gen.Pad32(v)
		case "near-m-pow2":
			// m-1, m or m+1 moved by one or two powers of two (a single bit or byte "bumped" somewhere): values that differ from the
			// modulus in the upper or lower half of ONE word only, which a word-wise comparison folds differently than a byte-wise one
			v := new(big.Int).Add(f.m, big.NewInt(int64(gen.Uniform(t, "off", -1, 1))))
			for i, n := 0, gen.Uniform(t, "pows", 1, 2); i < n; i++ {
				d := new(big.Int).Lsh(big.NewInt(1), uint(gen.Uniform(t, fmt.Sprintf("pow%d", i), 0, 255)))
				if gen.Bool(t, fmt.Sprintf("neg%d", i)) {
					v.Sub(v, d)
				} else {
					v.Add(v, d)
				}
			}
			if v.Sign() < 0 || v.BitLen() > 256 {
				v = new(big.Int).Set(f.m)
			}
			b = gen.Pad32(v)
		case "uniform32":
			b = gen.RandBytes(r, 32)
		case "prefix-m":
			b = gen.RandBytes(r, 32)
			k := gen.Uniform(t, "k", 0, 32)
			copy(b[:k], gen.Pad32(f.m)[:k])
		case "len":
			n := gen.Int(t, "n", 0, 40)
			b = gen.RandBytes(r, n)
			if gen.Bool(t, "small") {
				for i := range b {
					b[i] = 0
				}
				if n > 0 {
					b[n-1] = 1
				}
			}
		case "allFF":
			b = bytes.Repeat([]byte{0xff}, 32)
		case "zero":
			b = make([]byte, 32)
		}
		wantOK := len(b) == 32 && new(big.Int).SetBytes(b).Cmp(f.m) < 0
		snap := append([]byte(nil), b...)
		var err error
		var gb []byte
		var unchanged bool
		if f.name == "p" {
			recv, _ := new(SM2Element).SetBytes(gen.Pad32(big.NewInt(7)))
			var e *SM2Element
			if p := vt.Catch(func() { e, err = recv.SetBytes(b) }); p != nil {
				vt.Fail(t, rec, "C16:p:decode-panic", "SetBytes(%x) panicked: %v", b, p)
				return
			}
			if err == nil {
				gb = e.Bytes()
			}
			unchanged = new(big.Int).SetBytes(recv.Bytes()).Cmp(big.NewInt(7)) == 0
		} else {
			recv, _ := new(SM2ScalarElement).SetBytes(gen.Pad32(big.NewInt(7)))
			var e *SM2ScalarElement
			if p := vt.Catch(func() { e, err = recv.SetBytes(b) }); p != nil {
				vt.Fail(t, rec, "C16:n:decode-panic", "SetBytes(%x) panicked: %v", b, p)
				return
			}
			if err == nil {
				gb = e.Bytes()
			}
			unchanged = new(big.Int).SetBytes(recv.Bytes()).Cmp(big.NewInt(7)) == 0
		}
		if (err == nil) != wantOK {
			vt.Fail(t, rec, "C16:"+f.name+":decode-accept", "SetBytes(%x) err=%v, want accept=%v", b, err, wantOK)
		}
		if err != nil && !unchanged {
			vt.Fail(t, rec, "C16:"+f.name+":decode-receiver", "receiver changed on rejected input %x", b)
		}
		if err == nil && !bytes.Equal(gb, b) {
			vt.Fail(t, rec, "C16:"+f.name+":decode-roundtrip", "Bytes(SetBytes(%x)) = %x", b, gb)
		}
		if !bytes.Equal(b, snap) {
			vt.Fail(t, rec, "C16:"+f.name+":decode-modifies-input", "SetBytes modified its argument")
		}
		nt := !wantOK || cls == "near-m"
		rec.Case(stats.Hash([]byte(f.name), b), nt, "field="+f.name, cls, fmt.Sprintf("accept:%v", wantOK))
		if rec.WantSample(cls) {
			rec.Sample(cls, map[string]interface{}{"field": f.name, "bytes": stats.Hex(b), "accept": wantOK})
		}
	})
}

func TestVerif_C16_MultiSelect(t *testing.T) {
	rec := stats.Get("C16", "multiselect")
	rec.Rule("rapid: MultiSelect over a table of width 1..255 distinct elements (the selector is a byte), bits 0..width (and width+1..255 sometimes), fallback element and fallbackCond = (bits != 0) as the callers pass it; oracle: result = table[bits-1] for 1<=bits<=width, fallback for bits=0; Select/cond via big.Int. Non-trivial: bits in {0,1,width} or width in {1,127,255}; distinct by (width,bits,seed).")
	t.Cleanup(stats.FlushAll)
	rapid.Check(t, func(t *rapid.T) {
		width := gen.Int(t, "width", 1, 255)
		if gen.Int(t, "edgeW", 0, 5) == 0 {
			width = rapid.SampledFrom([]int{1, 15, 31, 63, 64, 65, 127, 128, 129, 255}).Draw(t, "w")
		}
		bits := gen.Int(t, "bits", 0, width)
		if gen.Int(t, "edgeB", 0, 3) == 0 {
			bits = rapid.SampledFrom([]int{0, 1, width}).Draw(t, "b")
		}
		r := gen.Rand(t, "seed")
		table := make([]*[4]uint64, width)
		for i := range table {
			table[i] = &[4]uint64{r.Uint64(), r.Uint64(), r.Uint64(), r.Uint64()}
		}
		fb := new(SM2Element).SetRaw([4]uint64{r.Uint64(), r.Uint64(), r.Uint64(), r.Uint64()})
		fbCopy := *fb.GetRaw()
		out := new(SM2Element).SetRaw(fbCopy)
		cond := 0
		if bits != 0 {
			cond = 1
		}
		// as in multiSelectConditioned: receiver is also the fallback
		out.MultiSelect(&table, width, byte(bits), out, cond)
		var want [4]uint64
		if bits == 0 {
			want = fbCopy
		} else {
			want = *table[bits-1]
		}
		if *out.GetRaw() != want {
			vt.Fail(t, rec, "C16:multiselect:wrong", "MultiSelect width=%d bits=%d returned %x want %x", width, bits, *out.GetRaw(), want)
		}
		nt := bits == 0 || bits == 1 || bits == width || width == 1 || width == 127
		rec.Case(stats.Hash([]byte{byte(width), byte(bits)}, []byte(fmt.Sprint(want))), nt, fmt.Sprintf("bits0:%v", bits == 0), fmt.Sprintf("bitsW:%v", bits == width))
		if rec.WantSample("ms") {
			rec.Sample("ms", map[string]interface{}{"width": width, "bits": bits})
		}
	})
}

func TestVerif_C16_EqualPartial(t *testing.T) {
	rec := stats.Get("C16", "equal-partial")
	rec.Rule("rapid: field in {p,n}; element a (extreme limbs / uniform) and b obtained from a by changing only part of ONE 64-bit limb (high 32 bits, low 32 bits, a single bit, or the whole limb) of the PLAIN value or of the MONTGOMERY representation (kept below the modulus); also a = such a sparse difference alone (IsZero). Oracle: Equal(a,b) = 0, Equal(a,a') = 1 for an independently decoded copy, IsZero only for 0, Select and Bytes consistent. Non-trivial: every case; distinct by (field, a, mask, limb, domain).")
	t.Cleanup(stats.FlushAll)
	rapid.Check(t, func(t *rapid.T) {
		f := &c16Fields[gen.Int(t, "field", 0, 1)]
		a, _ := c16Residue(t, "a", f.m)
		limb := gen.Uniform(t, "limb", 0, 3)
		var mask uint64
		part := gen.Pick(t, "part", "high32", "low32", "onebit", "whole")
		switch part {
		case "high32":
			mask = uint64(gen.Uniform(t, "m", 1, 1<<31-1)) << 32
		case "low32":
			mask = uint64(gen.Uniform(t, "m", 1, 1<<31-1))
		case "onebit":
			mask = 1 << uint(gen.Uniform(t, "bitpos", 0, 63))
		default:
			mask = ^uint64(0)
		}
		mont := gen.Bool(t, "montdomain")
		R := new(big.Int).Lsh(big.NewInt(1), 256)
		toDom := func(x *big.Int) *big.Int {
			if mont {
				return new(big.Int).Mod(new(big.Int).Mul(x, R), f.m)
			}
			return new(big.Int).Set(x)
		}
		fromDom := func(x *big.Int) *big.Int {
			if mont {
				return new(big.Int).Mod(new(big.Int).Mul(x, new(big.Int).ModInverse(R, f.m)), f.m)
			}
			return x
		}
		v := toDom(a)
		v.Xor(v, new(big.Int).Lsh(new(big.Int).SetUint64(mask), uint(64*limb)))
		if v.Cmp(f.m) >= 0 {
			return
		}
		b := fromDom(v)
		// the sparse value alone (for IsZero)
		z := fromDom(new(big.Int).Lsh(new(big.Int).SetUint64(mask), uint(64*limb)))
		if z.Cmp(f.m) >= 0 {
			z = big.NewInt(1)
		}
		rec.Case(stats.Hash([]byte(f.name), a.Bytes(), b.Bytes()), true, "field="+f.name, "part:"+part, fmt.Sprintf("mont:%v", mont))
		if rec.WantSample(part) {
			rec.Sample(part, map[string]interface{}{"field": f.name, "a": fmt.Sprintf("%064x", a), "b": fmt.Sprintf("%064x", b), "limb": limb, "domain_montgomery": mont})
		}
		var eqAB, eqAA, zeroZ, zeroD int
		if f.name == "p" {
			A, _ := new(SM2Element).SetBytes(gen.Pad32(a))
			A2, _ := new(SM2Element).SetBytes(gen.Pad32(a))
			B, _ := new(SM2Element).SetBytes(gen.Pad32(b))
			Z, _ := new(SM2Element).SetBytes(gen.Pad32(z))
			eqAB, eqAA, zeroZ = A.Equal(B), A.Equal(A2), Z.IsZero()
			zeroD = new(SM2Element).Sub(A, B).IsZero()
		} else {
			A, _ := new(SM2ScalarElement).SetBytes(gen.Pad32(a))
			A2, _ := new(SM2ScalarElement).SetBytes(gen.Pad32(a))
			B, _ := new(SM2ScalarElement).SetBytes(gen.Pad32(b))
			Z, _ := new(SM2ScalarElement).SetBytes(gen.Pad32(z))
			eqAB, eqAA, zeroZ = A.Equal(B), A.Equal(A2), Z.IsZero()
			zeroD = new(SM2ScalarElement).Sub(A, B).IsZero()
		}
		if eqAB != 0 || eqAA != 1 {
			vt.Fail(t, rec, "C16:"+f.name+":equal", "Equal wrong: Equal(a,b)=%d (want 0), Equal(a,a)=%d (want 1)\na=%064x\nb=%064x (differs in %s of limb %d, montgomery domain=%v)", eqAB, eqAA, a, b, part, limb, mont)
			return
		}
		if (zeroZ == 1) != (z.Sign() == 0) || zeroD != 0 {
			vt.Fail(t, rec, "C16:"+f.name+":iszero", "IsZero wrong for %064x (or for a-b)", z)
		}
	})
}
