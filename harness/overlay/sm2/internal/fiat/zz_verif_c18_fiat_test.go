package fiat

// C18 (field layer) — the constants of the generated field code equal their stated derivations, and C16 — the Bernstein-Yang
// (divstep) inversion that uses them agrees with the integers. Nothing in the library's call graph reaches this inversion today
// (Invert uses the addition chains), which is exactly why a wrong constant here would go unnoticed.

import (
	"fmt"
	"math/big"
	"testing"

	"pgregory.net/rapid"
	"verif.local/ref/gen"
	"verif.local/ref/stats"
	"verif.local/ref/vt"
)

func c18Limbs(v *big.Int, n int) []uint64 {
	out := make([]uint64, n)
	w := new(big.Int).Set(v)
	m := new(big.Int).SetUint64(^uint64(0))
	for i := 0; i < n; i++ {
		out[i] = new(big.Int).And(w, m).Uint64()
		w.Rsh(w, 64)
	}
	return out
}

func TestVerif_C18_FiatConstants(t *testing.T) {
	rec := stats.Get("C18", "fiat-constants")
	rec.Exhaustive(true)
	rec.Rule("complete list: sm2Msat = p and sm2ScalarMsat = n (five limbs), sm2DivstepPrecomp = 2^-741 = ((p+1)/2)^741 mod p in Montgomery form (741 = floor((49*256+57)/17) divsteps), ITERATIONS = 741. Every limb is a case; distinct by (constant, limb).")
	t.Cleanup(stats.FlushAll)
	check := func(name string, got []uint64, want *big.Int) {
		w := c18Limbs(want, len(got))
		for i := range got {
			rec.Enumerated(1, "const:"+name)
			if got[i] != w[i] {
				vt.Fail(t, rec, "C18:fiat:"+name, "%s limb %d is %#016x, its derivation gives %#016x", name, i, got[i], w[i])
				return
			}
		}
	}
	var ms, sms [5]uint64
	sm2Msat(&ms)
	sm2ScalarMsat(&sms)
	check("sm2Msat", ms[:], gen.P)
	check("sm2ScalarMsat", sms[:], gen.N)
	if ITERATIONS != (49*256+57)/17 {
		vt.Fail(t, rec, "C18:fiat:ITERATIONS", "ITERATIONS = %d, the derivation gives %d", ITERATIONS, (49*256+57)/17)
	}
	var pc [4]uint64
	sm2DivstepPrecomp(&pc)
	// after N divsteps the accumulated factor is 2^N, so the correction constant is 2^-N = ((p+1)/2)^N mod p (the comment in the
	// generated code writes floor((m-1)/2)^N, which is the negative of it for odd N; the value that makes sm2Inv an inversion is
	// the one checked here, and TestVerif_C16_DivstepInverse checks that it does)
	half := new(big.Int).Rsh(new(big.Int).Add(gen.P, big.NewInt(1)), 1)
	want := new(big.Int).Exp(half, big.NewInt(int64((49*256+57)/17)), gen.P)
	want.Lsh(want, 256).Mod(want, gen.P) // Montgomery form
	check("sm2DivstepPrecomp", pc[:], want)
	rec.Sample("fiat-constants", map[string]interface{}{"sm2DivstepPrecomp": fmt.Sprintf("%x", pc)})
}

func TestVerif_C16_DivstepInverse(t *testing.T) {
	rec := stats.Get("C16", "divstep-inverse")
	rec.Rule("rapid: residue g mod p (the carry-critical generator of the other sub-checks), handed to the divstep inversion sm2Inv as a plain five-limb value (the convention of the repository's own benchmark). Oracle: the result is the Montgomery form of g^-1 mod p (0 for 0) by math/big, and equals what the addition-chain Invert returns. Non-trivial: an extreme-limb residue; distinct by g.")
	t.Cleanup(stats.FlushAll)
	rapid.Check(t, func(t *rapid.T) {
		g, ext := c16Residue(t, "g", gen.P)
		e, err := new(SM2Element).SetBytes(gen.Pad32(g))
		if err != nil {
			t.Fatalf("HARNESS: %v", err)
		}
		pl := c18Limbs(g, 4) // the routine takes the PLAIN value (saturated, five limbs) and returns the inverse in Montgomery form
		in := [5]uint64{pl[0], pl[1], pl[2], pl[3], 0}
		var out [4]uint64
		if p := vt.Catch(func() { sm2Inv(&out, &in) }); p != nil {
			vt.Fail(t, rec, "C16:divstep:panic", "sm2Inv panicked on g=%x: %v", g, p)
			return
		}
		rec.Case(stats.Hash(g.Bytes()), ext, fmt.Sprintf("extreme:%v", ext))
		want := new(big.Int)
		if g.Sign() != 0 {
			want.ModInverse(g, gen.P)
		}
		got := new(SM2Element).SetRaw(out).ToBigInt()
		if got.Cmp(want) != 0 {
			vt.Fail(t, rec, "C16:p:divstep-invert:wrong", "divstep inversion mod p: g=%x\n got %x\nwant %x", g, got, want)
			return
		}
		if chain := new(SM2Element).Invert(e).ToBigInt(); chain.Cmp(got) != 0 {
			vt.Fail(t, rec, "C16:p:divstep-invert:wrong", "divstep inversion and addition-chain inversion disagree for g=%x", g)
		}
	})
}
