package internal

// C14 — scalar multiplication equals the integer multiple, for all scalars.
// Oracle: sm2ref.Mul (affine big.Int double-and-add, shares nothing with this package).

import (
	"bytes"
	crand "crypto/rand"
	"fmt"
	"io"
	"math/big"
	"testing"

	"pgregory.net/rapid"
	"verif.local/ref/gen"
	"verif.local/ref/sm2gen"
	"verif.local/ref/sm2ref"
	"verif.local/ref/stats"
	"verif.local/ref/vt"
)

type c14Scheme struct {
	name                   string
	f                      func([]byte) (*SM2Point, error)
	window, sub, iter, rem int
}

var c14Schemes = []c14Scheme{
	{"6_3_14", scalarBaseMult_SkipBitExtraction_6_3_14, 6, 3, 14, 4},
	{"5_3_17", scalarBaseMult_SkipBitExtraction_5_3_17, 5, 3, 17, 1},
	{"4_2_32", scalarBaseMult_SkipBitExtraction_4_2_32, 4, 2, 32, 0},
	{"7_3_12", scalarBaseMult_SkipBitExtraction_7_3_12, 7, 3, 12, 4},
}

func c14FromRef(t vt.TB, p sm2ref.Point) *SM2Point {
	q, err := NewSM2Point().SetBytes(sm2ref.Encode(p))
	if err != nil {
		t.Fatalf("HARNESS: cannot import reference point: %v", err)
	}
	return q
}

// c14Construct builds the library's object for a reference point through one of the exported constructors (drawn), so that
// objects of every origin end up as receivers of in-place operations and as arguments of the multiplications.
func c14Construct(t *rapid.T, label string, p sm2ref.Point) (*SM2Point, string) {
	how := gen.Pick(t, label+".ctor", "setbytes", "fromxy", "fromxy", "generator-set")
	q := c14FromRef(t, p)
	if p.Inf && how == "fromxy" {
		how = "setbytes"
	}
	switch how {
	case "fromxy":
		x, y := *q.x.GetRaw(), *q.y.GetRaw()
		return NewFromXY(&x, &y), how
	case "generator-set":
		return NewSM2Generator().Set(q), how
	}
	return q, how
}

// c14Entropy swaps, for one case in five, the process-wide crypto/rand.Reader for a hostile source while the multiplication runs:
// all zeros, all ones, or one that fails. The multiple of a point is a function of the point and the scalar alone; a routine that
// randomises its computation (blinding) must still return it whatever the environment's entropy source delivers.
type c14Reader struct {
	fill byte
	fail bool
}

func (r c14Reader) Read(p []byte) (int, error) {
	if r.fail {
		return 0, io.ErrUnexpectedEOF
	}
	for i := range p {
		p[i] = r.fill
	}
	return len(p), nil
}

func c14Entropy(t *rapid.T, f func()) string {
	kind := gen.Pick(t, "entropy", "system", "system", "system", "system", "zeros", "ones", "failing")
	if kind == "system" {
		f()
		return kind
	}
	old := crand.Reader
	defer func() { crand.Reader = old }()
	crand.Reader = map[string]c14Reader{"zeros": {0, false}, "ones": {0xff, false}, "failing": {0, true}}[kind]
	f()
	return kind
}

func c14Compare(t vt.TB, rec *stats.Recorder, sig, what string, got *SM2Point, err error, want sm2ref.Point, detail string) {
	if err != nil {
		vt.Fail(t, rec, sig+":error", "%s returned error %v\n%s", what, err, detail)
		return
	}
	gb := got.Bytes()
	if !bytes.Equal(gb, sm2ref.Encode(want)) {
		vt.Fail(t, rec, sig+":wrong", "%s differs from the integer multiple\n%s\n got %x\nwant %x", what, detail, gb, sm2ref.Encode(want))
	}
}

func c14Base(t vt.TB, rec *stats.Recorder, sc *c14Scheme, k []byte) {
	var got *SM2Point
	var err error
	if p := vt.Catch(func() { got, err = sc.f(k) }); p != nil {
		vt.Fail(t, rec, "C14:base:"+sc.name+":panic", "base multiplication (%s) panicked: %v\nk=%x", sc.name, p, k)
		return
	}
	c14Compare(t, rec, "C14:base:"+sc.name, "base multiplication scheme "+sc.name, got, err, sm2ref.MulBytes(k, sm2ref.G), fmt.Sprintf("k=%x", k))
}

func TestVerif_C14_Base(t *testing.T) {
	rec := stats.Get("C14", "base")
	rec.Rule("rapid: 32-byte scalar from {uniform, leading 00/FF runs, around 0/n/p/2^256/2^255/n/2, bit runs, one bit, extreme bytes}; all four comb schemes and the exported ScalarBaseMult. Oracle: sm2ref.Mul(k,G) (SEC1 encodings equal, infinity included). Non-trivial: structured scalar, or k = 0 mod n, or k >= n; distinct by k.")
	t.Cleanup(stats.FlushAll)
	rapid.Check(t, func(t *rapid.T) {
		k, cls := gen.Bytes32(t, "k")
		kv := new(big.Int).SetBytes(k)
		nt := cls != "uniform" || kv.Cmp(sm2gen.N) >= 0
		rec.Case(stats.Hash(k), nt, "class:"+cls, fmt.Sprintf("k>=n:%v", kv.Cmp(sm2gen.N) >= 0))
		if rec.WantSample(cls) {
			rec.Sample(cls, map[string]interface{}{"k": stats.Hex(k)})
		}
		for i := range c14Schemes {
			c14Base(t, rec, &c14Schemes[i], k)
		}
		got, err := ScalarBaseMult(k)
		c14Compare(t, rec, "C14:base:exported", "ScalarBaseMult", got, err, sm2ref.MulBytes(k, sm2ref.G), fmt.Sprintf("k=%x", k))
	})
}

// Every value of every window at every position (iteration x sub-table), and every remainder value:
// the scalars that use exactly one table entry. Complete for the active 6_3_14 scheme in quick, for all four in thorough.
func TestVerif_C14_OneWindow(t *testing.T) {
	rec := stats.Get("C14", "one-window")
	rec.Exhaustive(true)
	rec.Rule("complete enumeration of the one-table-entry scalars: for scheme (w,c,it,rem) the scalar with window value v in 1..2^w-1 at iteration i, sub-table j (bits b*c*it+i+j*it+rem) and the rem-bit remainder values; quick: complete for the scheme ScalarBaseMult uses (6_3_14: 2646+15) and every 5th entry of the other three; thorough: complete for all four (about 9800). Plus two-entry combinations (same iteration, different sub-tables). Oracle sm2ref.Mul. Every case non-trivial; distinct by (scheme,i,j,v).")
	t.Cleanup(stats.FlushAll)
	si, sn := vt.Shard()
	idx := 0
	for s := range c14Schemes {
		sc := &c14Schemes[s]
		full := vt.Thorough() || sc.name == "6_3_14"
		for i := 0; i < sc.iter; i++ {
			for j := 0; j < sc.sub; j++ {
				for v := 1; v < 1<<uint(sc.window); v++ {
					idx++
					if idx%sn != si || (!full && idx%5 != 0) {
						continue
					}
					kv := new(big.Int)
					for b := 0; b < sc.window; b++ {
						if v>>uint(b)&1 == 1 {
							kv.SetBit(kv, b*sc.sub*sc.iter+i+j*sc.iter+sc.rem, 1)
						}
					}
					c14Base(t, rec, sc, gen.Pad32(kv))
					rec.Enumerated(1, "scheme:"+sc.name)
					if v == 37 && i == 3 && j == 1 && sc.name == "6_3_14" {
						rec.Sample("one-window", map[string]interface{}{"scheme": sc.name, "iteration": i, "subtable": j, "value": v, "k": fmt.Sprintf("%064x", kv)})
					}
				}
			}
		}
		for v := 1; v < 1<<uint(sc.rem); v++ {
			idx++
			if idx%sn != si {
				continue
			}
			c14Base(t, rec, sc, gen.Pad32(big.NewInt(int64(v))))
			rec.Enumerated(1, "scheme:"+sc.name+":remainder")
		}
		// pairs: all-ones windows in two sub-tables of the same iteration, and in adjacent iterations
		for i := 0; i < sc.iter; i++ {
			idx++
			if idx%sn != si {
				continue
			}
			kv := new(big.Int)
			for _, j := range []int{0, sc.sub - 1} {
				for b := 0; b < sc.window; b++ {
					kv.SetBit(kv, b*sc.sub*sc.iter+i+j*sc.iter+sc.rem, 1)
					kv.SetBit(kv, b*sc.sub*sc.iter+((i+1)%sc.iter)+j*sc.iter+sc.rem, 1)
				}
			}
			c14Base(t, rec, sc, gen.Pad32(kv))
			rec.Enumerated(1, "scheme:"+sc.name+":pairs")
		}
	}
}

func c14Point(t *rapid.T, label string) (sm2ref.Point, string) {
	cls := gen.Pick(t, label+".class", "G", "-G", "2G", "small", "uniform", "uniform", "-small")
	switch cls {
	case "G":
		return sm2ref.G, cls
	case "-G":
		return sm2ref.Neg(sm2ref.G), cls
	case "2G":
		return sm2ref.Double(sm2ref.G), cls
	case "small":
		return sm2ref.Mul(big.NewInt(int64(gen.Int(t, label+".m", 3, 40))), sm2ref.G), cls
	case "-small":
		return sm2ref.Neg(sm2ref.Mul(big.NewInt(int64(gen.Int(t, label+".m", 3, 40))), sm2ref.G)), cls
	}
	r := gen.Rand(t, label+".seed")
	m := new(big.Int).SetBytes(gen.RandBytes(r, 40))
	m.Mod(m, sm2gen.NM1).Add(m, big.NewInt(1))
	return sm2ref.Mul(m, sm2ref.G), cls
}

func TestVerif_C14_Variable(t *testing.T) {
	rec := stats.Get("C14", "variable")
	rec.Rule("rapid: ScalarMult(P,k): P from {G, -G, 2G, [m]G and -[m]G small m, uniform [m]G}, possibly in a non-normalised projective representative; k of length 0..40 bytes (32 weighted) with the 32-byte shapes of the base test, the scalars n-1, n, n+1, and single-nibble scalars v*16^pos. Oracle: sm2ref.Mul(k,P); P unchanged. Non-trivial: anything but (uniform k, uniform P, len 32); distinct by (P,k).")
	t.Cleanup(stats.FlushAll)
	rapid.Check(t, func(t *rapid.T) {
		P, pcls := c14Point(t, "P")
		r := gen.Rand(t, "seed")
		var k []byte
		kcls := gen.Pick(t, "kclass", "shape32", "shape32", "len", "nibble", "near-n", "empty")
		switch kcls {
		case "shape32":
			var c string
			k, c = gen.Bytes32(t, "k")
			kcls = "shape32:" + c
		case "len":
			k = gen.RandBytes(r, gen.Int(t, "len", 1, 40))
		case "nibble":
			k = make([]byte, 32)
			pos := gen.Uniform(t, "pos", 0, 63)
			v := byte(gen.Uniform(t, "v", 1, 15))
			if pos%2 == 0 {
				k[31-pos/2] = v
			} else {
				k[31-pos/2] = v << 4
			}
		case "near-n":
			k = gen.Pad32(new(big.Int).Add(sm2gen.N, big.NewInt(int64(gen.Int(t, "off", -2, 2)))))
		case "empty":
			k = []byte{}
		}
		ip := c14FromRef(t, P)
		if gen.Bool(t, "scale") {
			c15Scale(ip, gen.RandBytes(r, 32))
			pcls += "+scaled"
		}
		before := ip.Bytes()
		var got *SM2Point
		var err error
		var entropy string
		p := vt.Catch(func() { entropy = c14Entropy(t, func() { got, err = ScalarMult(ip, k) }) })
		rec.Tally("crypto/rand.Reader:" + entropy)
		if p != nil {
			vt.Fail(t, rec, "C14:variable:panic", "ScalarMult panicked: %v\nP=%x k=%x", p, sm2ref.Encode(P), k)
			return
		}
		nt := !(kcls == "shape32:uniform" && pcls == "uniform")
		rec.Case(stats.Hash(sm2ref.Encode(P), k), nt, "P:"+pcls, "k:"+kcls)
		if rec.WantSample(kcls) {
			rec.Sample(kcls, map[string]interface{}{"P": stats.Hex(sm2ref.Encode(P)), "k": stats.Hex(k), "P_class": pcls})
		}
		c14Compare(t, rec, "C14:variable", "ScalarMult", got, err, sm2ref.MulBytes(k, P), fmt.Sprintf("P=%x (%s)\nk=%x", sm2ref.Encode(P), pcls, k))
		if !bytes.Equal(before, ip.Bytes()) {
			vt.Fail(t, rec, "C14:variable:modifies-P", "ScalarMult changed its point argument")
		}
	})
}

func TestVerif_C14_Mixed(t *testing.T) {
	rec := stats.Get("C14", "mixed")
	rec.Rule("rapid: ScalarMixedMult_Unsafe(g,P,s): g,s 32-byte scalars (shapes as above, 0, n-1, n, 2^256-1), P as in the variable test; and the coincidences [g]G = +-[s]P built from P=[m]G, g = +-s*m mod n (result 2[g]G or infinity), g = 0 or s = 0; and P solved so that the accumulator of the interleaved loop holds a special value right before a chosen inner addition: infinity, a point with x = 0, the addend itself (doubling case) or its negative. Oracle: sm2ref.Mul(g,G)+sm2ref.Mul(s,P). Non-trivial: structured scalar or special point or coincidence; distinct by (g,P,s).")
	t.Cleanup(stats.FlushAll)
	rapid.Check(t, func(t *rapid.T) {
		mode := gen.Pick(t, "mode", "free", "free", "free", "coincide+", "coincide-", "g=0", "s=0", "midway-infinity", "midway-infinity")
		var P sm2ref.Point
		var pcls string
		var g, s []byte
		gcls, scls := "", ""
		switch mode {
		case "free", "g=0", "s=0":
			P, pcls = c14Point(t, "P")
			g, gcls = gen.Bytes32(t, "g")
			s, scls = gen.Bytes32(t, "s")
			if mode == "g=0" {
				g = make([]byte, 32)
			}
			if mode == "s=0" {
				s = make([]byte, 32)
			}
		case "midway-infinity":
			// P = [d]G with d SOLVED so that the accumulator of the interleaved loop is the point at infinity right after a chosen inner
			// addition (sm2gen.MidwayInfinity models the evaluation order; the oracle below does not)
			g, gcls = gen.Bytes32(t, "g")
			s, scls = gen.Bytes32(t, "s")
			if gen.Bool(t, "small-s") {
				for i := 0; i < 32-gen.Uniform(t, "s-bytes", 1, 4); i++ {
					s[i] = 0
				}
			}
			sp, where, ok := sm2gen.MidwaySpecial(t, "mid", new(big.Int).SetBytes(g), new(big.Int).SetBytes(s))
			if !ok {
				mode = "free"
				P, pcls = c14Point(t, "P")
				break
			}
			P, pcls = sp, "solved:"+where[:min(len(where), 34)]
		default:
			r := gen.Rand(t, "seed")
			m := new(big.Int).SetBytes(gen.RandBytes(r, 40))
			m.Mod(m, sm2gen.NM1).Add(m, big.NewInt(1))
			if gen.Bool(t, "smallm") {
				m = big.NewInt(int64(gen.Int(t, "m", 1, 20)))
			}
			P = sm2ref.Mul(m, sm2ref.G)
			pcls = "[m]G"
			s, scls = gen.Bytes32(t, "s")
			gv := new(big.Int).Mul(new(big.Int).SetBytes(s), m)
			if mode == "coincide-" {
				gv.Neg(gv)
			}
			gv.Mod(gv, sm2gen.N)
			g = gen.Pad32(gv)
		}
		ip := c14FromRef(t, P)
		var got *SM2Point
		var err error
		var entropy string
		p := vt.Catch(func() { entropy = c14Entropy(t, func() { got, err = ScalarMixedMult_Unsafe(g, ip, s) }) })
		rec.Tally("crypto/rand.Reader:" + entropy)
		if p != nil {
			vt.Fail(t, rec, "C14:mixed:panic", "ScalarMixedMult_Unsafe panicked: %v\ng=%x\nP=%x\ns=%x", p, g, sm2ref.Encode(P), s)
			return
		}
		want := sm2ref.Add(sm2ref.MulBytes(g, sm2ref.G), sm2ref.MulBytes(s, P))
		nt := mode != "free" || gcls != "uniform" || scls != "uniform" || pcls != "uniform"
		rec.Case(stats.Hash(g, sm2ref.Encode(P), s), nt, "mode:"+mode, "P:"+pcls, fmt.Sprintf("inf:%v", want.Inf))
		if rec.WantSample(mode) {
			rec.Sample(mode, map[string]interface{}{"g": stats.Hex(g), "P": stats.Hex(sm2ref.Encode(P)), "s": stats.Hex(s), "result_is_infinity": want.Inf})
		}
		c14Compare(t, rec, "C14:mixed", "ScalarMixedMult_Unsafe", got, err, want, fmt.Sprintf("mode %s\ng=%x\nP=%x\ns=%x", mode, g, sm2ref.Encode(P), s))
	})
}

// Every signed digit at (sampled / all) positions of the 4-NAF of s, and every comb window of g, through the mixed routine.
func TestVerif_C14_MixedDigits(t *testing.T) {
	rec := stats.Get("C14", "mixed-digits")
	rec.Exhaustive(true)
	rec.Rule("enumeration: s = v*2^pos for every v in 1..255 (so every signed digit +-1..+-15 and digit pairs occur) at positions pos = 0,8,..,248 and 1,3,5,7 (quick: v odd and pos multiple of 31; thorough: all, sharded), with g=0 and g=all-ones-window scalars, P = [7]G. Oracle sm2ref. Every case non-trivial; distinct by (v,pos,g).")
	t.Cleanup(stats.FlushAll)
	P := sm2ref.Mul(big.NewInt(7), sm2ref.G)
	ip := c14FromRef(t, P)
	si, sn := vt.Shard()
	idx := 0
	gs := [][]byte{make([]byte, 32), gen.Pad32(new(big.Int).Sub(sm2gen.N, big.NewInt(1)))}
	for pos := 0; pos <= 248; pos++ {
		if !vt.Thorough() && pos%31 != 0 {
			continue
		}
		if vt.Thorough() && !(pos%8 == 0 || pos < 8) {
			continue
		}
		for v := 1; v < 256; v++ {
			if !vt.Thorough() && v%2 == 0 {
				continue
			}
			idx++
			if idx%sn != si {
				continue
			}
			sv := new(big.Int).Lsh(big.NewInt(int64(v)), uint(pos))
			s := gen.Pad32(sv)
			for gi, g := range gs {
				got, err := ScalarMixedMult_Unsafe(g, ip, s)
				want := sm2ref.Add(sm2ref.MulBytes(g, sm2ref.G), sm2ref.Mul(sv, P))
				c14Compare(t, rec, "C14:mixed", "ScalarMixedMult_Unsafe", got, err, want, fmt.Sprintf("g=%x s=%x P=[7]G", g, s))
				rec.Enumerated(1, fmt.Sprintf("g%d", gi))
			}
		}
	}
	rec.Sample("digits", map[string]interface{}{"s": "v*2^pos, v=1..255", "P": "[7]G", "g": "0 and n-1"})
}

// Histories on ONE point object: it is re-set in place between multiplications (SetBytes / Set / Add in place / Negate in place),
// and fresh objects with equal coordinates are mixed in — results must only depend on the point's current value.
func TestVerif_C14_PointObjectHistory(t *testing.T) {
	rec := stats.Get("C14", "object-history")
	rec.Rule("rapid history of 3..8 steps on one persistent *SM2Point A (and one persistent scalar buffer); objects are built through a drawn exported constructor (NewSM2Point+SetBytes, NewFromXY on raw coordinates, NewSM2Generator+Set): each step changes A in place (SetBytes of another point, Set from an object of any origin, replace A by a newly constructed object, A.Add(A,G), A.Double(A), A.Negate(A), or leaves it), sometimes makes a MISUSED call first (nil / zero-value point, scalars of the wrong length; recovered, not judged) and then calls ScalarMixedMult_Unsafe(g,A,s), ScalarMult(A,k) or the same on a FRESH object with A's coordinates; oracle sm2ref on A's current value. Non-trivial: a history in which A was mutated between two multiplications (every history); distinct by history.")
	t.Cleanup(stats.FlushAll)
	rapid.Check(t, func(t *rapid.T) {
		r := gen.Rand(t, "seed")
		cur, _ := c14Point(t, "P0")
		A, ctor := c14Construct(t, "A", cur)
		scal := make([]byte, 32)
		steps := gen.Int(t, "steps", 3, 8)
		var hist []byte
		for i := 0; i < steps; i++ {
			switch mut := gen.Pick(t, "mutate", "setbytes", "set", "reconstruct", "add", "double", "negate", "keep"); mut {
			case "setbytes":
				cur, _ = c14Point(t, "P")
				if _, err := A.SetBytes(sm2ref.Encode(cur)); err != nil {
					t.Fatalf("HARNESS: %v", err)
				}
			case "set":
				cur, _ = c14Point(t, "P")
				src, _ := c14Construct(t, "src", cur)
				A.Set(src)
			case "reconstruct":
				cur, _ = c14Point(t, "P")
				if cur.Inf {
					cur = sm2ref.G
				}
				A, _ = c14Construct(t, "A", cur)
			case "add":
				A.Add(A, NewSM2Generator())
				cur = sm2ref.Add(cur, sm2ref.G)
			case "double":
				A.Double(A)
				cur = sm2ref.Double(cur)
			case "negate":
				A.Negate(A)
				cur = sm2ref.Neg(cur)
			}
			if cur.Inf {
				cur = sm2ref.G
				A.Set(NewSM2Generator())
			}
			// now and then a MISUSED call first (nil or zero-value point, scalars of the wrong length): whatever it does — error or
			// panic, recovered like a server recovers a handler — is not judged, but the valid call after it must not be affected
			if gen.Uniform(t, "misuse", 0, 3) == 0 {
				func() {
					defer func() { recover() }()
					bad := gen.RandBytes(r, 32)
					switch gen.Pick(t, "misuse-kind", "nil-point", "zero-value-point", "short-g", "empty-g", "short-s", "long-s", "base-short", "mult-nil") {
					case "nil-point":
						ScalarMixedMult_Unsafe(bad, nil, bad)
					case "zero-value-point":
						ScalarMixedMult_Unsafe(bad, &SM2Point{}, bad)
					case "short-g":
						ScalarMixedMult_Unsafe(bad[:31], A, bad)
					case "empty-g":
						ScalarMixedMult_Unsafe(nil, A, bad)
					case "short-s":
						ScalarMixedMult_Unsafe(bad, A, bad[:gen.Uniform(t, "slen", 0, 31)])
					case "long-s":
						ScalarMixedMult_Unsafe(bad, A, append(bad, 1, 2, 3))
					case "base-short":
						ScalarBaseMult(bad[:gen.Uniform(t, "blen", 0, 31)])
					case "mult-nil":
						ScalarMult(nil, bad)
					}
				}()
				hist = append(hist, 'x')
			}
			copy(scal, gen.RandBytes(r, 32)) // the same backing array is reused for every scalar
			g := gen.RandBytes(r, 32)
			switch gen.Pick(t, "scalars", "full", "full", "small-s", "zero-s-small-g", "small-both") {
			case "small-s":
				for j := 0; j < 30; j++ {
					scal[j] = 0
				}
			case "zero-s-small-g":
				for j := range scal {
					scal[j] = 0
				}
				g = make([]byte, 32)
				g[31] = byte(gen.Uniform(t, "smallg", 1, 15))
			case "small-both":
				for j := 0; j < 31; j++ {
					scal[j], g[j] = 0, 0
				}
			}
			obj := A
			fresh := gen.Bool(t, "fresh")
			if fresh {
				obj, _ = c14Construct(t, "fresh", cur)
			}
			which := gen.Pick(t, "call", "mixed", "mixed", "variable")
			hist = append(hist, []byte(which)[0], byte(i))
			var got *SM2Point
			var err error
			var want sm2ref.Point
			if p := vt.Catch(func() {
				if which == "mixed" {
					got, err = ScalarMixedMult_Unsafe(g, obj, scal)
					want = sm2ref.Add(sm2ref.MulBytes(g, sm2ref.G), sm2ref.MulBytes(scal, cur))
				} else {
					got, err = ScalarMult(obj, scal)
					want = sm2ref.MulBytes(scal, cur)
				}
			}); p != nil {
				vt.Fail(t, rec, "C14:history:panic", "step %d (%s) panicked: %v", i, which, p)
				return
			}
			c14Compare(t, rec, "C14:history:"+which, which+" multiplication in a history on one point object", got, err, want,
				fmt.Sprintf("step %d of %d, point object reused=%v, current point %x, scalar %x, g %x", i, steps, !fresh, sm2ref.Encode(cur), scal, g))
			// the caller owns the returned point and may change it in place; that must not disturb anything else
			if got != nil && err == nil {
				switch gen.Pick(t, "mutate-result", "double", "add", "negate", "none") {
				case "double":
					got.Double(got)
				case "add":
					got.Add(got, NewSM2Generator())
				case "negate":
					got.Negate(got)
				}
			}
			if !bytes.Equal(A.Bytes(), sm2ref.Encode(cur)) {
				vt.Fail(t, rec, "C14:history:modifies-P", "the multiplication changed its point argument")
				return
			}
		}
		// after the history: the base-point machinery still works for every remainder value and a few comb windows
		for k := 1; k <= 15; k++ {
			kb := make([]byte, 32)
			kb[31] = byte(k)
			kb[20] = byte(gen.Uniform(t, "w", 0, 255))
			got, err := ScalarBaseMult(kb)
			c14Compare(t, rec, "C14:history:base-after", "ScalarBaseMult after a history of multiplications whose results were modified in place", got, err, sm2ref.MulBytes(kb, sm2ref.G), fmt.Sprintf("k=%x", kb))
		}
		rec.Case(stats.Hash(hist, sm2ref.Encode(cur), scal), true, fmt.Sprintf("steps:%d", steps), "first-object:"+ctor)
		if rec.WantSample("history") {
			rec.Sample("history", map[string]interface{}{"steps": steps, "last_point": stats.Hex(sm2ref.Encode(cur))})
		}
	})
}

// Complete grid of SMALL scalars through the double-scalar routine: partial sums of the interleaved loop cancel
// (accumulator at infinity in the middle of the computation) for many of these when P is a small negative multiple of G.
func TestVerif_C14_MixedSmallGrid(t *testing.T) {
	rec := stats.Get("C14", "mixed-small-grid")
	rec.Exhaustive(true)
	lim := 48
	pts := []int64{-1, -2, 1}
	if vt.Thorough() {
		lim = 128
		pts = []int64{-1, -2, -3, -5, 1, 2, 3}
	}
	rec.Rule(fmt.Sprintf("complete enumeration: ScalarMixedMult_Unsafe(g, P, s) for every g, s in 0..%d (also shifted left by 14 and 18 bits in thorough) and P = [m]G for m in %v; oracle sm2ref. Every case non-trivial (the accumulator passes through small multiples and infinity); distinct by (g,s,m).", lim-1, pts))
	t.Cleanup(stats.FlushAll)
	si, sn := vt.Shard()
	idx := 0
	shifts := []uint{0}
	if vt.Thorough() {
		shifts = []uint{0, 14, 18}
	}
	for _, m := range pts {
		mm := new(big.Int).Mod(big.NewInt(m), sm2gen.N)
		P := sm2ref.Mul(mm, sm2ref.G)
		ip := c14FromRef(t, P)
		for _, sh := range shifts {
			for g := 0; g < lim; g++ {
				for s := 0; s < lim; s++ {
					idx++
					if idx%sn != si {
						continue
					}
					gv := new(big.Int).Lsh(big.NewInt(int64(g)), sh)
					sv := big.NewInt(int64(s))
					got, err := ScalarMixedMult_Unsafe(gen.Pad32(gv), ip, gen.Pad32(sv))
					want := sm2ref.Add(sm2ref.Mul(gv, sm2ref.G), sm2ref.Mul(sv, P))
					rec.Enumerated(1, fmt.Sprintf("P=[%d]G", m))
					c14Compare(t, rec, "C14:mixed", "ScalarMixedMult_Unsafe on small scalars", got, err, want, fmt.Sprintf("g=%x s=%d P=[%d]G", gv, s, m))
				}
			}
		}
	}
	rec.Sample("grid", map[string]interface{}{"g,s": fmt.Sprintf("0..%d", lim-1), "P": pts})
}

// Every scalar n+delta for small delta (and 2n+delta, 16n+delta as 33-byte scalars for the variable-point routine): as multiples they
// are [delta]G resp. [delta]P, as bit patterns they drive the fixed schedules into their exceptional additions.
func TestVerif_C14_NearOrderSweep(t *testing.T) {
	rec := stats.Get("C14", "near-order-sweep")
	rec.Exhaustive(true)
	hi := 1024
	if vt.Thorough() {
		hi = 8192
	}
	rec.Rule(fmt.Sprintf("complete enumeration: k = n+delta, delta in -64..%d: ScalarBaseMult(k), ScalarMult(P,k) for P in {G, [0x1234567]G}, ScalarMixedMult_Unsafe(k,P,k); and 33-byte k = 2n+delta, 16n+delta for ScalarMult. Oracle sm2ref. Every case non-trivial; distinct by (routine, k).", hi-1))
	t.Cleanup(stats.FlushAll)
	si, sn := vt.Shard()
	mP := sm2ref.Mul(big.NewInt(0x1234567), sm2ref.G)
	pts := []sm2ref.Point{sm2ref.G, mP}
	for d := -64; d < hi; d++ {
		if (d+64)%sn != si {
			continue
		}
		for _, base := range []*big.Int{gen.N, new(big.Int).Lsh(gen.N, 1), new(big.Int).Lsh(gen.N, 4)} {
			kv := new(big.Int).Add(base, big.NewInt(int64(d)))
			k := kv.Bytes()
			ln := 32
			if len(k) > 32 {
				ln = 33
			}
			k = append(make([]byte, ln-len(k)), k...)
			if ln == 32 {
				got, err := ScalarBaseMult(k)
				rec.Enumerated(1, "base")
				c14Compare(t, rec, "C14:near-order:base", "ScalarBaseMult", got, err, sm2ref.MulBytes(k, sm2ref.G), fmt.Sprintf("k=%x (n%+d)", k, d))
			}
			for _, P := range pts {
				ip := c14FromRef(t, P)
				got, err := ScalarMult(ip, k)
				rec.Enumerated(1, "variable")
				c14Compare(t, rec, "C14:near-order:variable", "ScalarMult", got, err, sm2ref.MulBytes(k, P), fmt.Sprintf("k=%x P=%x", k, sm2ref.Encode(P)))
				if ln == 32 {
					got, err = ScalarMixedMult_Unsafe(k, ip, k)
					rec.Enumerated(1, "mixed")
					c14Compare(t, rec, "C14:near-order:mixed", "ScalarMixedMult_Unsafe", got, err, sm2ref.Add(sm2ref.MulBytes(k, sm2ref.G), sm2ref.MulBytes(k, P)), fmt.Sprintf("g=s=%x P=%x", k, sm2ref.Encode(P)))
				}
			}
		}
		if t.Failed() {
			return
		}
	}
	rec.Sample("near-order", map[string]interface{}{"deltas": fmt.Sprintf("-64..%d", hi-1)})
}
