package internal

// C15 — point arithmetic is complete; encodings round-trip and are strict.
// Oracle: the group law on integers via sm2ref ([a]G + [b]G = [a+b mod n]G), the
// curve equation in projective form, and a reference SEC1 decoder.

import (
	"bytes"
	"fmt"
	"math/big"
	"runtime/debug"
	"testing"
	"verif.local/ref/guard"

	"github.com/bilibili/smgo/sm2/internal/fiat"
	"pgregory.net/rapid"
	"verif.local/ref/gen"
	"verif.local/ref/sm2gen"
	"verif.local/ref/sm2ref"
	"verif.local/ref/stats"
	"verif.local/ref/vt"
)

// c15Scale multiplies all three projective coordinates by a non-zero field element derived from seed
// (another representative of the same point).
func c15Scale(p *SM2Point, seed []byte) {
	v := new(big.Int).SetBytes(seed)
	v.Mod(v, new(big.Int).Sub(gen.P, big.NewInt(1))).Add(v, big.NewInt(1))
	l, err := new(fiat.SM2Element).SetBytes(gen.Pad32(v))
	if err != nil {
		panic(err)
	}
	p.x.Mul(p.x, l)
	p.y.Mul(p.y, l)
	p.z.Mul(p.z, l)
}

func c15OnCurveProjective(p *SM2Point) bool {
	X, Y, Z := p.x.ToBigInt(), p.y.ToBigInt(), p.z.ToBigInt()
	P := gen.P
	if Z.Sign() == 0 {
		return X.Sign() == 0 && Y.Sign() != 0
	}
	// Y^2 Z = X^3 - 3 X Z^2 + b Z^3
	l := new(big.Int).Mul(Y, Y)
	l.Mul(l, Z).Mod(l, P)
	r := new(big.Int).Exp(X, big.NewInt(3), P)
	t := new(big.Int).Mul(X, Z)
	t.Mul(t, Z).Mul(t, big.NewInt(3))
	r.Sub(r, t)
	t = new(big.Int).Exp(Z, big.NewInt(3), P)
	t.Mul(t, sm2ref.B)
	r.Add(r, t).Mod(r, P)
	return l.Cmp(r) == 0
}

func c15Scalar(t *rapid.T, label string) (*big.Int, string) {
	cls := gen.Pick(t, label+".class", "0", "1", "2", "3", "n-1", "n-2", "uniform", "uniform", "small")
	switch cls {
	case "0":
		return big.NewInt(0), cls
	case "1":
		return big.NewInt(1), cls
	case "2":
		return big.NewInt(2), cls
	case "3":
		return big.NewInt(3), cls
	case "n-1":
		return new(big.Int).Sub(sm2gen.N, big.NewInt(1)), cls
	case "n-2":
		return new(big.Int).Sub(sm2gen.N, big.NewInt(2)), cls
	case "small":
		return big.NewInt(int64(gen.Int(t, label+".v", 4, 50))), cls
	}
	r := gen.Rand(t, label+".seed")
	v := new(big.Int).SetBytes(gen.RandBytes(r, 40))
	return v.Mod(v, sm2gen.N), cls
}

// c15Operand draws a curve point: a multiple of G (scalar classes above) or a special point with a tiny x coordinate
// (x = 0, 1, 2, ... lifted by a square root; includes the points (0, ±sqrt(b))), possibly negated.
func c15Operand(t *rapid.T, label string) (sm2ref.Point, string) {
	if gen.Int(t, label+".special", 0, 4) == 0 {
		x := big.NewInt(int64(gen.Int(t, label+".tinyx", 0, 40)))
		if gen.Bool(t, label+".x0") {
			x.SetInt64(0)
		}
		for {
			if pt, ok := sm2ref.LiftX(x); ok {
				if gen.Bool(t, label+".neg") {
					pt = sm2ref.Neg(pt)
				}
				return pt, fmt.Sprintf("tinyx(x=0:%v)", x.Sign() == 0)
			}
			x.Add(x, big.NewInt(1))
		}
	}
	a, cls := c15Scalar(t, label)
	return sm2ref.Mul(a, sm2ref.G), cls
}

func c15Raw(p *SM2Point) [3][4]uint64 {
	return [3][4]uint64{*p.x.GetRaw(), *p.y.GetRaw(), *p.z.GetRaw()}
}

func TestVerif_C15_GroupLaw(t *testing.T) {
	rec := stats.Get("C15", "grouplaw")
	rec.Rule("rapid: operands [a]G, [b]G with a,b from {0,1,2,3,n-1,n-2,small,uniform}, or special points with tiny x (x = 0,1,2,.. lifted by square root, incl. (0, ±sqrt b)), relation {free, equal, opposite}; each operand normalised or scaled by a random non-zero field element (another projective representative; also for infinity); aliasing pattern {fresh receiver, recv=p1, recv=p2, p1=p2 same pointer, all the same}; operations Add, Double, Negate, Select(cond 0/1), Set. Oracle: result encodes [a+b mod n]G / [2a]G / [-a]G by sm2ref; result satisfies the projective curve equation or is (0:y!=0:0); non-receiver operands unchanged. Non-trivial: exceptional pair (equal, opposite, an operand at infinity) or aliasing or a scaled representative; distinct by (a,b,scales,alias,op).")
	t.Cleanup(stats.FlushAll)
	rapid.Check(t, func(t *rapid.T) {
		PA, acls := c15Operand(t, "a")
		PB, bcls := c15Operand(t, "b")
		rel := gen.Pick(t, "rel", "free", "free", "equal", "opposite")
		switch rel {
		case "equal":
			PB = PA
		case "opposite":
			PB = sm2ref.Neg(PA)
		}
		a, b := sm2ref.Encode(PA), sm2ref.Encode(PB) // operands identified by their encodings
		r := gen.Rand(t, "seed")
		p1, p2 := c14FromRef(t, PA), c14FromRef(t, PB)
		sc1, sc2 := gen.Bool(t, "scale1"), gen.Bool(t, "scale2")
		if sc1 {
			c15Scale(p1, gen.RandBytes(r, 32))
		}
		if sc2 {
			c15Scale(p2, gen.RandBytes(r, 32))
		}
		op := gen.Pick(t, "op", "add", "add", "add", "double", "negate", "select", "set")
		alias := gen.Pick(t, "alias", "fresh", "recv=p1", "recv=p2", "p1=p2", "all")
		if alias == "p1=p2" || alias == "all" {
			p2, PB, b = p1, PA, a
		}
		var recv *SM2Point
		switch alias {
		case "fresh", "p1=p2":
			recv = NewSM2Generator() // a receiver with arbitrary previous contents
		case "recv=p1", "all":
			recv = p1
		case "recv=p2":
			recv = p2
		}
		raw1, raw2 := c15Raw(p1), c15Raw(p2)
		var want sm2ref.Point
		cond := gen.Int(t, "cond", 0, 1)
		if p := vt.Catch(func() {
			switch op {
			case "add":
				recv.Add(p1, p2)
				want = sm2ref.Add(PA, PB)
			case "double":
				recv.Double(p1)
				want = sm2ref.Double(PA)
			case "negate":
				recv.Negate(p1)
				want = sm2ref.Neg(PA)
			case "select":
				recv.Select(p1, p2, cond)
				want = PB
				if cond == 1 {
					want = PA
				}
			case "set":
				recv.Set(p1)
				want = PA
			}
		}); p != nil {
			vt.Fail(t, rec, "C15:"+op+":panic", "%s panicked: %v (P1=%x P2=%x alias=%s)", op, p, a, b, alias)
			return
		}
		exceptional := PA.Inf || PB.Inf || PA.Equal(PB) || PA.Equal(sm2ref.Neg(PB))
		nt := exceptional || alias != "fresh" || sc1 || sc2
		rec.Case(stats.Hash(a, b, []byte(op+alias), []byte{byte(cond)}, []byte(fmt.Sprint(raw1, raw2))), nt,
			"op:"+op, "alias:"+alias, "rel:"+rel, fmt.Sprintf("exceptional:%v", exceptional), fmt.Sprintf("scaled:%v", sc1 || sc2), "a:"+acls, "b:"+bcls)
		if rec.WantSample(op + alias) {
			rec.Sample(op+alias, map[string]interface{}{"op": op, "P1": fmt.Sprintf("%x", a), "P2": fmt.Sprintf("%x", b), "alias": alias, "scaled": []bool{sc1, sc2}, "p1_raw": fmt.Sprintf("%x", raw1)})
		}
		detail := fmt.Sprintf("op=%s P1=%x P2=%x alias=%s scaled=%v,%v cond=%d", op, a, b, alias, sc1, sc2, cond)
		if gb := recv.Bytes(); !bytes.Equal(gb, sm2ref.Encode(want)) {
			vt.Fail(t, rec, "C15:"+op+":wrong", "%s gives the wrong group element\n%s\n got %x\nwant %x", op, detail, gb, sm2ref.Encode(want))
			return
		}
		if !c15OnCurveProjective(recv) {
			vt.Fail(t, rec, "C15:"+op+":off-curve", "result of %s does not satisfy the curve equation\n%s", op, detail)
		}
		if recv != p1 && c15Raw(p1) != raw1 {
			vt.Fail(t, rec, "C15:"+op+":modifies-operand", "%s modified its first operand\n%s", op, detail)
		}
		if recv != p2 && c15Raw(p2) != raw2 {
			vt.Fail(t, rec, "C15:"+op+":modifies-operand", "%s modified its second operand\n%s", op, detail)
		}
		// conversions agree
		if !bytes.Equal(recv.Bytes(), recv.Bytes_Unsafe()) {
			vt.Fail(t, rec, "C15:bytes-variants", "Bytes() and Bytes_Unsafe() differ\n%s", detail)
		}
		if recv.GetAffineX().Cmp(recv.GetAffineX_Unsafe()) != 0 {
			vt.Fail(t, rec, "C15:affinex-variants", "GetAffineX() and GetAffineX_Unsafe() differ\n%s", detail)
		}
		if !want.Inf && recv.GetAffineX().Cmp(want.X) != 0 {
			vt.Fail(t, rec, "C15:affinex", "GetAffineX wrong\n%s", detail)
		}
		if (recv.IsInfinity() == 1) != want.Inf {
			vt.Fail(t, rec, "C15:isinfinity", "IsInfinity wrong\n%s", detail)
		}
		// encoding round trip
		enc := recv.Bytes()
		back, err := NewSM2Generator().SetBytes(enc)
		if err != nil || !bytes.Equal(back.Bytes(), enc) {
			vt.Fail(t, rec, "C15:roundtrip", "SetBytes(Bytes(P)) failed: %v\n%s", err, detail)
		}
	})
}

// c15ScaleBy multiplies all three projective coordinates by the field element l (canonical value, non-zero).
func c15ScaleBy(p *SM2Point, l *big.Int) {
	e, err := new(fiat.SM2Element).SetBytes(gen.Pad32(l))
	if err != nil {
		panic(err)
	}
	p.x.Mul(p.x, e)
	p.y.Mul(p.y, e)
	p.z.Mul(p.z, e)
}

var c15RInv = new(big.Int).ModInverse(gen.Two256, gen.P)

// Conversions out of projective form on representatives (l*x : l*y : l) whose Z is STRUCTURED at word level — either its canonical
// value or its Montgomery form has limbs from {0, 1, 2^32, 2^63, 2^64-1, ...} (Z = 2^64+1, 2^192+1, "low word 1", ...). The affine
// point must not depend on the representative: all four conversions agree with the reference, and the encoding decodes back.
func TestVerif_C15_Conversions(t *testing.T) {
	rec := stats.Get("C15", "conversions")
	rec.Rule("rapid: point [a]G (a from {0,1,2,3,n-1,n-2,small,uniform} or a tiny-x special point) in the representative (l*x : l*y : l) with l drawn limb by limb (gen.Limbs: sparse limbs 0/1/2/2^32-1/2^32/2^63/2^64-1 or mixed with uniform limbs), taken as the canonical value of Z or as its Montgomery form (l*2^-256); (or so that X or Y takes that value); also the result of one more Double/Add/Negate on it. Oracle: Bytes(), Bytes_Unsafe() equal the reference encoding; GetAffineX(), GetAffineX_Unsafe() equal the reference x (0 for infinity) and are then modified in place by the caller; IsInfinity; SetBytes(Bytes()) round-trips. Non-trivial: l != 1; distinct by (a, l, form, op).")
	t.Cleanup(stats.FlushAll)
	rapid.Check(t, func(t *rapid.T) {
		W, wcls := c15Operand(t, "w")
		l, lcls := gen.Limbs(t, "l")
		form := gen.Pick(t, "form", "canonical", "canonical", "montgomery")
		if lcls == "limbs-near-const" && gen.Uniform(t, "ncform", 0, 1) == 0 {
			form = "montgomery" // constants are compared in the domain the limbs are stored in
		}
		if form == "montgomery" {
			l.Mul(l, c15RInv)
		}
		l.Mod(l, gen.P)
		if l.Sign() == 0 {
			l.SetInt64(1)
		}
		// which coordinate of the representative takes the structured value: Z (l itself), or X or Y (l = value / x or / y), so that
		// the word-structured limbs sit in the coordinate the next operation works on (negation and the first products use X, Y)
		force := gen.Pick(t, "force", "Z", "Z", "X", "Y", "Y")
		if !W.Inf {
			c := W.X
			if force == "Y" {
				c = W.Y
			}
			if force != "Z" && c.Sign() != 0 {
				l.Mul(l, new(big.Int).ModInverse(c, gen.P)).Mod(l, gen.P)
			}
		}
		lcls += "/" + force
		// TWO short quantities at once: the representative is chosen so that X (raw limbs) is a short integer T AND the inverse of
		// Z (raw limbs) is a short integer w — the point has affine x = T*w, found by lifting. Integer arithmetic libraries take
		// shortcuts when both operands of a product are one or two words long; code that hands raw limbs to them meets those only here.
		if gen.Uniform(t, "two-short", 0, 6) == 0 {
			short := func(label string) *big.Int {
				words := gen.Uniform(t, label+".words", 1, 3)
				v := new(big.Int).SetBytes(gen.RandBytes(gen.Rand(t, label+".seed"), 8*words))
				if gen.Uniform(t, label+".sparse", 0, 2) == 0 {
					v.SetUint64([]uint64{1, 2, 3, 1 << 63, ^uint64(0)}[gen.Uniform(t, label+".pick", 0, 4)])
				}
				if v.Sign() == 0 {
					v.SetInt64(1)
				}
				return v
			}
			T, w := short("T"), short("w")
			for i := 0; i < 40; i++ {
				xa := new(big.Int).Mul(T, w)
				xa.Mod(xa, gen.P)
				if lifted, ok := sm2ref.LiftX(xa); ok {
					W = lifted
					winv := new(big.Int).ModInverse(w, gen.P)
					l = new(big.Int).Mul(winv, c15RInv) // canonical Z whose Montgomery form is w^-1
					l.Mod(l, gen.P)
					lcls, wcls = fmt.Sprintf("two-short:%d,%d-words", (T.BitLen()+63)/64, (w.BitLen()+63)/64), "lifted"
					break
				}
				T.Add(T, big.NewInt(1))
			}
		}
		pt := c14FromRef(t, W)
		c15ScaleBy(pt, l)
		want := W
		op := gen.Pick(t, "then", "none", "none", "none", "double", "addG", "negate", "negate")
		switch op {
		case "negate":
			pt.Negate(pt)
			want = sm2ref.Neg(W)
		case "double":
			pt.Double(pt)
			want = sm2ref.Add(W, W)
		case "addG":
			pt.Add(pt, NewSM2Generator())
			want = sm2ref.Add(W, sm2ref.G)
		}
		detail := fmt.Sprintf("point=%x l=%x (%s, %s) then=%s", sm2ref.Encode(W), l, lcls, form, op)
		rec.Case(stats.Hash(sm2ref.Encode(W), l.Bytes(), []byte(form), []byte(op)), l.Cmp(big.NewInt(1)) != 0, "w:"+wcls, lcls, "form:"+form, "then:"+op)
		if rec.WantSample(lcls + form) {
			rec.Sample(lcls+form, map[string]interface{}{"point": fmt.Sprintf("%x", sm2ref.Encode(W)), "l": fmt.Sprintf("%x", l), "form": form, "then": op})
		}
		enc := sm2ref.Encode(want)
		if gb := pt.Bytes(); !bytes.Equal(gb, enc) {
			vt.Fail(t, rec, "C15:conv:bytes", "Bytes() wrong for a scaled representative\n%s\n got %x\nwant %x", detail, gb, enc)
		}
		if gb := pt.Bytes_Unsafe(); !bytes.Equal(gb, enc) {
			vt.Fail(t, rec, "C15:conv:bytes-unsafe", "Bytes_Unsafe() wrong for a scaled representative\n%s\n got %x\nwant %x", detail, gb, enc)
		}
		if (pt.IsInfinity() == 1) != want.Inf {
			vt.Fail(t, rec, "C15:conv:isinfinity", "IsInfinity wrong\n%s", detail)
		}
		// (documented: the point at infinity converts to 0.) Every value handed out belongs to the caller, who goes on computing
		// with it IN PLACE — as VerifyHashed itself does with the x it gets; later conversions must not notice.
		wantX := want.X
		if want.Inf {
			wantX = new(big.Int)
		}
		x1 := pt.GetAffineX()
		if x1.Cmp(wantX) != 0 {
			vt.Fail(t, rec, "C15:conv:affinex", "GetAffineX() wrong\n%s\n got %x", detail, x1)
		}
		x2 := pt.GetAffineX_Unsafe()
		if x2.Cmp(wantX) != 0 {
			vt.Fail(t, rec, "C15:conv:affinex-unsafe", "GetAffineX_Unsafe() wrong\n%s\n got %x", detail, x2)
		}
		x1.Add(x1, big.NewInt(0x1234567)).Lsh(x1, 70)
		x2.Sub(x2, big.NewInt(77)).Mul(x2, x2)
		back, err := NewSM2Generator().SetBytes(pt.Bytes_Unsafe())
		if err != nil || !bytes.Equal(back.Bytes(), enc) {
			vt.Fail(t, rec, "C15:conv:roundtrip", "SetBytes(Bytes_Unsafe(P)) failed: %v\n%s", err, detail)
		}
	})
}

// The point formulas feed PRODUCTS of coordinates into the field routines; which limb patterns those products have cannot be
// steered by choosing the point. It can by choosing the REPRESENTATIVE: with P2 affine, the first-level products of Add are linear in
// the scaling factor l of P1 = (l*x1 : l*y1 : l) (X1*X2 = l*x1*x2, Y1*Y2 = l*y1*y2, Z1*Z2 = l), those of Double are quadratic
// (X*Y = l^2*x*y, ...; solvable when the quotient is a square, p = 3 mod 4). l is solved so that one chosen product has a
// word-structured Montgomery form (limbs 0 / 1 / 2^63 / 2^64-1 / ..., gen.Limbs): carry paths of whatever field code the formulas
// call on that product (additions, doublings, subtractions) are reached by construction.
func TestVerif_C15_StructuredIntermediates(t *testing.T) {
	rec := stats.Get("C15", "structured-intermediates")
	rec.Rule("rapid: P1 = [a]G in the representative (l*x : l*y : l), P2 = [b]G affine; l SOLVED so that one first-level product of the addition / doubling formula (Add: X1*X2, Y1*Y2 or Z1*Z2; Double: X*Y, X*Z, Y*Z, X^2, Y^2, Z^2 — when the quotient is a square, else Z itself) has, in Montgomery form, limbs drawn from {0,1,2,2^32-1,2^32,2^63,2^64-1} or mixed with uniform ones; both operand orders and receiver aliasing for Add. Oracle: the result encodes P1+P2 / 2*P1 by the affine reference and satisfies the projective curve equation. Non-trivial: the product was forced (verified by recomputation); distinct by (a,b,target,product).")
	t.Cleanup(stats.FlushAll)
	P := gen.P
	inv := func(v *big.Int) *big.Int { return new(big.Int).ModInverse(v, P) }
	mulm := func(a, b *big.Int) *big.Int { r := new(big.Int).Mul(a, b); return r.Mod(r, P) }
	sqrtExp := new(big.Int).Rsh(new(big.Int).Add(P, big.NewInt(1)), 2)
	sqrt := func(v *big.Int) (*big.Int, bool) {
		r := new(big.Int).Exp(v, sqrtExp, P)
		return r, mulm(r, r).Cmp(v) == 0
	}
	rapid.Check(t, func(t *rapid.T) {
		W1, c1 := c15Operand(t, "p1")
		W2, c2 := c15Operand(t, "p2")
		if W1.Inf {
			W1 = sm2ref.G
		}
		if W2.Inf {
			W2 = sm2ref.Mul(big.NewInt(2), sm2ref.G)
		}
		T, lcls := gen.Limbs(t, "target")
		Tc := mulm(T, c15RInv) // canonical value whose Montgomery form is T (mod p)
		if Tc.Sign() == 0 {
			Tc.SetInt64(1)
			T = new(big.Int).Set(gen.Two256) // Montgomery form of 1
		}
		which := gen.Pick(t, "product", "add:X1X2", "add:Y1Y2", "add:Z1Z2", "add:Z1Z2", "double:XY", "double:XZ", "double:YZ", "double:XX", "double:YY", "double:ZZ")
		var l *big.Int
		forced := true
		den := map[string]*big.Int{"add:X1X2": mulm(W1.X, W2.X), "add:Y1Y2": mulm(W1.Y, W2.Y), "add:Z1Z2": big.NewInt(1),
			"double:XY": mulm(W1.X, W1.Y), "double:XZ": W1.X, "double:YZ": W1.Y, "double:XX": mulm(W1.X, W1.X), "double:YY": mulm(W1.Y, W1.Y), "double:ZZ": big.NewInt(1)}[which]
		if den.Sign() == 0 {
			l, forced = Tc, false
		} else if which[:3] == "add" {
			l = mulm(Tc, inv(den))
		} else if r, ok := sqrt(mulm(Tc, inv(den))); ok && r.Sign() != 0 {
			l = r
		} else {
			l, forced, which = Tc, true, "double:Z" // not a square: Z itself gets the structured value
		}
		p1 := c14FromRef(t, W1)
		c15ScaleBy(p1, l)
		p2 := c14FromRef(t, W2)
		if forced {
			// recompute the product from the coordinates actually handed to the formula and compare its Montgomery form with the target
			X1, Y1, Z1 := p1.x.ToBigInt(), p1.y.ToBigInt(), p1.z.ToBigInt()
			prod := map[string]*big.Int{"add:X1X2": mulm(X1, W2.X), "add:Y1Y2": mulm(Y1, W2.Y), "add:Z1Z2": Z1, "double:XY": mulm(X1, Y1), "double:XZ": mulm(X1, Z1),
				"double:YZ": mulm(Y1, Z1), "double:XX": mulm(X1, X1), "double:YY": mulm(Y1, Y1), "double:ZZ": mulm(Z1, Z1), "double:Z": Z1}[which]
			forced = mulm(prod, gen.Two256).Cmp(new(big.Int).Mod(T, P)) == 0
			if !forced {
				t.Fatalf("HARNESS: product %s not forced to the target", which)
			}
		}
		var want sm2ref.Point
		recv := NewSM2Generator()
		alias := "fresh"
		if which[:3] == "add" {
			want = sm2ref.Add(W1, W2)
			alias = gen.Pick(t, "shape", "fresh", "swapped", "recv=p1", "recv=p2")
			switch alias {
			case "fresh":
				recv.Add(p1, p2)
			case "swapped":
				recv.Add(p2, p1)
			case "recv=p1":
				recv = p1
				recv.Add(p1, p2)
			default:
				recv = p2
				recv.Add(p1, p2)
			}
		} else {
			want = sm2ref.Add(W1, W1)
			if gen.Bool(t, "inplace") {
				recv, alias = p1, "recv=p1"
			}
			recv.Double(p1)
		}
		detail := fmt.Sprintf("P1=%x P2=%x l=%x product=%s target(montgomery)=%x (%s) shape=%s", sm2ref.Encode(W1), sm2ref.Encode(W2), l, which, T, lcls, alias)
		rec.Case(stats.Hash(sm2ref.Encode(W1), sm2ref.Encode(W2), T.Bytes(), []byte(which+alias)), forced, "product:"+which, lcls, "shape:"+alias, "p1:"+c1, "p2:"+c2)
		if rec.WantSample(which) {
			rec.Sample(which, map[string]interface{}{"P1": fmt.Sprintf("%x", sm2ref.Encode(W1)), "l": fmt.Sprintf("%x", l), "product": which, "montgomery_limbs_of_product": fmt.Sprintf("%064x", new(big.Int).Mod(T, P))})
		}
		if gb := recv.Bytes(); !bytes.Equal(gb, sm2ref.Encode(want)) {
			vt.Fail(t, rec, "C15:intermediates:wrong", "point formula gives the wrong group element for a representative chosen to put a word-structured value into %s\n%s\n got %x\nwant %x", which, detail, gb, sm2ref.Encode(want))
			return
		}
		if !c15OnCurveProjective(recv) {
			vt.Fail(t, rec, "C15:intermediates:off-curve", "result does not satisfy the curve equation\n%s", detail)
		}
	})
}

// verifProp_C15_Decode builds the property (shared by the rapid test and the native fuzz target).
func verifProp_C15_Decode() func(*rapid.T) {
	rec := stats.Get("C15", "decode")
	rec.Rule("rapid: byte strings as encodings: valid 65-byte encodings; every kind of single-bit flip of prefix/x/y; lengths 0..70; prefixes 0x00..0x07 with 1, 33 and 65 bytes; x+p (tiny x) and y>=p; (x,p-y); uniform. Oracle: SetBytes accepts iff the reference decoder does (0x00 alone, or 0x04||canonical on-curve x||y) and then re-encodes to the same bytes; on rejection the receiver is unchanged; input unmodified (one case in three decodes from a read-only mapping); no panic. Non-trivial: every rejected encoding and every accepted one other than a plain valid point; distinct by bytes.")
	return func(t *rapid.T) {
		r := gen.Rand(t, "seed")
		a, _ := c15Scalar(t, "a")
		if a.Sign() == 0 {
			a = big.NewInt(5)
		}
		valid := sm2ref.Encode(sm2ref.Mul(a, sm2ref.G))
		cls := gen.Pick(t, "class", "valid", "bitflip", "bitflip", "prefix", "length", "x+p", "y>=p", "negY", "infinity", "uniform", "truncate", "extend", "limb-near-miss", "limb-near-miss")
		b := append([]byte(nil), valid...)
		switch cls {
		case "bitflip":
			bit := gen.Uniform(t, "bit", 0, 65*8-1)
			b[bit>>3] ^= 0x80 >> uint(bit&7)
		case "prefix":
			b[0] = byte(gen.Uniform(t, "pfx", 0, 7))
			switch gen.Pick(t, "plen", "65", "33", "1") {
			case "33":
				b = b[:33]
			case "1":
				b = b[:1]
			}
		case "length":
			b = gen.RandBytes(r, gen.Uniform(t, "len", 0, 70))
			if len(b) > 0 && gen.Bool(t, "pfx4") {
				b[0] = 4
			}
		case "x+p":
			xv := big.NewInt(int64(gen.Int(t, "tinyx", 0, 3000)))
			var pt sm2ref.Point
			for {
				var ok bool
				if pt, ok = sm2ref.LiftX(xv); ok {
					break
				}
				xv.Add(xv, big.NewInt(1))
			}
			b = sm2ref.Encode(pt)
			if gen.Bool(t, "addp") {
				copy(b[1:33], gen.Pad32(new(big.Int).Add(pt.X, gen.P)))
			} else {
				cls = "tinyx-valid"
			}
		case "y>=p":
			lim := new(big.Int).Sub(gen.Two256, gen.P)
			v := new(big.Int).SetBytes(gen.RandBytes(r, 40))
			v.Mod(v, lim).Add(v, gen.P)
			copy(b[33:], gen.Pad32(v))
		case "negY":
			y := new(big.Int).SetBytes(b[33:])
			copy(b[33:], gen.Pad32(new(big.Int).Sub(gen.P, y)))
		case "limb-near-miss":
			// off-curve (x, y') whose y'^2 agrees with x^3-3x+b in most of the implementation's representation: the 4x64-bit
			// Montgomery (or plain) limbs of the right-hand side are changed only in a chosen part (high half / low half / one bit of
			// one limb), then y' is a square root of that value. A curve check that compares limbs partially accepts it.
			for try := 0; try < 40; try++ {
				x := new(big.Int).SetBytes(valid[1:33])
				rhs := new(big.Int).Exp(x, big.NewInt(3), gen.P)
				rhs.Sub(rhs, new(big.Int).Mul(big.NewInt(3), x)).Add(rhs, sm2ref.B).Mod(rhs, gen.P)
				mont := gen.Bool(t, "montdomain")
				v := new(big.Int).Set(rhs)
				if mont {
					v.Lsh(v, 256).Mod(v, gen.P)
				}
				limb := gen.Uniform(t, "limb", 0, 3)
				var mask uint64
				switch gen.Pick(t, "part", "high32", "low32", "onebit", "high32-all") {
				case "high32":
					mask = uint64(gen.Uniform(t, "m", 1, 1<<31-1)) << 32
				case "low32":
					mask = uint64(gen.Uniform(t, "m", 1, 1<<31-1))
				case "onebit":
					mask = 1 << uint(gen.Uniform(t, "bitpos", 0, 63))
				case "high32-all":
					mask = 0xffffffff00000000
				}
				v.Xor(v, new(big.Int).Lsh(new(big.Int).SetUint64(mask), uint(64*limb)))
				if v.Cmp(gen.P) >= 0 {
					continue
				}
				if mont {
					rinv := new(big.Int).ModInverse(new(big.Int).Lsh(big.NewInt(1), 256), gen.P)
					v.Mul(v, rinv).Mod(v, gen.P)
				}
				y, ok := sm2ref.SqrtP(v)
				if !ok {
					continue
				}
				copy(b[33:], gen.Pad32(y))
				break
			}
		case "infinity":
			b = []byte{0}
		case "uniform":
			b = gen.RandBytes(r, 65)
			b[0] = 4
		case "truncate":
			b = b[:gen.Uniform(t, "n", 0, 64)]
		case "extend":
			b = append(b, gen.RandBytes(r, gen.Int(t, "n", 1, 5))...)
		}
		in := append([]byte(nil), b...)
		want, wantOK := sm2ref.Decode(b)
		// the encoding is an input: one case in three hands it over in a READ-ONLY mapping ending at an inaccessible page, so that a
		// decoder that scribbles on it (even if it restores it before returning) faults
		if gen.Uniform(t, "readonly", 0, 2) == 0 {
			g := guard.RO(b)
			defer g.Free()
			b = g.B
			debug.SetPanicOnFault(true)
		}
		// the receiver has had a life before: it holds a non-normalised representative (Z != 1), possibly the result of group
		// operations, and may have been CONVERTED already (anything a conversion leaves behind in the object belongs to the old value)
		recv := NewSM2Generator()
		c15Scale(recv, []byte{9})
		life := gen.Pick(t, "receiver-life", "scaled", "scaled+Bytes", "scaled+GetAffineX", "sum+Bytes+GetAffineX", "infinity+Bytes", "decoded-before+Bytes", "scaled+Bytes_Unsafe")
		switch life {
		case "scaled+Bytes":
			recv.Bytes()
		case "scaled+GetAffineX":
			recv.GetAffineX()
		case "scaled+Bytes_Unsafe":
			recv.Bytes_Unsafe()
			recv.GetAffineX_Unsafe()
		case "sum+Bytes+GetAffineX":
			recv.Double(recv)
			recv.Add(recv, NewSM2Generator())
			recv.Bytes()
			recv.GetAffineX()
		case "infinity+Bytes":
			recv.Add(recv, NewSM2Point().Negate(recv))
			recv.Bytes()
		case "decoded-before+Bytes":
			recv.Bytes()
			recv.SetBytes(valid)
			recv.Double(recv)
			recv.Bytes()
		}
		rec.Tally("receiver-life:" + life)
		before := c15Raw(recv)
		var got *SM2Point
		var err error
		if p := vt.Catch(func() { got, err = recv.SetBytes(b) }); p != nil {
			vt.Fail(t, rec, "C15:decode:panic", "SetBytes panicked: %v\nb=%x", p, b)
			return
		}
		rec.Case(stats.Hash(b), !(cls == "valid"), "class:"+cls, fmt.Sprintf("accept:%v", wantOK))
		if rec.WantSample(cls) {
			rec.Sample(cls, map[string]interface{}{"bytes": stats.Hex(b), "reference_accepts": wantOK})
		}
		if (err == nil) != wantOK {
			vt.Fail(t, rec, "C15:decode:verdict:"+cls, "SetBytes err=%v but the reference decoder accepts=%v (class %s)\nb=%x", err, wantOK, cls, b)
			return
		}
		if !bytes.Equal(in, b) {
			vt.Fail(t, rec, "C15:decode:modifies-input", "SetBytes modified its argument")
		}
		if err != nil {
			if got != nil || c15Raw(recv) != before {
				vt.Fail(t, rec, "C15:decode:receiver-changed", "receiver changed (or non-nil result) on a rejected encoding %x", b)
			}
			return
		}
		if !bytes.Equal(got.Bytes(), sm2ref.Encode(want)) || !bytes.Equal(got.Bytes(), b) {
			vt.Fail(t, rec, "C15:decode:roundtrip", "decoded point re-encodes differently\n in %x\nout %x", b, got.Bytes())
			return
		}
		// the decoded value must BE that point, not merely print like it: it satisfies the curve equation and behaves in arithmetic
		if !c15OnCurveProjective(got) {
			vt.Fail(t, rec, "C15:decode:off-curve", "SetBytes(%x) into a used receiver left coordinates that do not satisfy the curve equation: %x", b, c15Raw(got))
			return
		}
		g := NewSM2Generator()
		if sum := NewSM2Point().Add(got, g).Bytes(); !bytes.Equal(sum, sm2ref.Encode(sm2ref.Add(want, sm2ref.G))) {
			vt.Fail(t, rec, "C15:decode:arith", "decoded point + G is wrong (decoded from %x into a receiver that held another point)\n got %x\nwant %x", b, sum, sm2ref.Encode(sm2ref.Add(want, sm2ref.G)))
			return
		}
		if dbl := NewSM2Point().Double(got).Bytes(); !bytes.Equal(dbl, sm2ref.Encode(sm2ref.Double(want))) {
			vt.Fail(t, rec, "C15:decode:arith", "2 x decoded point is wrong (decoded from %x)", b)
		}
	}
}

func TestVerif_C15_Decode(t *testing.T) {
	t.Cleanup(stats.FlushAll)
	rapid.Check(t, verifProp_C15_Decode())
}

// FuzzVerif_C15_Decode drives the same property with Go's coverage-guided fuzzer (thorough tier).
func FuzzVerif_C15_Decode(f *testing.F) {
	f.Fuzz(rapid.MakeFuzz(verifProp_C15_Decode()))
}
