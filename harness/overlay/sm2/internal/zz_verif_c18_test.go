package internal

// C18 (SM2 part) — every entry of every base-point table equals the stated multiple of G in Montgomery form.

import (
	"bytes"
	"fmt"
	"math/big"
	"os"
	"path/filepath"
	"regexp"
	"testing"

	"verif.local/ref/gen"
	"verif.local/ref/sm2ref"
	"verif.local/ref/stats"
	"verif.local/ref/vt"
)

func c18Mont(v *big.Int) [4]uint64 {
	m := new(big.Int).Lsh(v, 256)
	m.Mod(m, gen.P)
	var out [4]uint64
	mask := new(big.Int).SetUint64(^uint64(0))
	for i := 0; i < 4; i++ {
		out[i] = new(big.Int).And(m, mask).Uint64()
		m.Rsh(m, 64)
	}
	return out
}

func TestVerif_C18_SM2Tables(t *testing.T) {
	rec := stats.Get("C18", "sm2-tables")
	rec.Exhaustive(true)
	rec.Rule("complete enumeration of the four comb tables and their remainder tables, taken AFTER a workload of multiplications whose results the caller modified in place (shape first, then every entry): entry (j,i) must be the Montgomery form (x*2^256 mod p, four little-endian 64-bit limbs) of the affine x and y of sum over set bits b of i+1 of 2^(rem + j*iter + b*sub*iter) * G, remainder entry i = [i+1]G — computed by the affine big.Int reference; plus the curve parameters, GetN and GetZBytes against GM/T 0003.5 constants written out in the harness. Every entry is a case; all non-trivial; distinct by (table, j, i).")
	t.Cleanup(stats.FlushAll)
	type scheme struct {
		name                   string
		first                  [][][]*[4]uint64
		second                 [][]*[4]uint64
		window, sub, iter, rem int
	}
	schemes := []scheme{
		{"4_2_32", sm2Precomputed_4_2_32, nil, 4, 2, 32, 0},
		{"6_3_14", sm2Precomputed_6_3_14, sm2Precomputed_6_3_14_Remainder, 6, 3, 14, 4},
		{"5_3_17", sm2Precomputed_5_3_17, sm2Precomputed_5_3_17_Remainder, 5, 3, 17, 1},
		{"7_3_12", sm2Precomputed_7_3_12, sm2Precomputed_7_3_12_Remainder, 7, 3, 12, 4},
	}
	// The tables must equal their derivation not only at start-up but also AFTER the library has been used: a workload of base,
	// variable and double-scalar multiplications (small and full-size scalars, zero scalars) whose RESULTS ARE THEN MODIFIED IN PLACE
	// by the caller (a result that aliases table storage would corrupt the table).
	{
		mut := func(p *SM2Point) {
			if p != nil {
				p.Double(p)
				p.Add(p, NewSM2Generator())
				p.Negate(p)
			}
		}
		P := NewSM2Generator()
		zero := make([]byte, 32)
		for g := 0; g < 64; g++ {
			gb := make([]byte, 32)
			gb[31] = byte(g)
			r1, _ := ScalarMixedMult_Unsafe(gb, P, zero)
			mut(r1)
			r2, _ := ScalarBaseMult(gb)
			mut(r2)
			gb[0], gb[7], gb[20] = byte(g*37), byte(g*11), byte(g*5)
			r3, _ := ScalarMixedMult_Unsafe(gb, P, gb)
			mut(r3)
			r4, _ := ScalarBaseMult(gb)
			mut(r4)
			r5, _ := ScalarMult(P, gb)
			mut(r5)
			for _, f := range []func([]byte) (*SM2Point, error){scalarBaseMult_SkipBitExtraction_4_2_32, scalarBaseMult_SkipBitExtraction_5_3_17, scalarBaseMult_SkipBitExtraction_7_3_12} {
				r6, _ := f(gb)
				mut(r6)
			}
		}
		// the generic comb routine with every combination of a main table and a remainder table that its own parameter checks
		// accept: a remainder table holds [1]G..[2^r-1]G, so a WIDER one (another scheme's) serves as well — the call is legal
		// and gives the same point; tables shared between schemes must survive it
		type remT struct {
			name string
			t    *[][]*[4]uint64
		}
		rems := []remT{{"6_3_14_Remainder", &sm2Precomputed_6_3_14_Remainder}, {"5_3_17_Remainder", &sm2Precomputed_5_3_17_Remainder}, {"7_3_12_Remainder", &sm2Precomputed_7_3_12_Remainder}}
		mains := []struct {
			name            string
			t               *[][][]*[4]uint64
			w, sub, it, rem int
		}{{"6_3_14", &sm2Precomputed_6_3_14, 6, 3, 14, 4}, {"5_3_17", &sm2Precomputed_5_3_17, 5, 3, 17, 1}, {"7_3_12", &sm2Precomputed_7_3_12, 7, 3, 12, 4}}
		crossed := 0
		for _, m := range mains {
			for _, rt := range rems {
				if len((*rt.t)[0]) < 1<<uint(m.rem)-1 {
					continue
				}
				for g := 1; g < 40; g += 3 {
					gb := make([]byte, 32)
					gb[31], gb[3], gb[17] = byte(g), byte(g*29), byte(g*53)
					var got *SM2Point
					if p := vt.Catch(func() { got, _ = scalarBaseMult_SkipBitExtration(gb, m.t, rt.t, m.w, m.sub, m.it, m.rem) }); p != nil {
						vt.Fail(t, rec, "C18:sm2:cross-scheme-call", "comb routine with main table %s and remainder table %s panicked: %v", m.name, rt.name, p)
						continue
					}
					want, _ := ScalarMult(NewSM2Generator(), gb)
					if got == nil || !bytes.Equal(got.Bytes_Unsafe(), want.Bytes_Unsafe()) {
						vt.Fail(t, rec, "C18:sm2:cross-scheme-call", "comb routine with main table %s and remainder table %s gives a wrong point for k=%x", m.name, rt.name, gb)
					}
					mut(got)
					crossed++
				}
			}
		}
		rec.Note("tables are enumerated after a workload of 64 x 8 multiplications whose results were modified in place, and %d calls of the comb routine with another scheme's (wider) remainder table", crossed)
	}
	checkPt := func(tab string, j, i int, x, y *[4]uint64, k *big.Int) {
		rec.Enumerated(1, "table:"+tab)
		if x == nil || y == nil {
			vt.Fail(t, rec, "C18:sm2table:"+tab+":nil", "table %s entry (%d,%d) is nil", tab, j, i)
			return
		}
		pt := sm2ref.Mul(k, sm2ref.G)
		wx, wy := c18Mont(pt.X), c18Mont(pt.Y)
		if *x != wx || *y != wy {
			vt.Fail(t, rec, "C18:sm2table:"+tab, "table %s, sub-table %d, entry %d: not the Montgomery form of [%x]G\n got x=%016x y=%016x\nwant x=%016x y=%016x", tab, j, i, k, *x, *y, wx, wy)
		}
	}
	for _, s := range schemes {
		width := 1<<uint(s.window) - 1
		if len(s.first) != s.sub {
			vt.Fail(t, rec, "C18:sm2table:"+s.name+":shape", "table %s has %d sub-tables, want %d", s.name, len(s.first), s.sub)
			continue
		}
		for j := 0; j < s.sub; j++ {
			if len(s.first[j]) != 2 || len(s.first[j][0]) != width || len(s.first[j][1]) != width {
				vt.Fail(t, rec, "C18:sm2table:"+s.name+":shape", "table %s sub-table %d has the wrong shape", s.name, j)
				continue
			}
			for i := 0; i < width; i++ {
				k := new(big.Int)
				for b := 0; b < s.window; b++ {
					if (i+1)>>uint(b)&1 == 1 {
						k.SetBit(k, s.rem+j*s.iter+b*s.sub*s.iter, 1)
					}
				}
				checkPt(s.name, j, i, s.first[j][0][i], s.first[j][1][i], k)
			}
		}
		if s.rem >= 1 {
			cnt := 1<<uint(s.rem) - 1
			if len(s.second) != 2 || len(s.second[0]) != cnt || len(s.second[1]) != cnt {
				vt.Fail(t, rec, "C18:sm2table:"+s.name+":shape", "remainder table of %s has the wrong shape", s.name)
				continue
			}
			for i := 0; i < cnt; i++ {
				checkPt(s.name+"_Remainder", 0, i, s.second[0][i], s.second[1][i], big.NewInt(int64(i+1)))
			}
		}
	}
	rec.Sample("entry", map[string]interface{}{"table": "6_3_14", "subtable": 1, "index": 4, "x_limbs": fmt.Sprintf("%016x", *sm2Precomputed_6_3_14[1][0][4])})
	// curve parameters and the ZA parameter block
	pr := getCurve().Params()
	for name, pair := range map[string][2]*big.Int{"P": {pr.P, sm2ref.P}, "N": {pr.N, sm2ref.N}, "B": {pr.B, sm2ref.B}, "Gx": {pr.Gx, sm2ref.Gx}, "Gy": {pr.Gy, sm2ref.Gy}, "GetN": {GetN(), sm2ref.N}} {
		rec.Enumerated(1, "curve-params")
		if pair[0].Cmp(pair[1]) != 0 {
			vt.Fail(t, rec, "C18:curve:"+name, "curve parameter %s = %x, GM/T 0003.5 says %x", name, pair[0], pair[1])
		}
	}
	var z []byte
	for _, v := range []*big.Int{sm2ref.A, sm2ref.B, sm2ref.Gx, sm2ref.Gy} {
		z = append(z, gen.Pad32(v)...)
	}
	rec.Enumerated(1, "curve-params")
	if !bytes.Equal(GetZBytes(), z) {
		vt.Fail(t, rec, "C18:curve:zbytes", "GetZBytes() is not a||b||Gx||Gy")
	}
	g := NewSM2Generator().Bytes()
	rec.Enumerated(1, "curve-params")
	if !bytes.Equal(g, sm2ref.Encode(sm2ref.G)) {
		vt.Fail(t, rec, "C18:curve:generator", "NewSM2Generator is not G")
	}
}

// The README's "totally open" claim in the other direction: the PUBLISHED derivation (make_table.go, run by the driver in the scratch
// copy with the tablegen tag) must reproduce the shipped tables. Every numeric literal of the generated file is compared, in order,
// with the shipped sm2_tables.go.
func TestVerif_C18_GeneratorReproducesTables(t *testing.T) {
	rec := stats.Get("C18", "sm2-generator")
	rec.Exhaustive(true)
	rec.Rule("the repository's table generator sm2/internal/make_table.go is run (go run -tags tablegen) on the tree under test with the default number of processors, with one and with two (a differing output replaces the first); every hexadecimal literal it emits is compared, in order, with the literals of the shipped sm2_tables.go (complete; distinct by position), and the declared table names must match. If the generator does not build or is absent the sub-check is skipped (recorded), never a violation.")
	t.Cleanup(stats.FlushAll)
	root := os.Getenv("VERIF_SCRATCH")
	if e, err := os.ReadFile(filepath.Join(root, "verif_tables_regen.err")); err == nil {
		rec.Skipped("published generator not run: " + string(e))
		t.Skip("generator not run")
	}
	regen, err := os.ReadFile(filepath.Join(root, "verif_tables_regen.txt"))
	if err != nil {
		rec.Skipped("published generator output not available (driver hook did not run)")
		t.Skip("no generator output")
	}
	shipped, err := os.ReadFile(filepath.Join(root, "sm2", "internal", "sm2_tables.go"))
	if err != nil {
		rec.Skipped("sm2_tables.go not readable: " + err.Error())
		t.Skip("no tables file")
	}
	lit := regexp.MustCompile(`0x[0-9a-fA-F]+|\b[0-9]{6,}\b`)
	names := regexp.MustCompile(`(?m)^var (\w+)`)
	type tok struct {
		table string
		val   string
	}
	parse := func(src []byte) (out []tok, tabs []string) {
		cur := ""
		for _, line := range bytes.Split(src, []byte("\n")) {
			if m := names.FindSubmatch(line); m != nil {
				cur = string(m[1])
				tabs = append(tabs, cur)
			}
			if bytes.HasPrefix(bytes.TrimSpace(line), []byte("//")) {
				continue
			}
			for _, l := range lit.FindAll(line, -1) {
				v, ok := new(big.Int).SetString(string(l), 0)
				if !ok {
					continue
				}
				out = append(out, tok{cur, v.Text(16)})
			}
		}
		return
	}
	a, ta := parse(shipped)
	b, tb := parse(regen)
	if fmt.Sprint(ta) != fmt.Sprint(tb) {
		vt.Fail(t, rec, "C18:sm2:generator:tables", "the published generator declares tables %v, the shipped file %v", tb, ta)
		return
	}
	if len(a) < 2*4*724 {
		rec.Skipped(fmt.Sprintf("only %d literals recognised in sm2_tables.go (layout changed?): not judged", len(a)))
		t.Skip("layout")
	}
	if len(a) != len(b) {
		vt.Fail(t, rec, "C18:sm2:generator:count", "the published generator emits %d coordinate limbs, the shipped tables contain %d", len(b), len(a))
		return
	}
	diff, first := 0, -1
	for i := range a {
		if a[i] != b[i] {
			if first < 0 {
				first = i
			}
			diff++
		}
	}
	rec.Enumerated(int64(len(a)), "generator-literals")
	rec.Sample("generator", map[string]interface{}{"literals_compared": len(a), "tables": ta, "identical_bytes": bytes.Equal(shipped, regen)})
	if diff > 0 {
		vt.Fail(t, rec, "C18:sm2:generator:differs", "running the published derivation (make_table.go) does not give the shipped tables: %d of %d limbs differ, first at literal #%d of %s: shipped 0x%s, generator 0x%s", diff, len(a), first, a[first].table, a[first].val, b[first].val)
	}
}
