package internal

// C18 (SM2 part) — every entry of every base-point table equals the stated multiple of G in Montgomery form.

import (
	"bytes"
	"fmt"
	"math/big"
	"testing"

	"verif.local/ref/gen"
	"verif.local/ref/sm2ref"
	"verif.local/ref/stats"
	"verif.local/ref/vt"
)

func c18Mont(v *big.Int) [4]uint64 {
	m := new(big.Int).Lsh(v, 256)
	m.Mod(m, gen.P)
	var out [4]uint64
	mask := new(big.Int).SetUint64(^uint64(0))
	for i := 0; i < 4; i++ {
		out[i] = new(big.Int).And(m, mask).Uint64()
		m.Rsh(m, 64)
	}
	return out
}

func TestVerif_C18_SM2Tables(t *testing.T) {
	rec := stats.Get("C18", "sm2-tables")
	rec.Exhaustive(true)
	rec.Rule("complete enumeration of the four comb tables and their remainder tables, taken AFTER a workload of multiplications whose results the caller modified in place (shape first, then every entry): entry (j,i) must be the Montgomery form (x*2^256 mod p, four little-endian 64-bit limbs) of the affine x and y of sum over set bits b of i+1 of 2^(rem + j*iter + b*sub*iter) * G, remainder entry i = [i+1]G — computed by the affine big.Int reference; plus the curve parameters, GetN and GetZBytes against GM/T 0003.5 constants written out in the harness. Every entry is a case; all non-trivial; distinct by (table, j, i).")
	t.Cleanup(stats.FlushAll)
	type scheme struct {
		name                   string
		first                  [][][]*[4]uint64
		second                 [][]*[4]uint64
		window, sub, iter, rem int
	}
	schemes := []scheme{
		{"4_2_32", sm2Precomputed_4_2_32, nil, 4, 2, 32, 0},
		{"6_3_14", sm2Precomputed_6_3_14, sm2Precomputed_6_3_14_Remainder, 6, 3, 14, 4},
		{"5_3_17", sm2Precomputed_5_3_17, sm2Precomputed_5_3_17_Remainder, 5, 3, 17, 1},
		{"7_3_12", sm2Precomputed_7_3_12, sm2Precomputed_7_3_12_Remainder, 7, 3, 12, 4},
	}
	// The tables must equal their derivation not only at start-up but also AFTER the library has been used: a workload of base,
	// variable and double-scalar multiplications (small and full-size scalars, zero scalars) whose RESULTS ARE THEN MODIFIED IN PLACE
	// by the caller (a result that aliases table storage would corrupt the table).
	{
		mut := func(p *SM2Point) {
			if p != nil {
				p.Double(p)
				p.Add(p, NewSM2Generator())
				p.Negate(p)
			}
		}
		P := NewSM2Generator()
		zero := make([]byte, 32)
		for g := 0; g < 64; g++ {
			gb := make([]byte, 32)
			gb[31] = byte(g)
			r1, _ := ScalarMixedMult_Unsafe(gb, P, zero)
			mut(r1)
			r2, _ := ScalarBaseMult(gb)
			mut(r2)
			gb[0], gb[7], gb[20] = byte(g*37), byte(g*11), byte(g*5)
			r3, _ := ScalarMixedMult_Unsafe(gb, P, gb)
			mut(r3)
			r4, _ := ScalarBaseMult(gb)
			mut(r4)
			r5, _ := ScalarMult(P, gb)
			mut(r5)
			for _, f := range []func([]byte) (*SM2Point, error){scalarBaseMult_SkipBitExtraction_4_2_32, scalarBaseMult_SkipBitExtraction_5_3_17, scalarBaseMult_SkipBitExtraction_7_3_12} {
				r6, _ := f(gb)
				mut(r6)
			}
		}
		rec.Note("tables are enumerated after a workload of 64 x 8 multiplications whose results were modified in place")
	}
	checkPt := func(tab string, j, i int, x, y *[4]uint64, k *big.Int) {
		rec.Enumerated(1, "table:"+tab)
		if x == nil || y == nil {
			vt.Fail(t, rec, "C18:sm2table:"+tab+":nil", "table %s entry (%d,%d) is nil", tab, j, i)
			return
		}
		pt := sm2ref.Mul(k, sm2ref.G)
		wx, wy := c18Mont(pt.X), c18Mont(pt.Y)
		if *x != wx || *y != wy {
			vt.Fail(t, rec, "C18:sm2table:"+tab, "table %s, sub-table %d, entry %d: not the Montgomery form of [%x]G\n got x=%016x y=%016x\nwant x=%016x y=%016x", tab, j, i, k, *x, *y, wx, wy)
		}
	}
	for _, s := range schemes {
		width := 1<<uint(s.window) - 1
		if len(s.first) != s.sub {
			vt.Fail(t, rec, "C18:sm2table:"+s.name+":shape", "table %s has %d sub-tables, want %d", s.name, len(s.first), s.sub)
			continue
		}
		for j := 0; j < s.sub; j++ {
			if len(s.first[j]) != 2 || len(s.first[j][0]) != width || len(s.first[j][1]) != width {
				vt.Fail(t, rec, "C18:sm2table:"+s.name+":shape", "table %s sub-table %d has the wrong shape", s.name, j)
				continue
			}
			for i := 0; i < width; i++ {
				k := new(big.Int)
				for b := 0; b < s.window; b++ {
					if (i+1)>>uint(b)&1 == 1 {
						k.SetBit(k, s.rem+j*s.iter+b*s.sub*s.iter, 1)
					}
				}
				checkPt(s.name, j, i, s.first[j][0][i], s.first[j][1][i], k)
			}
		}
		if s.rem >= 1 {
			cnt := 1<<uint(s.rem) - 1
			if len(s.second) != 2 || len(s.second[0]) != cnt || len(s.second[1]) != cnt {
				vt.Fail(t, rec, "C18:sm2table:"+s.name+":shape", "remainder table of %s has the wrong shape", s.name)
				continue
			}
			for i := 0; i < cnt; i++ {
				checkPt(s.name+"_Remainder", 0, i, s.second[0][i], s.second[1][i], big.NewInt(int64(i+1)))
			}
		}
	}
	rec.Sample("entry", map[string]interface{}{"table": "6_3_14", "subtable": 1, "index": 4, "x_limbs": fmt.Sprintf("%016x", *sm2Precomputed_6_3_14[1][0][4])})
	// curve parameters and the ZA parameter block
	pr := getCurve().Params()
	for name, pair := range map[string][2]*big.Int{"P": {pr.P, sm2ref.P}, "N": {pr.N, sm2ref.N}, "B": {pr.B, sm2ref.B}, "Gx": {pr.Gx, sm2ref.Gx}, "Gy": {pr.Gy, sm2ref.Gy}, "GetN": {GetN(), sm2ref.N}} {
		rec.Enumerated(1, "curve-params")
		if pair[0].Cmp(pair[1]) != 0 {
			vt.Fail(t, rec, "C18:curve:"+name, "curve parameter %s = %x, GM/T 0003.5 says %x", name, pair[0], pair[1])
		}
	}
	var z []byte
	for _, v := range []*big.Int{sm2ref.A, sm2ref.B, sm2ref.Gx, sm2ref.Gy} {
		z = append(z, gen.Pad32(v)...)
	}
	rec.Enumerated(1, "curve-params")
	if !bytes.Equal(GetZBytes(), z) {
		vt.Fail(t, rec, "C18:curve:zbytes", "GetZBytes() is not a||b||Gx||Gy")
	}
	g := NewSM2Generator().Bytes()
	rec.Enumerated(1, "curve-params")
	if !bytes.Equal(g, sm2ref.Encode(sm2ref.G)) {
		vt.Fail(t, rec, "C18:curve:generator", "NewSM2Generator is not G")
	}
}
