package sm2_test

// C08 — secret scalars do not steer control flow or memory addressing.
// The library packages utils, sm2, sm2/internal, sm2/internal/fiat of this scratch copy have been rewritten by
// /verif/tools/ctinstr: every source block, short-circuit operand and non-constant index reports to ctrace.
// Oracle (trace equivalence): for one primitive, one input length and one verdict, the block sequence, the
// (site,index) sequence and the set of executed external callees are identical for all secret values.

import (
	"bytes"
	"encoding/json"
	"fmt"
	"math/big"
	"os"
	"path/filepath"
	"sort"
	"strings"
	"testing"

	"github.com/bilibili/smgo/sm2"
	"github.com/bilibili/smgo/sm2/internal"
	"github.com/bilibili/smgo/sm2/internal/fiat"
	"github.com/bilibili/smgo/utils"
	"pgregory.net/rapid"
	"verif.local/ref/ctrace"
	"verif.local/ref/gen"
	"verif.local/ref/sm2gen"
	"verif.local/ref/sm2ref"
	"verif.local/ref/stats"
	"verif.local/ref/vt"
)

type c08Site struct {
	ID      int      `json:"id"`
	Kind    string   `json:"kind"`
	File    string   `json:"file"`
	Line    int      `json:"line"`
	Func    string   `json:"func"`
	What    string   `json:"what"`
	Callees []string `json:"callees"`
}

var c08Sites map[int]*c08Site

func c08LoadSites(t *testing.T) bool {
	if c08Sites != nil {
		return true
	}
	b, err := os.ReadFile(filepath.Join(os.Getenv("VERIF_SCRATCH"), "ctrace_sites.json"))
	if err != nil {
		return false
	}
	var l []*c08Site
	if json.Unmarshal(b, &l) != nil {
		return false
	}
	c08Sites = map[int]*c08Site{}
	for _, s := range l {
		c08Sites[s.ID] = s
	}
	return true
}

func c08Where(id int) string {
	if s, ok := c08Sites[id]; ok {
		return fmt.Sprintf("%s:%d (%s, %s %s)", s.File, s.Line, s.Func, s.Kind, s.What)
	}
	return fmt.Sprintf("site %d", id)
}

// callee set executed by a trace
func c08Callees(tr ctrace.Trace) []string {
	set := map[string]bool{}
	for id := range tr.Executed {
		if s, ok := c08Sites[id]; ok {
			for _, c := range s.Callees {
				set[c+"  @"+fmt.Sprintf("%s:%d", s.File, s.Line)] = true
			}
		}
	}
	var out []string
	for c := range set {
		out = append(out, c)
	}
	sort.Strings(out)
	return out
}

// calleesForbiddenInPrimitive: anything from math/big except plain conversions, library comparisons, string/array ==.
func c08ForbiddenInPrimitive(c string) bool {
	name := strings.SplitN(c, "  @", 2)[0]
	if strings.HasPrefix(name, "compare:string") || strings.HasPrefix(name, "compare:array") {
		return true
	}
	if strings.HasPrefix(name, "bytes.") || strings.HasPrefix(name, "strings.") || strings.HasPrefix(name, "indirect call") {
		return true
	}
	if strings.Contains(name, "math/big") {
		for _, ok := range []string{").SetBytes", "math/big.NewInt", ").Set", ").SetUint64", ").SetInt64"} {
			if strings.HasSuffix(name, ok) {
				return false
			}
		}
		return true
	}
	return false
}

var c08Inversions = []string{").ModInverse", ").GCD", ").Exp", ").ModSqrt", ").Sqrt"}

func c08IsInversion(c string) bool {
	name := strings.SplitN(c, "  @", 2)[0]
	if !strings.Contains(name, "math/big") {
		return false
	}
	for _, s := range c08Inversions {
		if strings.HasSuffix(name, s) {
			return true
		}
	}
	return false
}

type c08Prim struct {
	name string
	// run executes the primitive on a secret (32 bytes unless stated) and returns the verdict label
	run func(secret []byte) string
}

type c08Ref struct {
	secret []byte
	tr     ctrace.Trace
}

func c08FirstDivergence(a, b ctrace.Trace) string {
	n := len(a.Log)
	if len(b.Log) < n {
		n = len(b.Log)
	}
	for i := 0; i < n; i++ {
		if a.Log[i] != b.Log[i] {
			ea, eb := a.Log[i], b.Log[i]
			if ea.Kind == eb.Kind && ea.ID == eb.ID {
				return fmt.Sprintf("event %d: same site %s, different value: %d vs %d (%c: I = index/slice bound, C = short-circuit operand outcome)", i, c08Where(ea.ID), ea.Value, eb.Value, ea.Kind)
			}
			return fmt.Sprintf("event %d: control flow diverges: %c at %s  vs  %c at %s", i, ea.Kind, c08Where(ea.ID), eb.Kind, c08Where(eb.ID))
		}
	}
	if len(a.Log) != len(b.Log) {
		longer := a
		if len(b.Log) > len(a.Log) {
			longer = b
		}
		return fmt.Sprintf("one trace is a prefix of the other (%d vs %d events); next event of the longer: %c at %s", len(a.Log), len(b.Log), longer.Log[n].Kind, c08Where(longer.Log[n].ID))
	}
	return "logs equal (hash collision?)"
}

func c08Trace(p *c08Prim, secret []byte, full bool) (ctrace.Trace, string, interface{}) {
	var verdict string
	var tr ctrace.Trace
	pan := vt.Catch(func() {
		ctrace.Start(full)
		defer func() { tr = ctrace.Stop() }()
		verdict = p.run(secret)
	})
	return tr, verdict, pan
}

// secret generator: 32-byte strings biased to the shapes the statement names
func c08Secret(t *rapid.T) ([]byte, string) {
	if gen.Int(t, "onewindow", 0, 4) == 0 {
		// exactly one comb window / nibble set
		k := new(big.Int)
		i, j, v := gen.Uniform(t, "iter", 0, 13), gen.Uniform(t, "sub", 0, 2), gen.Uniform(t, "val", 1, 63)
		for b := 0; b < 6; b++ {
			if v>>uint(b)&1 == 1 {
				k.SetBit(k, b*42+i+j*14+4, 1)
			}
		}
		return gen.Pad32(k), "one-window"
	}
	return gen.Bytes32(t, "secret")
}

var c08RawBase = sm2ref.Mul(big.NewInt(0x1234567), sm2ref.G)

// c08RawPoint builds the fixed point [0x1234567]G with RAW coordinate limbs (x*Z, y*Z, Z) mod p for Z = secret mod p (1 if that is
// zero), through the exported table-selection routine (the only exported way to set raw limbs).
func c08RawPoint(secret []byte) *internal.SM2Point {
	z := new(big.Int).SetBytes(secret)
	z.Mod(z, gen.P)
	if z.Sign() == 0 {
		z.SetInt64(1)
	}
	limbs := func(v *big.Int) *[4]uint64 {
		var l [4]uint64
		w := new(big.Int).Set(v)
		m := new(big.Int).SetUint64(^uint64(0))
		for i := 0; i < 4; i++ {
			l[i] = new(big.Int).And(w, m).Uint64()
			w.Rsh(w, 64)
		}
		return &l
	}
	x := new(big.Int).Mul(c08RawBase.X, z)
	y := new(big.Int).Mul(c08RawBase.Y, z)
	tab := [][]*[4]uint64{{limbs(x.Mod(x, gen.P))}, {limbs(y.Mod(y, gen.P))}, {limbs(z)}}
	return internal.NewSM2Point().MultiSelectXYZ(&tab, 1, 1)
}

// c08Stretch turns the 32-byte secret into an n-byte one with the same shape (leading 00/FF runs stay leading runs).
func c08Stretch(secret []byte, n int) []byte {
	if n <= 32 {
		return append([]byte(nil), secret[:n]...)
	}
	return append(append([]byte(nil), secret[:n-32]...), secret...)
}

func TestVerif_C08_Primitives(t *testing.T) {
	rec := stats.Get("C08", "primitives")
	rec.Rule("instrumented build (ctinstr: block, short-circuit and index events in utils, sm2, sm2/internal, fiat). rapid draws a primitive and a 32-byte secret from {uniform; 0,1,n-2..n+1, p, 2^255, 2^256-1; 1..31 leading 00 bytes; 1..31 leading FF bytes; bit runs; one bit; extreme bytes; exactly one comb window set}: P1 ScalarBaseMult(k); P2 ScalarMult(P,k) for fixed public P in {G,[m]G}, also with 16-, 33-, 40- and 64-byte scalars of the same shapes (length is public, value is not); P3 field and scalar Invert(x); P4 MultiSelectXY/XYZ, fiat MultiSelect, Select (secret = selector); P5 TestPrivateKey(d), ConstantTimeCmp(a,b,32) (secret = both); P6 Bytes()/GetAffineX() of [k]G in a secret projective representative, and of a fixed point whose Z is the secret given by its raw Montgomery limbs; P7 (1+d)^-1 as the signer computes it (scalar SetBytes + Invert). Oracle: executions are grouped by (primitive, public parameters, verdict); every execution's block-sequence hash+count, (site,index)-sequence hash+count and executed external-callee set must equal the group's first one; and the callee set of a primitive contains no math/big arithmetic, no bytes/strings call, no string/array comparison. On mismatch both secrets are re-run with full logs and the first diverging event is reported with file:line. Non-trivial: a secret that is not plain uniform compared against a different secret; distinct by (primitive, secret).")
	t.Cleanup(stats.FlushAll)
	if !c08LoadSites(t) {
		rec.Skipped("ctrace_sites.json not found: the instrumenter did not run; nothing judged")
		t.Skip("no instrumentation")
	}
	G := internal.NewSM2Generator()
	mG, _ := internal.NewSM2Point().SetBytes(sm2ref.Encode(sm2ref.Mul(big.NewInt(0x1234567), sm2ref.G)))
	mkTable := func(width int, withZ bool) [][]*[4]uint64 {
		rows := 2
		if withZ {
			rows = 3
		}
		tab := make([][]*[4]uint64, rows)
		for r := range tab {
			tab[r] = make([]*[4]uint64, width)
			for i := range tab[r] {
				tab[r][i] = &[4]uint64{uint64(r*1000 + i + 1), 2, 3, 4}
			}
		}
		return tab
	}
	tab15, tab63 := mkTable(15, true), mkTable(63, false)
	fiatTab := make([]*[4]uint64, 31)
	for i := range fiatTab {
		fiatTab[i] = &[4]uint64{uint64(i + 7), 1, 1, 1}
	}
	fixedB := bytes.Repeat([]byte{0x77}, 32)
	prims := []*c08Prim{
		{"P1:ScalarBaseMult", func(k []byte) string { internal.ScalarBaseMult(k); return "" }},
		{"P2:ScalarMult(G)", func(k []byte) string { internal.ScalarMult(G, k); return "" }},
		{"P2:ScalarMult([m]G)", func(k []byte) string { internal.ScalarMult(mG, k); return "" }},
		// the variable-point routine accepts scalars of any length: the schedule may depend on the LENGTH (public), not on the value
		{"P2:ScalarMult(G,33-byte-scalar)", func(k []byte) string { internal.ScalarMult(G, c08Stretch(k, 33)); return "" }},
		{"P2:ScalarMult([m]G,40-byte-scalar)", func(k []byte) string { internal.ScalarMult(mG, c08Stretch(k, 40)); return "" }},
		{"P2:ScalarMult(G,64-byte-scalar)", func(k []byte) string { internal.ScalarMult(G, c08Stretch(k, 64)); return "" }},
		{"P2:ScalarMult([m]G,16-byte-scalar)", func(k []byte) string { internal.ScalarMult(mG, c08Stretch(k, 16)); return "" }},
		{"P3:SM2Element.Invert", func(x []byte) string {
			v := new(big.Int).SetBytes(x)
			v.Mod(v, gen.P)
			e, _ := new(fiat.SM2Element).SetBytes(gen.Pad32(v))
			ctrace.Restart() // trace only the inversion itself
			new(fiat.SM2Element).Invert(e)
			return ""
		}},
		{"P3:SM2ScalarElement.Invert", func(x []byte) string {
			v := new(big.Int).SetBytes(x)
			v.Mod(v, gen.N)
			e, _ := new(fiat.SM2ScalarElement).SetBytes(gen.Pad32(v))
			ctrace.Restart()
			new(fiat.SM2ScalarElement).Invert(e)
			return ""
		}},
		{"P4:MultiSelectXYZ(15)", func(s []byte) string { internal.NewSM2Point().MultiSelectXYZ(&tab15, 15, s[31]&0x0f); return "" }},
		{"P4:MultiSelectXY(63)", func(s []byte) string { internal.NewSM2Point().MultiSelectXY(&tab63, 63, s[31]&0x3f); return "" }},
		{"P4:fiat.MultiSelect(31)", func(s []byte) string {
			b := s[31] & 0x1f
			c := 0
			if b != 0 {
				c = 1
			}
			e := new(fiat.SM2Element)
			e.MultiSelect(&fiatTab, 31, b, e, c)
			return ""
		}},
		{"P4:Select", func(s []byte) string {
			internal.NewSM2Point().Select(G, mG, int(s[31]&1))
			new(fiat.SM2ScalarElement).Select(new(fiat.SM2ScalarElement).One(), new(fiat.SM2ScalarElement), int(s[30]&1))
			return ""
		}},
		// the verdict of a comparison-based test is the three-way ordering against n-1 (the comparison's own result), plus zero/non-zero
		{"P5:TestPrivateKey", func(d []byte) string {
			v := new(big.Int).SetBytes(d)
			return fmt.Sprint(sm2.TestPrivateKey(d), v.Cmp(sm2gen.NM1), v.Sign() == 0)
		}},
		{"P5:ConstantTimeCmp", func(a []byte) string { return fmt.Sprint(utils.ConstantTimeCmp(a, fixedB, 32)) }},
		{"P5:ConstantTimeCmp(secret,secret')", func(a []byte) string {
			b := append([]byte(nil), a...)
			b[int(a[0])%32] ^= a[1] // second secret derived from the first: equal, or differing in one byte
			return fmt.Sprint(utils.ConstantTimeCmp(a, b, 32))
		}},
		{"P6:Bytes", func(k []byte) string {
			pt, _ := internal.ScalarBaseMult(k)
			ctrace.Restart()
			return fmt.Sprint(len(pt.Bytes()))
		}},
		{"P6:GetAffineX", func(k []byte) string {
			pt, _ := internal.ScalarBaseMult(k)
			inf := pt.IsInfinity()
			ctrace.Restart()
			pt.GetAffineX()
			return fmt.Sprint(inf)
		}},
		// the SECRET is the projective Z itself, given by its raw (Montgomery) limbs: a fixed public point in the representative
		// (x*Z : y*Z : Z). Word-level shortcuts on Z (first non-zero limb, low limb only, ...) show for limbs that scalars cannot steer
		{"P6:GetAffineX(raw-Z)", func(z []byte) string {
			pt := c08RawPoint(z)
			ctrace.Restart()
			pt.GetAffineX()
			return ""
		}},
		{"P6:Bytes(raw-Z)", func(z []byte) string {
			pt := c08RawPoint(z)
			ctrace.Restart()
			return fmt.Sprint(len(pt.Bytes()))
		}},
		{"P7:(1+d)^-1", func(d []byte) string {
			// as SignHashed does: d1 = 1+d left-padded to 32 bytes, SetBytes, Invert. Valid keys only (d in [1,n-2]).
			v := new(big.Int).SetBytes(d)
			v.Mod(v, sm2gen.NM2).Add(v, big.NewInt(1)) // d in [1,n-2]
			d1 := gen.Pad32(new(big.Int).Add(v, big.NewInt(1)))
			ctrace.Restart()
			var e, inv fiat.SM2ScalarElement
			_, err := e.SetBytes(d1)
			inv.Invert(&e)
			return fmt.Sprint(err == nil, new(big.Int).SetBytes(d1).Cmp(sm2gen.NM1))
		}},
		{"P7:(1+d)^-1 near n", func(d []byte) string {
			// 1+d = n-1-j for small j and strings sharing long prefixes with n-1
			v := new(big.Int).SetBytes(d)
			k := int(d[31]) % 33
			nm1 := gen.Pad32(sm2gen.NM1)
			b := append([]byte(nil), d...)
			copy(b[:k], nm1[:k])
			v.SetBytes(b)
			if v.Cmp(sm2gen.NM1) > 0 {
				v.Sub(sm2gen.NM1, big.NewInt(int64(d[30])))
			}
			if v.Cmp(big.NewInt(2)) < 0 {
				v.SetInt64(2)
			}
			ctrace.Restart()
			var e, inv fiat.SM2ScalarElement
			_, err := e.SetBytes(gen.Pad32(v))
			inv.Invert(&e)
			return fmt.Sprint(err == nil, v.Cmp(sm2gen.NM1)) // three-way ordering against n-1 = the comparison's own verdict
		}},
	}
	refs := map[string]*c08Ref{}
	rapid.Check(t, func(t *rapid.T) {
		p := prims[gen.Uniform(t, "prim", 0, len(prims)-1)]
		secret, cls := c08Secret(t)
		tr, verdict, pan := c08Trace(p, secret, false)
		if pan != nil {
			vt.Fail(t, rec, "C08:"+p.name+":panic", "%s panicked on secret %x: %v", p.name, secret, pan)
			return
		}
		key := p.name + "|" + verdict
		ref, ok := refs[key]
		if !ok {
			refs[key] = &c08Ref{secret: append([]byte(nil), secret...), tr: tr}
			rec.Case(stats.Hash([]byte(p.name), secret), false, "prim:"+p.name, "first-of-group")
			// callee set rule is checked on every execution, including the first
			ref = refs[key]
		} else {
			rec.Case(stats.Hash([]byte(p.name), secret), cls != "uniform" && !bytes.Equal(secret, ref.secret), "prim:"+p.name, "secret:"+cls)
		}
		if rec.WantSample(p.name) {
			rec.Sample(p.name, map[string]interface{}{"primitive": p.name, "secret": stats.Hex(secret), "class": cls, "verdict": verdict, "block_events": tr.Blocks, "index_events": tr.Indices, "external_callees": len(c08Callees(tr))})
		}
		for _, c := range c08Callees(tr) {
			if c08ForbiddenInPrimitive(c) {
				vt.Fail(t, rec, "C08:"+p.name+":variable-time-callee", "%s reaches a routine whose running time depends on its operands: %s\nsecret=%x", p.name, c, secret)
				return
			}
		}
		if tr.BlockHash != ref.tr.BlockHash || tr.Blocks != ref.tr.Blocks || tr.IndexHash != ref.tr.IndexHash || tr.Indices != ref.tr.Indices {
			what := "control-flow"
			if tr.BlockHash == ref.tr.BlockHash && tr.Blocks == ref.tr.Blocks {
				what = "memory-index"
			}
			a, _, _ := c08Trace(p, ref.secret, true)
			b, _, _ := c08Trace(p, secret, true)
			vt.Fail(t, rec, "C08:"+p.name+":"+what, "%s: trace depends on the secret (verdict %q in both runs)\nsecret A=%x  (%d block events, %d index events)\nsecret B=%x  (%d block events, %d index events)\nfirst divergence: %s", p.name, verdict, ref.secret, ref.tr.Blocks, ref.tr.Indices, secret, tr.Blocks, tr.Indices, c08FirstDivergence(a, b))
			return
		}
		ca, cb := c08Callees(ref.tr), c08Callees(tr)
		if strings.Join(ca, ";") != strings.Join(cb, ";") {
			vt.Fail(t, rec, "C08:"+p.name+":callee-set", "%s: executed external callee set depends on the secret\nA=%x: %v\nB=%x: %v", p.name, ref.secret, ca, secret, cb)
		}
	})
}

// Scalars just above the group order, every one of them: k = n + delta behaves like delta as a MULTIPLE but not as a BIT PATTERN, and
// the fixed-window schedules meet their exceptional cases there (an addend equal to the accumulator, partial sums that wrap to small
// multiples) — single values among 2^256 that no sampling finds. The trace of each must equal that of an ordinary scalar.
func TestVerif_C08_NearOrderSweep(t *testing.T) {
	rec := stats.Get("C08", "near-order-sweep")
	t.Cleanup(stats.FlushAll)
	if !c08LoadSites(t) {
		rec.Skipped("ctrace_sites.json not found: the instrumenter did not run; nothing judged")
		t.Skip("no instrumentation")
	}
	hi := 1024
	if vt.Thorough() {
		hi = 8192
	}
	rec.Exhaustive(true)
	rec.Rule(fmt.Sprintf("complete enumeration: secret scalars n+delta for delta in -64..%d (32 bytes), and 33-byte scalars 2n+delta, 16n+delta for the variable-point routine; primitives ScalarBaseMult(k), ScalarMult(G,k), ScalarMult([m]G,k). Oracle: block sequence, index sequence and external-callee set equal those of a fixed ordinary scalar of the same length. Every case non-trivial; distinct by (primitive, scalar).", hi-1))
	G := internal.NewSM2Generator()
	mG, _ := internal.NewSM2Point().SetBytes(sm2ref.Encode(sm2ref.Mul(big.NewInt(0x1234567), sm2ref.G)))
	prims := []*c08Prim{
		{"P1:ScalarBaseMult", func(k []byte) string { internal.ScalarBaseMult(k); return "" }},
		{"P2:ScalarMult(G)", func(k []byte) string { internal.ScalarMult(G, k); return "" }},
		{"P2:ScalarMult([m]G)", func(k []byte) string { internal.ScalarMult(mG, k); return "" }},
	}
	si, sn := vt.Shard()
	ordinary := bytes.Repeat([]byte{0x5b, 0xc7, 0x19}, 11)
	for pi, p := range prims {
		for _, ln := range []int{32, 33} {
			if ln == 33 && pi == 0 {
				continue // the base-point routine takes 32 bytes
			}
			refTr, _, pan := c08Trace(p, ordinary[:ln], false)
			if pan != nil {
				continue
			}
			bases := []*big.Int{gen.N}
			if ln == 33 {
				bases = []*big.Int{new(big.Int).Lsh(gen.N, 1), new(big.Int).Lsh(gen.N, 4)}
			}
			for _, base := range bases {
				for d := -64; d < hi; d++ {
					if (d+64)%sn != si {
						continue
					}
					kv := new(big.Int).Add(base, big.NewInt(int64(d)))
					k := kv.Bytes()
					if len(k) > ln {
						continue
					}
					k = append(make([]byte, ln-len(k)), k...)
					tr, _, pan := c08Trace(p, k, false)
					rec.Enumerated(1, "prim:"+p.name)
					if pan != nil {
						vt.Fail(t, rec, "C08:"+p.name+":panic", "%s panicked on k=%x: %v", p.name, k, pan)
						return
					}
					if tr.BlockHash != refTr.BlockHash || tr.Blocks != refTr.Blocks || tr.IndexHash != refTr.IndexHash || tr.Indices != refTr.Indices {
						a, _, _ := c08Trace(p, ordinary[:ln], true)
						b, _, _ := c08Trace(p, k, true)
						vt.Fail(t, rec, "C08:"+p.name+":near-order", "%s: the trace for the scalar %x (the group order times %d, plus %d) differs from the trace of an ordinary %d-byte scalar (%d vs %d block events)\nfirst divergence: %s", p.name, k, new(big.Int).Div(base, gen.N).Int64(), d, ln, tr.Blocks, refTr.Blocks, c08FirstDivergence(a, b))
						return
					}
				}
			}
		}
	}
	rec.Sample("near-order", map[string]interface{}{"deltas": fmt.Sprintf("-64..%d", hi-1)})
}

// Entry points: which inversion routines are reached with secret-derived operands.
func TestVerif_C08_EntryPoints(t *testing.T) {
	rec := stats.Get("C08", "entrypoints")
	rec.Rule("instrumented build; rapid draws a private key (all key classes) and digest/nonce stream; SignHashed, GenerateKey and DerivePublic are traced and the set of external callees in executed blocks is computed from the instrumenter's side table. Oracle (README point 3 / 'inversion by a fixed exponentiation instead of the Euclidean algorithm'): the set contains none of big.Int.ModInverse, GCD, Exp, ModSqrt, Sqrt. The signer's other math/big glue (Add, Mul, Mod, Bytes on r, s) is reported in the evidence, not judged. Non-trivial: every case (each is a distinct secret); distinct by (entry, key, stream).")
	t.Cleanup(stats.FlushAll)
	if !c08LoadSites(t) {
		rec.Skipped("ctrace_sites.json not found: nothing judged")
		t.Skip("no instrumentation")
	}
	seenGlue := map[string]bool{}
	rapid.Check(t, func(t *rapid.T) {
		c := sm2gen.DrawSignCase(t)
		entry := gen.Pick(t, "entry", "SignHashed", "SignHashed", "GenerateKey", "DerivePublic")
		var tr ctrace.Trace
		pan := vt.Catch(func() {
			ctrace.Restart()
			defer func() { tr = ctrace.Stop() }()
			switch entry {
			case "SignHashed":
				sm2.SignHashed(bytes.NewReader(c.Stream), c.DEnc, c.E)
			case "GenerateKey":
				sm2.GenerateKey(bytes.NewReader(append(gen.Pad32(c.D), c.Stream...)))
			case "DerivePublic":
				sm2.DerivePublic(gen.Pad32(c.D))
			}
		})
		if pan != nil {
			vt.Fail(t, rec, "C08:entry:panic", "%s panicked: %v", entry, pan)
			return
		}
		rec.Case(stats.Hash([]byte(entry), c.DEnc, c.E, c.Stream), true, "entry:"+entry)
		cs := c08Callees(tr)
		for _, x := range cs {
			if strings.Contains(x, "math/big") && !seenGlue[entry+x] {
				seenGlue[entry+x] = true
				rec.Note("%s executes %s", entry, x)
			}
		}
		if rec.WantSample(entry) {
			rec.Sample(entry, map[string]interface{}{"entry": entry, "d": stats.Hex(c.DEnc), "block_events": tr.Blocks, "external_callees": cs})
		}
		for _, x := range cs {
			if c08IsInversion(x) {
				vt.Fail(t, rec, "C08:entry:"+entry+":euclidean-inversion", "%s reaches a variable-time inversion on secret-derived data: %s", entry, x)
				return
			}
		}
	})
}

// Entry points, library internals only: everything SignHashed / GenerateKey / DerivePublic execute BELOW the sm2 package's own glue
// (scalar multiplication, affine conversion, scalar-field decoding and inversion, comparisons) must be trace-identical for all secrets.
func TestVerif_C08_EntryInternals(t *testing.T) { verifC08Entries(t, false) }

// (A variant of this sub-check that also judged the events of sm2/sm2.go itself was tried and withdrawn: the unchanged glue pads and
// slices by the byte lengths of math/big values derived from d and k — ensure32Bytes, the 32-len(b) bounds in SignHashed — so its own
// index and block events already vary with the secrets. That is the documented, unjudged math/big part of the signer; see DESIGN 8.4.)
func verifC08Entries(t *testing.T, withGlue bool) {
	rec := stats.Get("C08", "entry-internals")
	if withGlue {
		rec = stats.Get("C08", "entry-glue")
		rec.Rule("as entry-internals, but the block/branch/index events of sm2/sm2.go itself are part of the trace (math/big's inside is not instrumented and not judged); keys additionally from the class whose DERIVED secret (1+d)^-1 mod n is short (below 2^192, 2^128, 2^64: d = v^-1 - 1), where code that walks the words of a big.Int takes fewer steps. Oracle and grouping as entry-internals. Non-trivial: every case after the first of its group; distinct by (entry, d, e, k).")
	} else {
		rec.Rule("instrumented build; events of sites in sm2/sm2.go itself (the math/big glue that forms r and s, not judged) are excluded, everything below it is traced: rapid draws a valid private key (all classes incl. short and carry-chain encodings are padded to 32 bytes for DerivePublic/GenerateKey), a digest and a nonce that is accepted at the first draw; SignHashed(k,d,e), GenerateKey(stream=d) and DerivePublic(d) are executed, each optionally preceded by an untraced call of the same entry point with the SAME key or with another key, and grouped by entry point (SignHashed additionally by the byte length of r+k, a decision of the unjudged glue that determines whether the comparison routine is called at all). Oracle: block-sequence hash+count and (site,index)-sequence hash+count are identical within a group for all (d, e, k). Non-trivial: every case after the first of its group; distinct by (entry, d, e, k).")
	}
	t.Cleanup(stats.FlushAll)
	if !c08LoadSites(t) {
		rec.Skipped("ctrace_sites.json not found: nothing judged")
		t.Skip("no instrumentation")
	}
	if !withGlue {
		glue := map[int]bool{}
		for id, s := range c08Sites {
			if s.File == "sm2/sm2.go" {
				glue[id] = true
			}
		}
		ctrace.Exclude(glue)
		defer ctrace.Exclude(nil)
	}
	rec.Note("observation (reported, not judged — the statement enumerates primitives, and SignHashed's r/s arithmetic is math/big throughout): the glue in sm2/sm2.go calls the comparison with n only when r+k is exactly 32 bytes long, and uses big.Int Add/Mul/Mod/Bytes on values derived from k and d")
	type ref struct {
		tr   ctrace.Trace
		desc string
		run  func(full bool) ctrace.Trace
	}
	refs := map[string]*ref{}
	rapid.Check(t, func(t *rapid.T) {
		d, _, dcls := sm2gen.PrivKey(t, "d")
		r0 := gen.Rand(t, "seed")
		if gen.Uniform(t, "short-derived", 0, 5) == 0 {
			// keys whose DERIVED secret (1+d)^-1 mod n is short: d = v^-1 - 1 for a v of at most 191 / 127 / 63 / 31 bits
			bits := []int{191, 127, 63, 31}[gen.Uniform(t, "derived-bits", 0, 3)]
			v := new(big.Int).SetBytes(gen.RandBytes(r0, 32))
			v.Rsh(v, uint(256-bits)).SetBit(v, bits-1, 1)
			nd := new(big.Int).ModInverse(v, sm2gen.N)
			nd.Sub(nd, big.NewInt(1)).Mod(nd, sm2gen.N)
			if nd.Sign() > 0 && nd.Cmp(sm2gen.NM2) <= 0 {
				d, dcls = nd, fmt.Sprintf("short-derived:%d", bits)
			}
		}
		d32 := gen.Pad32(d)
		e, _ := gen.Bytes32(t, "e")
		k, kcls := gen.Bytes32(t, "k")
		kv := new(big.Int).SetBytes(k)
		kv.Mod(kv, sm2gen.NM1).Add(kv, big.NewInt(1))
		k = gen.Pad32(kv)
		entry := gen.Pick(t, "entry", "SignHashed", "SignHashed", "GenerateKey", "DerivePublic")
		// The signer compares three secret-derived quantities with constants: r with 0, r+k with n, s with 0. One case in six TIES
		// the public digest e (or the key) to the nonce so that ONE of them agrees with its constant in some 64-bit words but not
		// in all — the accepted path, on which a word-wise shortcut in front of the full comparison would take the other branch.
		if entry == "SignHashed" && gen.Uniform(t, "partial-match", 0, 5) == 0 {
			which := gen.Pick(t, "partial-which", "r+k~n", "r+k~n", "r~0", "s~0")
			mask := gen.Uniform(t, "partial-words", 1, 14) // which of the four words agree (not all, not none)
			words := func(base *big.Int) *big.Int {
				v := new(big.Int)
				for w := 3; w >= 0; w-- {
					var limb uint64
					if mask>>uint(w)&1 == 1 {
						limb = new(big.Int).Rsh(base, uint(64*w)).Uint64()
					} else {
						limb = r0.Uint64() | 1<<uint(r0.Intn(64))
					}
					v.Lsh(v, 64).Or(v, new(big.Int).SetUint64(limb))
				}
				return v
			}
			x1 := sm2ref.Mul(kv, sm2ref.G).X
			switch which {
			case "r+k~n":
				T := words(sm2gen.N) // r+k = T, r in [1,n-1]: k is re-drawn inside the window T allows
				T.Mod(T, new(big.Int).Lsh(sm2gen.N, 1))
				lo := new(big.Int).Sub(T, sm2gen.NM1)
				if lo.Sign() <= 0 {
					lo.SetInt64(1)
				}
				hi := new(big.Int).Sub(T, big.NewInt(1))
				if hi.Cmp(sm2gen.NM1) > 0 {
					hi.Set(sm2gen.NM1)
				}
				if hi.Cmp(lo) >= 0 {
					span := new(big.Int).Sub(hi, lo)
					span.Add(span, big.NewInt(1))
					kv = new(big.Int).SetBytes(gen.RandBytes(r0, 40))
					kv.Mod(kv, span).Add(kv, lo)
					k = gen.Pad32(kv)
					x1 = sm2ref.Mul(kv, sm2ref.G).X
					rr := new(big.Int).Sub(T, kv)
					ev := new(big.Int).Sub(rr, x1)
					e = gen.Pad32(ev.Mod(ev, sm2gen.N))
				}
			case "r~0":
				rr := words(new(big.Int))
				rr.Mod(rr, sm2gen.N)
				ev := new(big.Int).Sub(rr, x1)
				e = gen.Pad32(ev.Mod(ev, sm2gen.N))
			case "s~0":
				// s = (1+d)^-1 (k - r d)  =>  d = (k - s) / (r + s)
				sv := words(new(big.Int))
				sv.Mod(sv, sm2gen.N)
				rr := new(big.Int).Add(x1, new(big.Int).SetBytes(e))
				rr.Mod(rr, sm2gen.N)
				den := new(big.Int).Add(rr, sv)
				den.Mod(den, sm2gen.N)
				if den.Sign() != 0 {
					nd := new(big.Int).Sub(kv, sv)
					nd.Mul(nd, new(big.Int).ModInverse(den, sm2gen.N)).Mod(nd, sm2gen.N)
					if nd.Sign() > 0 && nd.Cmp(sm2gen.NM2) <= 0 {
						d, d32, dcls = nd, gen.Pad32(nd), "solved"
					}
				}
			}
			kcls = "partial-match:" + which
		}
		// make sure the signer accepts the first candidate (otherwise the retry is a different, legitimate, path)
		group := entry
		if d.Cmp(sm2gen.NM2) == 0 {
			group += "|d=n-2" // 1+d equals n-1: the comparison's own three-way verdict is 'equal' for this one key
		}
		if entry == "SignHashed" {
			rr, _, n, _, err := sm2ref.Sign(d, e, k)
			if err != nil || n != 1 {
				return
			}
			// the (unjudged) math/big glue of SignHashed calls the comparison routine only when r+k is exactly 32 bytes long:
			// executions are grouped by that decision of the glue, so that only the library code below it is compared
			group += fmt.Sprintf("|len(r+k)=%d", len(new(big.Int).Add(rr, kv).Bytes()))
			// ... and returns its three-way ordering through a final branch (the routine's own verdict, cf. the key range test):
			// r+k > n with 32 bytes happens for 2^-32 of the nonces only, but the partial-match class above produces it
			if rk := new(big.Int).Add(rr, kv); len(rk.Bytes()) == 32 {
				group += fmt.Sprintf("|cmp(r+k,n)=%d", rk.Cmp(sm2gen.N))
			}
		}
		_ = r0
		// history: the call before the traced one used the SAME key, or another key, or there was none — the trace of the traced call
		// must not depend on that (a cache keyed on the previous secret would show here)
		prev := gen.Pick(t, "previous-call", "none", "same-key", "same-key", "other-key")
		other := gen.Pad32(new(big.Int).Add(new(big.Int).Mod(new(big.Int).Add(d, big.NewInt(12345)), sm2gen.NM2), big.NewInt(1)))
		run := func(full bool) (tr ctrace.Trace) {
			pk := d32
			if prev == "other-key" {
				pk = other
			}
			if prev != "none" {
				switch entry {
				case "SignHashed":
					sm2.SignHashed(bytes.NewReader(gen.Pad32(big.NewInt(977))), pk, e)
				case "GenerateKey":
					sm2.GenerateKey(bytes.NewReader(pk))
				case "DerivePublic":
					sm2.DerivePublic(pk)
				}
			}
			ctrace.Start(full)
			defer func() { tr = ctrace.Stop() }()
			switch entry {
			case "SignHashed":
				sm2.SignHashed(bytes.NewReader(k), d32, e)
			case "GenerateKey":
				sm2.GenerateKey(bytes.NewReader(d32))
			case "DerivePublic":
				sm2.DerivePublic(d32)
			}
			return
		}
		var tr ctrace.Trace
		if p := vt.Catch(func() { tr = run(false) }); p != nil {
			vt.Fail(t, rec, "C08:entry:panic", "%s panicked: %v", entry, p)
			return
		}
		desc := fmt.Sprintf("d=%x e=%x k=%x previous call: %s", d32, e, k, prev)
		rf, ok := refs[group]
		rec.Case(stats.Hash([]byte(entry+prev), d32, e, k), ok, "group:"+group, "key:"+dcls, "nonce:"+kcls, "previous-call:"+prev)
		if !ok {
			refs[group] = &ref{tr: tr, desc: desc, run: run}
			return
		}
		if rec.WantSample(entry) {
			rec.Sample(entry, map[string]interface{}{"entry": entry, "d": stats.Hex(d32), "k": stats.Hex(k), "library_block_events": tr.Blocks, "library_index_events": tr.Indices})
		}
		if tr.BlockHash != rf.tr.BlockHash || tr.Blocks != rf.tr.Blocks || tr.IndexHash != rf.tr.IndexHash || tr.Indices != rf.tr.Indices {
			a := rf.run(true)
			b := run(true)
			vt.Fail(t, rec, "C08:entry:"+entry+":internals", "%s: the trace of the library code below the sm2 package depends on the secret\nA: %s (%d block events, %d index events)\nB: %s (%d block events, %d index events)\nfirst divergence: %s", entry, rf.desc, rf.tr.Blocks, rf.tr.Indices, desc, tr.Blocks, tr.Indices, c08FirstDivergence(a, b))
		}
	})
}
