package sm2_test

// C17, two more shapes of concurrency that a steady workload on long-lived objects does not produce:
//
//  1. BURSTS — all goroutines are released from a spin barrier at the same instant and CONSTRUCT an object from the same, never
//     used before, input (NewCipher(key), NewGCM(block), DerivePublic(d), ZA(id, P), sm3.New) and use it once. Anything built
//     lazily or cached per input (published before it is complete, filled in twice) is hit in its first microsecond.
//  2. COLD START — the same, but as the very first library calls of a fresh process (a child of this test binary that does
//     nothing before the barrier): one-time initialisation, self tests and lazily built tables race with their first users.
//
// Expected values come from the references (never from a warm-up call of the library).

import (
	"bytes"
	"crypto/cipher"
	"encoding/hex"
	"encoding/json"
	"fmt"
	"math/big"
	"os"
	"os/exec"
	"path/filepath"
	"runtime"
	"strings"
	"sync"
	"sync/atomic"
	"testing"

	"github.com/bilibili/smgo/sm2"
	"github.com/bilibili/smgo/sm3"
	"github.com/bilibili/smgo/sm4"
	"pgregory.net/rapid"
	"verif.local/ref/gcmref"
	"verif.local/ref/gen"
	"verif.local/ref/sm2gen"
	"verif.local/ref/sm2ref"
	"verif.local/ref/sm3ref"
	"verif.local/ref/sm4ref"
	"verif.local/ref/stats"
	"verif.local/ref/vt"
)

// c17Barrier is a reusable spin barrier: all n goroutines leave within nanoseconds of each other.
type c17Barrier struct {
	n          int32
	count, gen int32
}

func (b *c17Barrier) wait() {
	g := atomic.LoadInt32(&b.gen)
	if atomic.AddInt32(&b.count, 1) == b.n {
		atomic.StoreInt32(&b.count, 0)
		atomic.AddInt32(&b.gen, 1)
		return
	}
	for i := 1; atomic.LoadInt32(&b.gen) == g; i++ {
		if i&4095 == 0 {
			runtime.Gosched() // never starve a goroutine that has not arrived yet
		}
	}
}

const c17Reps = 48 // constructor rounds: this many fresh keys per round, one barrier each

// c17Round is one burst: what every goroutine does once released, and what must come out.
type c17Round struct {
	Kind string `json:"kind"`
	A    string `json:"a"` // hex inputs (meaning depends on Kind)
	B    string `json:"b"`
	C    string `json:"c"`
	D    string `json:"d"`
	E    string `json:"e"`
	Want string `json:"want"`
}

func c17hex(b []byte) string { return hex.EncodeToString(b) }
func c17un(s string) []byte  { b, _ := hex.DecodeString(s); return b }

// c17DrawRound draws one round with fresh inputs and computes the expected result with the references.
func c17DrawRound(t *rapid.T, r interface{ Read([]byte) (int, error) }, label string) c17Round {
	rb := func(n int) []byte { b := make([]byte, n); r.Read(b); return b }
	kind := gen.Pick(t, label+".kind", "newcipher", "newcipher", "newgcm", "derive", "za", "verify", "sign", "sm3")
	if label == "long-rejections" {
		kind = "sign-long-rejections"
		// every goroutine signs with ITS OWN source that is stuck for a long while (B = number of rejected candidates, set by the
		// runner so that all goroutines together exceed 2^20) before it delivers a good nonce: bookkeeping of rejected candidates
		// that is shared between calls shows only here
		d := new(big.Int).SetBytes(rb(40))
		d.Mod(d, sm2gen.NM2).Add(d, big.NewInt(1))
		e, k := rb(32), rb(32)
		k[0] &= 0x7f
		rr, ss, _, _, err := sm2ref.Sign(d, e, k)
		if err != nil {
			return c17DrawRound(t, r, label+"'")
		}
		return c17Round{Kind: kind, A: c17hex(gen.Pad32(d)), B: c17hex(e), C: c17hex(k), Want: c17hex(gen.Pad32(rr)) + "|" + c17hex(gen.Pad32(ss)) + "|<nil>"}
	}
	switch kind {
	case "newcipher":
		// c17Reps fresh keys, one barrier each: constructor caches are hit while they are being filled
		keys, blk := rb(16*c17Reps), rb(16)
		var want []byte
		for j := 0; j < c17Reps; j++ {
			out := make([]byte, 16)
			sm4ref.New(keys[16*j:16*j+16]).Encrypt(out, blk)
			want = append(want, out...)
		}
		return c17Round{Kind: kind, A: c17hex(keys), B: c17hex(blk), Want: c17hex(want)}
	case "newgcm":
		key, nonce, pt, aad := rb(16), rb(12), rb(gen.Uniform(t, label+".ptlen", 0, 100)), rb(gen.Uniform(t, label+".aadlen", 0, 30))
		return c17Round{Kind: kind, A: c17hex(key), B: c17hex(nonce), C: c17hex(pt), D: c17hex(aad), Want: c17hex(gcmref.Seal(sm4ref.New(key), nonce, pt, aad, 16))}
	case "derive":
		d := new(big.Int).SetBytes(rb(40))
		d.Mod(d, sm2gen.NM2).Add(d, big.NewInt(1))
		px, py, _ := sm2gen.Pub(d)
		return c17Round{Kind: kind, A: c17hex(gen.Pad32(d)), Want: c17hex(px) + "|" + c17hex(py) + "|<nil>"}
	case "za":
		d := new(big.Int).SetBytes(rb(40))
		d.Mod(d, sm2gen.NM2).Add(d, big.NewInt(1))
		px, py, _ := sm2gen.Pub(d)
		id := rb(gen.Uniform(t, label+".idlen", 0, 40))
		za, _ := sm2ref.ZA(id, px, py)
		return c17Round{Kind: kind, A: c17hex(id), B: c17hex(px), C: c17hex(py), Want: c17hex(za) + "|<nil>"}
	case "verify", "sign":
		d := new(big.Int).SetBytes(rb(40))
		d.Mod(d, sm2gen.NM2).Add(d, big.NewInt(1))
		px, py, _ := sm2gen.Pub(d)
		e, k := rb(32), rb(96)
		k[0] &= 0x7f
		rr, ss, _, _, err := sm2ref.Sign(d, e, k)
		if err != nil {
			return c17DrawRound(t, r, label+"'")
		}
		if kind == "sign" {
			return c17Round{Kind: kind, A: c17hex(gen.Pad32(d)), B: c17hex(e), C: c17hex(k), Want: c17hex(gen.Pad32(rr)) + "|" + c17hex(gen.Pad32(ss)) + "|<nil>"}
		}
		return c17Round{Kind: kind, A: c17hex(px), B: c17hex(py), C: c17hex(e), D: c17hex(gen.Pad32(rr)), E: c17hex(gen.Pad32(ss)), Want: "true <nil>"}
	default:
		msg := rb(gen.Uniform(t, label+".msglen", 0, 200))
		w := sm3ref.Sum(msg)
		return c17Round{Kind: "sm3", A: c17hex(msg), Want: c17hex(w[:])}
	}
}

// c17Do performs one round's call(s) through the library; in holds the decoded inputs (decoded BEFORE the barrier, so that the
// library call is the first thing a released goroutine does).
func c17Do(rd c17Round, in [5][]byte, bar *c17Barrier) (got string) {
	defer func() {
		if p := recover(); p != nil {
			got = fmt.Sprintf("PANIC: %v", p)
		}
	}()
	c17un := func(s string) []byte {
		for i, f := range []string{rd.A, rd.B, rd.C, rd.D, rd.E} {
			if f == s {
				return in[i]
			}
		}
		return nil
	}
	switch rd.Kind {
	case "newcipher":
		keys, blk := c17un(rd.A), c17un(rd.B)
		var all []byte
		fail := ""
		for j := 0; 16*j < len(keys); j++ {
			if j > 0 {
				bar.wait() // every goroutine must pass every barrier, whatever happened before
			}
			func() {
				defer func() { // a panic must not keep this goroutine from the remaining barriers
					if p := recover(); p != nil {
						fail = fmt.Sprintf("PANIC in repetition %d: %v", j, p)
					}
				}()
				b, err := sm4.NewCipher(keys[16*j : 16*j+16])
				if err != nil {
					fail = "error: " + err.Error()
					return
				}
				out := make([]byte, 16)
				b.Encrypt(out, blk)
				all = append(all, out...)
			}()
		}
		if fail != "" {
			return fail
		}
		return c17hex(all)
	case "newgcm":
		b, err := sm4.NewCipher(c17un(rd.A))
		if err != nil {
			return "error: " + err.Error()
		}
		a, err := cipher.NewGCM(b)
		if err != nil {
			return "error: " + err.Error()
		}
		return c17hex(a.Seal(nil, c17un(rd.B), c17un(rd.C), c17un(rd.D)))
	case "derive":
		x, y, err := sm2.DerivePublic(c17un(rd.A))
		return fmt.Sprintf("%x|%x|%v", x, y, err)
	case "za":
		za, err := sm2.ZA(c17un(rd.A), c17un(rd.B), c17un(rd.C))
		return fmt.Sprintf("%x|%v", za, err)
	case "verify":
		ok, err := sm2.VerifyHashed(c17un(rd.A), c17un(rd.B), c17un(rd.C), c17un(rd.D), c17un(rd.E))
		return fmt.Sprint(ok, err)
	case "sign":
		r, s, err := sm2.SignHashed(bytes.NewReader(c17un(rd.C)), c17un(rd.A), c17un(rd.B))
		return fmt.Sprintf("%x|%x|%v", r, s, err)
	case "sign-long-rejections":
		r, s, err := sm2.SignHashed(&c17StuckReader{left: int64(32 * (1<<20*5/4/int(bar.n) + 1000)), good: c17un(rd.C)}, c17un(rd.A), c17un(rd.B))
		return fmt.Sprintf("%x|%x|%v", r, s, err)
	default:
		h := sm3.New()
		h.Write(c17un(rd.A))
		return c17hex(h.Sum(nil))
	}
}

// c17Burst releases g goroutines at once on every round, in order; returns the first mismatch.
func c17Burst(rounds []c17Round, g int) string {
	var mu sync.Mutex
	first := ""
	for ri, rd := range rounds {
		bar := &c17Barrier{n: int32(g)}
		var wg sync.WaitGroup
		for i := 0; i < g; i++ {
			wg.Add(1)
			go func(i int) {
				defer wg.Done()
				var in [5][]byte
				for k, f := range []string{rd.A, rd.B, rd.C, rd.D, rd.E} {
					in[k] = c17un(f) // every goroutine its own copies, decoded before the barrier
				}
				bar.wait()
				if got := c17Do(rd, in, bar); got != rd.Want {
					mu.Lock()
					if first == "" {
						if len(got) > 400 {
							j := 0
							for j < len(got) && j < len(rd.Want) && got[j] == rd.Want[j] {
								j++
							}
							got = fmt.Sprintf("(differs from hex position %d, i.e. repetition %d) ...%s", j, j/32, got[j/32*32:min(len(got), j/32*32+32)])
						}
						first = fmt.Sprintf("round %d (%s), goroutine %d of %d released together on the same fresh input:\n got %s\nwant %s", ri, rd.Kind, i, g, got, rd.Want[:min(len(rd.Want), 200)])
					}
					mu.Unlock()
				}
			}(i)
		}
		wg.Wait()
		if first != "" {
			return first
		}
	}
	return ""
}

func TestVerif_C17_Bursts(t *testing.T) {
	rec := stats.Get("C17", "bursts")
	rec.Rule("rapid draws 8..16 rounds; in each round 2..12 goroutines are released from a spin barrier together and each CONSTRUCTS and uses once an object from the same never-used input: NewCipher(key)+Encrypt, NewCipher+NewGCM+Seal, DerivePublic(d), ZA(id,P), VerifyHashed, SignHashed (own reader), sm3.New+Write+Sum. Oracle: every result equals the reference's (sm4ref, gcmref, sm2ref, sm3ref); race detector. Non-trivial: every plan (>= 2 goroutines per round); distinct by plan.")
	t.Cleanup(stats.FlushAll)
	rapid.Check(t, func(t *rapid.T) {
		r := gen.Rand(t, "content")
		n := gen.Int(t, "rounds", 8, 16)
		var rounds []c17Round
		kinds := ""
		for i := 0; i < n; i++ {
			rd := c17DrawRound(t, r, fmt.Sprintf("r%d", i))
			rounds = append(rounds, rd)
			kinds += rd.Kind + ","
		}
		g := gen.Int(t, "goroutines", 2, 12)
		rec.Case(stats.HashS(kinds, rounds[0].A, fmt.Sprint(g)), true, fmt.Sprintf("goroutines:%d", (g+3)/4*4))
		if rec.WantSample("burst") {
			rec.Sample("burst", map[string]interface{}{"rounds": kinds, "goroutines": g})
		}
		if m := c17Burst(rounds, g); m != "" {
			vt.Fail(t, rec, "C17:burst:result-differs", "%s", m)
		}
	})
}

// One round in which every goroutine's own entropy source is stuck for so long that the goroutines TOGETHER see more than 2^20
// rejected candidates while each of them alone stays well below: state about rejected candidates that is shared between calls.
func TestVerif_C17_LongRejections(t *testing.T) {
	rec := stats.Get("C17", "long-rejections")
	rec.Rule("rapid draws key, digest, nonce and a goroutine count 4..10; the goroutines are released together and each signs with its OWN source that delivers 1.25*2^20/goroutines rejected candidates before the good nonce. Oracle: every goroutine gets the reference signature. 1 plan in quick, 3 in thorough; non-trivial: every plan.")
	t.Cleanup(stats.FlushAll)
	rapid.Check(t, func(t *rapid.T) {
		r := gen.Rand(t, "content")
		rd := c17DrawRound(t, r, "long-rejections")
		g := gen.Int(t, "goroutines", 4, 10)
		rec.Case(stats.HashS(rd.A, rd.B, fmt.Sprint(g)), true, fmt.Sprintf("goroutines:%d", g))
		rec.Sample("long-rejections", map[string]interface{}{"goroutines": g, "rejected_per_goroutine": 1<<20*5/4/g + 1000})
		if m := c17Burst([]c17Round{rd}, g); m != "" {
			vt.Fail(t, rec, "C17:long-rejections:result-differs", "%s", m)
		}
	})
}

// ONE shared AEAD (and its Block) hammered by goroutines that leave the barrier together and each run a series of Seal / Open /
// Encrypt calls on it with their OWN messages (lengths with partial blocks, so every staging buffer is in use); expected values are
// computed with the reference BEFORE the barrier. Per-call state that lives in the shared object instead of in the call shows as a
// wrong tag or tail within a few rounds, far more reliably than in a mixed workload.
func TestVerif_C17_SharedAEADHammer(t *testing.T) {
	rec := stats.Get("C17", "shared-aead-hammer")
	rec.Rule("rapid draws key, (nonce size, tag size) from {12/16, 12/13, 13/16, 16/16, 130/16}, 2..12 goroutines and 48 repetitions; every goroutine precomputes its own (nonce, aad, plaintext of 1..300 bytes, mostly with a partial last block) and the reference ciphertexts, then all leave a spin barrier together and alternate Seal, Open and Block.Encrypt on the ONE shared AEAD / Block. Oracle: every result equals the reference's; race detector. Non-trivial: every plan; distinct by plan.")
	t.Cleanup(stats.FlushAll)
	rapid.Check(t, func(t *rapid.T) {
		r := gen.Rand(t, "content")
		key := gen.RandBytes(r, 16)
		cfg := [][2]int{{12, 16}, {12, 13}, {13, 16}, {16, 16}, {130, 16}}[gen.Uniform(t, "cfg", 0, 4)]
		g := gen.Int(t, "goroutines", 2, 12)
		const reps = 48
		blk, err := sm4.NewCipher(key)
		if err != nil {
			t.Fatalf("NewCipher: %v", err)
		}
		var a cipher.AEAD
		if cfg[1] != 16 {
			a, err = cipher.NewGCMWithTagSize(blk, cfg[1])
		} else {
			a, err = cipher.NewGCMWithNonceSize(blk, cfg[0])
		}
		if err != nil {
			t.Fatalf("NewGCM: %v", err)
		}
		ref := sm4ref.New(key)
		seeds := make([]int64, g)
		for i := range seeds {
			seeds[i] = int64(gen.Uniform(t, "gseed", 0, 1<<30))
		}
		rec.Case(stats.Hash(key, []byte(fmt.Sprint(cfg, g, seeds))), true, fmt.Sprintf("goroutines:%d", (g+3)/4*4), fmt.Sprintf("nonce:%d,tag:%d", cfg[0], cfg[1]))
		bar := &c17Barrier{n: int32(g)}
		var mu sync.Mutex
		first := ""
		var wg sync.WaitGroup
		for i := 0; i < g; i++ {
			wg.Add(1)
			go func(i int) {
				defer wg.Done()
				rr := randFrom(seeds[i])
				type msg struct{ nonce, aad, pt, want, blockIn, blockWant []byte }
				ms := make([]msg, reps)
				for k := range ms {
					n := 1 + rr.Intn(300)
					m := msg{nonce: gen.RandBytes(rr, cfg[0]), aad: gen.RandBytes(rr, rr.Intn(40)), pt: gen.RandBytes(rr, n), blockIn: gen.RandBytes(rr, 16), blockWant: make([]byte, 16)}
					m.want = gcmref.Seal(ref, m.nonce, m.pt, m.aad, cfg[1])
					ref.Encrypt(m.blockWant, m.blockIn)
					ms[k] = m
				}
				fail := ""
				bar.wait()
				for k, m := range ms {
					func() {
						defer func() {
							if p := recover(); p != nil && fail == "" {
								fail = fmt.Sprintf("repetition %d panicked: %v", k, p)
							}
						}()
						if got := a.Seal(nil, m.nonce, m.pt, m.aad); !bytes.Equal(got, m.want) && fail == "" {
							fail = fmt.Sprintf("repetition %d: Seal of a %d-byte message on the shared AEAD differs from the reference\n got %x\nwant %x", k, len(m.pt), got, m.want)
						}
						if pt, err := a.Open(nil, m.nonce, m.want, m.aad); (err != nil || !bytes.Equal(pt, m.pt)) && fail == "" {
							fail = fmt.Sprintf("repetition %d: Open of an authentic %d-byte message on the shared AEAD: err=%v", k, len(m.pt), err)
						}
						out := make([]byte, 16)
						blk.Encrypt(out, m.blockIn)
						if !bytes.Equal(out, m.blockWant) && fail == "" {
							fail = fmt.Sprintf("repetition %d: Encrypt on the shared Block differs from the reference", k)
						}
					}()
				}
				if fail != "" {
					mu.Lock()
					if first == "" {
						first = fmt.Sprintf("goroutine %d of %d on ONE shared AEAD (nonce %d, tag %d): %s", i, g, cfg[0], cfg[1], fail)
					}
					mu.Unlock()
				}
			}(i)
		}
		wg.Wait()
		if first != "" {
			vt.Fail(t, rec, "C17:shared-aead:result-differs", "%s", first)
		}
	})
}

// The child of TestVerif_C17_ColdStart: its first library calls are the burst itself.
func TestVerif_C17_ColdChild(t *testing.T) {
	planPath := os.Getenv("VERIF_C17_COLD_PLAN")
	if planPath == "" {
		t.Skip("only run as the child of TestVerif_C17_ColdStart")
	}
	b, err := os.ReadFile(planPath)
	if err != nil {
		t.Fatal(err)
	}
	var plan struct {
		Rounds     []c17Round `json:"rounds"`
		Goroutines int        `json:"goroutines"`
	}
	if err := json.Unmarshal(b, &plan); err != nil {
		t.Fatal(err)
	}
	if m := c17Burst(plan.Rounds, plan.Goroutines); m != "" {
		fmt.Println("VERIF-COLD-MISMATCH: " + strings.ReplaceAll(m, "\n", " // "))
		t.Fail()
	}
}

func TestVerif_C17_ColdStart(t *testing.T) {
	rec := stats.Get("C17", "cold-start")
	rec.Rule("rapid draws a plan of 1..3 rounds (as in the burst sub-check) and a goroutine count 2..12; a CHILD PROCESS of this test binary (race detector on) executes it as its very first library calls, all goroutines released together. Oracle: every result equals the reference's; the child reports no data race and does not crash. Non-trivial: every plan; distinct by plan.")
	t.Cleanup(stats.FlushAll)
	dir := t.TempDir()
	exe, err := os.Executable()
	if err != nil {
		rec.Skipped("cannot locate the test binary: " + err.Error())
		return
	}
	n := 0
	rapid.Check(t, func(t *rapid.T) {
		r := gen.Rand(t, "content")
		var rounds []c17Round
		kinds := ""
		nr := gen.Int(t, "rounds", 1, 3)
		for i := 0; i < nr; i++ {
			rd := c17DrawRound(t, r, fmt.Sprintf("r%d", i))
			rounds = append(rounds, rd)
			kinds += rd.Kind + ","
		}
		g := gen.Int(t, "goroutines", 2, 12)
		n++
		planPath := filepath.Join(dir, fmt.Sprintf("cold%d.json", n))
		pb, _ := json.Marshal(map[string]interface{}{"rounds": rounds, "goroutines": g})
		os.WriteFile(planPath, pb, 0o644)
		cmd := exec.Command(exe, "-test.run", "^TestVerif_C17_ColdChild$", "-test.count=1")
		cmd.Env = append(os.Environ(), "VERIF_C17_COLD_PLAN="+planPath, "VERIF_STATS_DIR=")
		out, runErr := cmd.CombinedOutput()
		rec.Case(stats.HashS(kinds, rounds[0].A, fmt.Sprint(g)), true, "first:"+rounds[0].Kind)
		if rec.WantSample(rounds[0].Kind) {
			rec.Sample(rounds[0].Kind, map[string]interface{}{"rounds": kinds, "goroutines": g})
		}
		so := string(out)
		switch {
		case strings.Contains(so, "VERIF-COLD-MISMATCH: "):
			i := strings.Index(so, "VERIF-COLD-MISMATCH: ")
			vt.Fail(t, rec, "C17:cold-start:result-differs", "as the first calls of a fresh process: %s", strings.SplitN(so[i+21:], "\n", 2)[0])
		case strings.Contains(so, "DATA RACE"):
			vt.Fail(t, rec, "C17:cold-start:data-race", "data race in the first calls of a fresh process (rounds %s, %d goroutines)\n%s", kinds, g, verifTailS(so, 1500))
		case runErr != nil && (strings.Contains(so, "test timed out") || strings.Contains(so, "out of memory") || strings.Contains(so, "cannot allocate") || strings.Contains(so, "resource temporarily unavailable") || !(strings.Contains(so, "panic:") || strings.Contains(so, "fatal error") || strings.Contains(so, "unexpected signal") || strings.Contains(so, "--- FAIL"))):
			rec.Skipped(fmt.Sprintf("child process failed for lack of time or memory, or without a report (%v): %s", runErr, verifTailS(so, 200)))
		case runErr != nil:
			vt.Fail(t, rec, "C17:cold-start:crash", "the child process failed (rounds %s, %d goroutines): %v\n%s", kinds, g, runErr, verifTailS(so, 1500))
		}
	})
}

func verifTailS(s string, n int) string {
	if len(s) > n {
		return s[len(s)-n:]
	}
	return s
}

// c17StuckReader delivers 0xFF bytes (candidates >= n) for a while, then the good nonce, then zeros.
type c17StuckReader struct {
	left int64
	good []byte
	pos  int
}

func (r *c17StuckReader) Read(p []byte) (int, error) {
	for i := range p {
		switch {
		case r.left > 0:
			p[i] = 0xff
			r.left--
		case r.pos < len(r.good):
			p[i] = r.good[r.pos]
			r.pos++
		default:
			p[i] = 0
		}
	}
	return len(p), nil
}
