package sm2_test

// C10 (SM2 part) — no operation changes a byte of the slices passed as key, id, message, digest, signature or public key,
// nor of the caller's memory behind them; repeating a call on the same buffers gives the same answer.

import (
	"bytes"
	"fmt"
	"testing"

	"github.com/bilibili/smgo/sm2"
	"pgregory.net/rapid"
	"verif.local/ref/gen"
	"verif.local/ref/sm2gen"
	"verif.local/ref/sm2ref"
	"verif.local/ref/stats"
	"verif.local/ref/vt"
)

func TestVerif_C10_SM2Records(t *testing.T) {
	rec := stats.Get("C10", "sm2-records")
	rec.Rule("rapid: one exported sm2 function per case {DerivePublic, CheckOnCurve, TestPrivateKey, ZA, Sign, SignZa, SignHashed, Verify, VerifyZa, VerifyHashed}; all its byte-slice arguments are sub-slices of ONE record buffer in a drawn order (each slice's capacity extends over the fields behind it, as in a wire record parsed in place; canary bytes at the end); id 0..80 bytes, message 0..150 bytes. Oracle: the whole record is byte-identical after the call; the results equal those of the same call on independent exact-capacity copies; calling again on the record gives the same results. Non-trivial: every case; distinct by (function, arguments, field order).")
	t.Cleanup(stats.FlushAll)
	rapid.Check(t, func(t *rapid.T) {
		r0 := gen.Rand(t, "seed")
		d, denc, _ := sm2gen.PrivKey(t, "d")
		denc = gen.Pad32(d)
		px, py, _ := sm2gen.Pub(d)
		id := gen.RandBytes(r0, gen.Uniform(t, "idlen", 0, 80))
		msg := gen.RandBytes(r0, gen.Uniform(t, "msglen", 0, 150))
		za, _ := sm2ref.ZA(id, px, py)
		e := sm2ref.E(za, msg)
		stream := gen.RandBytes(r0, 96)
		stream[0] &= 0x7f
		rr, ss, _, _, err := sm2ref.Sign(d, e, stream)
		if err != nil {
			return
		}
		r, s := gen.Pad32(rr), gen.Pad32(ss)
		fn := gen.Pick(t, "fn", "DerivePublic", "CheckOnCurve", "TestPrivateKey", "ZA", "Sign", "SignZa", "SignHashed", "Verify", "VerifyZa", "VerifyHashed")
		exact := func(b []byte) []byte { c := append([]byte(nil), b...); return c[:len(c):len(c)] }
		// call returns a printable result
		call := func(a map[string][]byte) string {
			switch fn {
			case "DerivePublic":
				x, y, err := sm2.DerivePublic(a["d"])
				return fmt.Sprintf("%x %x %v", x, y, err)
			case "CheckOnCurve":
				return fmt.Sprint(sm2.CheckOnCurve(a["px"], a["py"]))
			case "TestPrivateKey":
				return fmt.Sprint(sm2.TestPrivateKey(a["d"]))
			case "ZA":
				z, err := sm2.ZA(a["id"], a["px"], a["py"])
				return fmt.Sprintf("%x %v", z, err)
			case "Sign":
				r, s, err := sm2.Sign(a["id"], a["px"], a["py"], bytes.NewReader(stream), a["d"], a["msg"])
				return fmt.Sprintf("%x %x %v", r, s, err)
			case "SignZa":
				r, s, err := sm2.SignZa(bytes.NewReader(stream), a["d"], a["za"], a["msg"])
				return fmt.Sprintf("%x %x %v", r, s, err)
			case "SignHashed":
				r, s, err := sm2.SignHashed(bytes.NewReader(stream), a["d"], a["e"])
				return fmt.Sprintf("%x %x %v", r, s, err)
			case "Verify":
				ok, err := sm2.Verify(a["id"], a["px"], a["py"], a["msg"], a["r"], a["s"])
				return fmt.Sprint(ok, err)
			case "VerifyZa":
				ok, err := sm2.VerifyZa(a["px"], a["py"], a["za"], a["msg"], a["r"], a["s"])
				return fmt.Sprint(ok, err)
			default:
				ok, err := sm2.VerifyHashed(a["px"], a["py"], a["e"], a["r"], a["s"])
				return fmt.Sprint(ok, err)
			}
		}
		names := map[string][]string{
			"DerivePublic": {"d"}, "CheckOnCurve": {"px", "py"}, "TestPrivateKey": {"d"}, "ZA": {"id", "px", "py"},
			"Sign": {"id", "px", "py", "d", "msg"}, "SignZa": {"d", "za", "msg"}, "SignHashed": {"d", "e"},
			"Verify": {"id", "px", "py", "msg", "r", "s"}, "VerifyZa": {"px", "py", "za", "msg", "r", "s"}, "VerifyHashed": {"px", "py", "e", "r", "s"},
		}[fn]
		vals := map[string][]byte{"d": denc, "px": px, "py": py, "id": id, "msg": msg, "za": za, "e": e, "r": r, "s": s}
		var fields [][]byte
		indep := map[string][]byte{}
		for _, n := range names {
			fields = append(fields, vals[n])
			indep[n] = exact(vals[n])
		}
		placed, changed := recordLayout(t, "rec", fields...)
		inrec := map[string][]byte{}
		for i, n := range names {
			inrec[n] = placed[i]
		}
		rec.Case(stats.Hash([]byte(fn), denc, id, msg), true, "fn:"+fn)
		if rec.WantSample(fn) {
			rec.Sample(fn, map[string]interface{}{"fn": fn, "args": names, "id_len": len(id), "msg_len": len(msg)})
		}
		var want, got1, got2 string
		if p := vt.Catch(func() { want = call(indep); got1 = call(inrec) }); p != nil {
			vt.Fail(t, rec, "C10:sm2:panic", "%s panicked: %v", fn, p)
			return
		}
		if ch := changed(); ch != "" {
			vt.Fail(t, rec, "C10:sm2:"+fn+":writes-caller-memory", "%s changed the caller's record (arguments passed as sub-slices of one buffer): %s", fn, ch)
			return
		}
		if got1 != want {
			vt.Fail(t, rec, "C10:sm2:"+fn+":depends-on-layout", "%s gives a different result when its arguments are sub-slices of one record\nindependent: %s\nin record:   %s", fn, want, got1)
			return
		}
		if p := vt.Catch(func() { got2 = call(inrec) }); p != nil || got2 != got1 || changed() != "" {
			vt.Fail(t, rec, "C10:sm2:"+fn+":repeat", "%s: repeating the call on the same buffers: panic=%v, equal=%v, record changed=%q", fn, p, got2 == got1, changed())
		}
	})
}
