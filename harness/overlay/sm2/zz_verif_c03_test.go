package sm2_test

// C03 — verification accepts exactly the signatures the standard accepts.
// Oracle: sm2ref.Verify, written from GM/T 0003.2 §7 with every side condition.

import (
	"fmt"
	"math/big"
	"testing"

	"github.com/bilibili/smgo/sm2"
	"pgregory.net/rapid"
	"verif.local/ref/gen"
	"verif.local/ref/sm2gen"
	"verif.local/ref/sm2ref"
	"verif.local/ref/stats"
	"verif.local/ref/vt"
)

func c03Check(t vt.TB, rec *stats.Recorder, c sm2gen.VerifyCase) (want bool) {
	want = sm2ref.Verify(c.Px, c.Py, c.E, c.R, c.S)
	in := snap(c.Px, c.Py, c.E, c.R, c.S)
	var ok bool
	var err error
	if p := vt.Catch(func() { ok, err = sm2.VerifyHashed(c.Px, c.Py, c.E, c.R, c.S) }); p != nil {
		vt.Fail(t, rec, "C03:panic", "VerifyHashed panicked (%s): %v\npx=%x py=%x\ne=%x\nr=%x\ns=%x", c.Class, p, c.Px, c.Py, c.E, c.R, c.S)
		return
	}
	if ok != want {
		sig := "C03:accepts-invalid:" + c.Class
		if want {
			sig = "C03:rejects-valid:" + c.Class
		}
		vt.Fail(t, rec, sig, "VerifyHashed=%v (err=%v), GM/T 0003.2 says %v (class %s)\npx=%x py=%x\ne=%x\nr=%x\ns=%x", ok, err, want, c.Class, c.Px, c.Py, c.E, c.R, c.S)
		return
	}
	if ok && err != nil {
		vt.Fail(t, rec, "C03:true-with-error", "VerifyHashed returned true together with error %v", err)
	}
	if !sameAll(in, c.Px, c.Py, c.E, c.R, c.S) {
		vt.Fail(t, rec, "C03:modifies-input", "VerifyHashed modified one of its arguments")
	}
	return
}

// verifProp_C03_Iff builds the property (shared by the rapid test and the native fuzz target).
func verifProp_C03_Iff() func(*rapid.T) {
	rec := stats.Get("C03", "iff")
	rec.Rule("rapid: (pubx,puby,e,r,s) from: valid signatures (uniform and with short r/s/t); single-bit flips of each field; length changes (drop/prepend/append/empty/strip leading zeros) of each field; triples SOLVED to satisfy the verification equation while breaking one side condition: r=0, s=0, r+s=n, [s]G+[t]P=O with e=r, r+n, s+n (when they fit in 32 bytes), key with x+p (tiny x found by square root), y>=p, off-curve, (x,p-y), (0,0); e+n (stays valid); r or s >= n; r,s swapped; garbage. Oracle: VerifyHashed's bool == sm2ref.Verify (GM/T 0003.2 §7, all side conditions); error only with false; no panic; inputs unmodified. Non-trivial: every constructed class (everything except plain valid and garbage), or the reference accepts; distinct by the five strings.")
	return func(t *rapid.T) {
		foreignCalls(t, rec, "foreign") // state left behind by other entry points must not matter
		c := sm2gen.DrawVerifyCase(t)
		want := c03Check(t, rec, c)
		rec.Case(stats.Hash(c.Px, c.Py, c.E, c.R, c.S), c.Special || want, "class:"+c.Class, fmt.Sprintf("accept:%v", want))
		if rec.WantSample(c.Class) {
			rec.Sample(c.Class, map[string]interface{}{"class": c.Class, "px": stats.Hex(c.Px), "py": stats.Hex(c.Py), "e": stats.Hex(c.E), "r": stats.Hex(c.R), "s": stats.Hex(c.S), "standard_accepts": want})
		}
	}
}

func TestVerif_C03_Iff(t *testing.T) {
	t.Cleanup(stats.FlushAll)
	rapid.Check(t, verifProp_C03_Iff())
}

// FuzzVerif_C03_Iff drives the same property with Go's coverage-guided fuzzer (thorough tier).
func FuzzVerif_C03_Iff(f *testing.F) {
	f.Fuzz(rapid.MakeFuzz(verifProp_C03_Iff()))
}

// All 5x256 single-bit flips of a few valid signatures (complete per signature).
func TestVerif_C03_AllBitFlips(t *testing.T) {
	rec := stats.Get("C03", "allbitflips")
	rec.Rule("for K valid signatures (K=2 quick, 6 per shard thorough; keys and digests from the seeded generator, one of them with a short t): every single-bit flip of every bit of pubx, puby, e, r, s (1280 per signature) plus the unmodified one. Oracle as above. Every case non-trivial; distinct by (signature index, field, bit) — complete per signature.")
	rec.Exhaustive(true)
	t.Cleanup(stats.FlushAll)
	K := 2
	if vt.Thorough() {
		K = 6
	}
	si, _ := vt.Shard()
	var sigs []sm2gen.VerifyCase
	// draw K valid signatures through rapid so the choice depends only on the seed
	rapid.Check(t, func(rt *rapid.T) {
		if len(sigs) >= K {
			return
		}
		c := sm2gen.DrawVerifyCase(rt)
		if (c.Class == "valid" || c.Class == "valid-shaped") && sm2ref.Verify(c.Px, c.Py, c.E, c.R, c.S) {
			sigs = append(sigs, c)
		}
	})
	for i, base := range sigs {
		if !c03Check(t, rec, base) {
			t.Fatalf("HARNESS: base signature not valid")
		}
		rec.Enumerated(1, "unmodified")
		for f := 0; f < 5; f++ {
			for bit := 0; bit < 256; bit++ {
				c := base
				c.Class = fmt.Sprintf("bitflip:%s", []string{"px", "py", "e", "r", "s"}[f])
				fields := []*[]byte{&c.Px, &c.Py, &c.E, &c.R, &c.S}
				nb := append([]byte(nil), *fields[f]...)
				nb[bit>>3] ^= 0x80 >> uint(bit&7)
				*fields[f] = nb
				c03Check(t, rec, c)
				rec.Enumerated(1, c.Class)
			}
		}
		if i == 0 {
			rec.Sample("base", map[string]interface{}{"shard": si, "px": stats.Hex(base.Px), "py": stats.Hex(base.Py), "e": stats.Hex(base.E), "r": stats.Hex(base.R), "s": stats.Hex(base.S), "flips": "all 1280 single-bit flips"})
		}
	}
}

// Verify / VerifyZa agree with the digest-level verdict of the reference.
func TestVerif_C03_Wrappers(t *testing.T) {
	rec := stats.Get("C03", "wrappers")
	rec.Rule("rapid: a verification case as above, presented through Verify(id,..,msg,..) and VerifyZa(..,za,msg,..) with the signature made for e = SM3(ZA||msg) (reference SM3/ZA), and with id/msg/za perturbed. Oracle: bool == sm2ref.Verify on the reference digest; no panic. Non-trivial: perturbed or constructed case; distinct by all inputs.")
	t.Cleanup(stats.FlushAll)
	rapid.Check(t, func(t *rapid.T) {
		r0 := gen.Rand(t, "seed")
		d, _, _ := sm2gen.PrivKey(t, "d")
		px, py, _ := sm2gen.Pub(d)
		id := gen.RandBytes(r0, gen.Int(t, "idlen", 0, 40))
		msg := gen.RandBytes(r0, gen.Len(t, "msglen", 9000))
		id, idShape := gen.Absent(t, "id", id)
		msg, _ = gen.Absent(t, "msg", msg)
		rec.Tally("id-shape:" + idShape)
		za, _ := sm2ref.ZA(id, px, py)
		e := sm2ref.E(za, msg)
		k := gen.RandBytes(r0, 32)
		k[0] &= 0x7f
		rr, ss, _, _, err := sm2ref.Sign(d, e, append(k, gen.RandBytes(r0, 64)...))
		if err != nil {
			return
		}
		r, s := gen.Pad32(rr), gen.Pad32(ss)
		foreignCalls(t, rec, "foreign")
		resplit(t, rec, "resplit", id, px, py)
		mut := gen.Pick(t, "mut", "none", "none", "id", "msg", "r", "s", "key")
		id2, msg2 := append([]byte(nil), id...), append([]byte(nil), msg...)
		switch mut {
		case "id":
			id2 = append(id2, 1)
		case "msg":
			if len(msg2) > 0 {
				msg2[gen.Uniform(t, "pos", 0, len(msg2)-1)] ^= 1
			} else {
				msg2 = []byte{0}
			}
		case "r":
			r[gen.Uniform(t, "pos", 0, 31)] ^= 0x10
		case "s":
			s[gen.Uniform(t, "pos", 0, 31)] ^= 0x10
		case "key":
			px, py, _ = sm2gen.Pub(new(big.Int).Add(d, big.NewInt(1)))
		}
		za2, _ := sm2ref.ZA(id2, px, py)
		want := sm2ref.Verify(px, py, sm2ref.E(za2, msg2), r, s)
		var ok1, ok2 bool
		if p := vt.Catch(func() { ok1, _ = sm2.Verify(id2, px, py, msg2, r, s); ok2, _ = sm2.VerifyZa(px, py, za2, msg2, r, s) }); p != nil {
			vt.Fail(t, rec, "C03:wrapper:panic", "Verify/VerifyZa panicked: %v", p)
			return
		}
		rec.Case(stats.Hash(id2, msg2, r, s, px), mut != "none" || want, "mut:"+mut, fmt.Sprintf("accept:%v", want))
		if ok1 != want || ok2 != want {
			vt.Fail(t, rec, "C03:wrapper:verdict", "Verify=%v VerifyZa=%v, standard says %v (mutation %s)\nid=%x msg=%x px=%x py=%x r=%x s=%x", ok1, ok2, want, mut, id2, msg2, px, py, r, s)
		}
	})
}

// Histories of consecutive verifications under RELATED public keys: P then -P, P again, a key with the same x, the same
// signature presented under another key, ... Each verdict must be the standard's for that call alone.
func TestVerif_C03_RelatedKeyHistory(t *testing.T) {
	rec := stats.Get("C03", "related-keys")
	rec.Rule("rapid history of 2..5 VerifyHashed calls in one process on keys related to a base key P=[d]G: {P with a valid signature, P with another valid signature, -P=(x,p-y) with the signature made for P (reject), -P with a signature made with the private key n-d (accept), 2P / P+G with a fresh valid signature, P with the previous call's signature, an unrelated key}. Oracle: each verdict equals sm2ref.Verify for that call. Non-trivial: every history; distinct by history.")
	t.Cleanup(stats.FlushAll)
	rapid.Check(t, func(t *rapid.T) {
		r0 := gen.Rand(t, "seed")
		d, _, _ := sm2gen.PrivKey(t, "d")
		nd := new(big.Int).Sub(sm2gen.N, d) // private key of -P (valid unless d = 1: n-1 is out of range, still a fine verification key)
		type kp struct {
			d      *big.Int
			px, py []byte
		}
		mk := func(k *big.Int) kp { x, y, _ := sm2gen.Pub(k); return kp{k, x, y} }
		keys := map[string]kp{"P": mk(d), "-P": mk(nd), "2P": mk(new(big.Int).Mod(new(big.Int).Lsh(d, 1), sm2gen.N)), "P+G": mk(new(big.Int).Mod(new(big.Int).Add(d, big.NewInt(1)), sm2gen.N))}
		sign := func(k kp) (e, r, s []byte) {
			if new(big.Int).Mod(new(big.Int).Add(k.d, big.NewInt(1)), sm2gen.N).Sign() == 0 || k.d.Sign() == 0 {
				// d = n-1 (or 0) cannot sign: present an arbitrary (invalid) signature instead
				return gen.RandBytes(r0, 32), gen.Pad32(big.NewInt(5)), gen.Pad32(big.NewInt(7))
			}
			for tries := 0; ; tries++ {
				if tries > 100 {
					return gen.RandBytes(r0, 32), gen.Pad32(big.NewInt(5)), gen.Pad32(big.NewInt(7))
				}
				e = gen.RandBytes(r0, 32)
				nonce := gen.RandBytes(r0, 32)
				nonce[0] &= 0x7f
				kv := new(big.Int).SetBytes(nonce)
				if kv.Sign() == 0 || k.d.Sign() == 0 {
					continue
				}
				// textbook signature with big.Int (valid for any d != n-1 as a verification matter)
				x1 := sm2ref.Mul(kv, sm2ref.G).X
				rr := new(big.Int).Add(new(big.Int).SetBytes(e), x1)
				rr.Mod(rr, sm2gen.N)
				d1 := new(big.Int).Add(k.d, big.NewInt(1))
				if rr.Sign() == 0 || new(big.Int).Add(rr, kv).Cmp(sm2gen.N) == 0 || new(big.Int).Mod(d1, sm2gen.N).Sign() == 0 {
					continue
				}
				ss := new(big.Int).Mul(rr, k.d)
				ss.Sub(kv, ss).Mul(ss, new(big.Int).ModInverse(d1, sm2gen.N)).Mod(ss, sm2gen.N)
				if ss.Sign() == 0 {
					continue
				}
				return e, gen.Pad32(rr), gen.Pad32(ss)
			}
		}
		steps := gen.Int(t, "steps", 2, 5)
		var hist []string
		var le, lr, ls []byte
		for i := 0; i < steps; i++ {
			kind := gen.Pick(t, "step", "P", "P", "-P:sigP", "-P:own", "2P", "P+G", "P:prev-sig", "unrelated")
			var k kp
			var e, r, s []byte
			switch kind {
			case "P", "2P", "P+G":
				k = keys[kind]
				e, r, s = sign(k)
			case "-P:sigP":
				k = keys["-P"]
				e, r, s = sign(keys["P"])
			case "-P:own":
				k = keys["-P"]
				e, r, s = sign(k)
			case "P:prev-sig":
				k = keys["P"]
				if le == nil {
					e, r, s = sign(k)
				} else {
					e, r, s = le, lr, ls
				}
			default:
				dn, _, _ := sm2gen.PrivKey(t, "dn")
				k = mk(dn)
				e, r, s = sign(k)
			}
			le, lr, ls = e, r, s
			hist = append(hist, kind)
			want := sm2ref.Verify(k.px, k.py, e, r, s)
			var ok bool
			var err error
			if p := vt.Catch(func() { ok, err = sm2.VerifyHashed(k.px, k.py, e, r, s) }); p != nil {
				vt.Fail(t, rec, "C03:panic", "VerifyHashed panicked at step %d of history %v: %v", i, hist, p)
				return
			}
			if ok != want {
				vt.Fail(t, rec, "C03:history:verdict", "step %d of a history of consecutive verifications under related keys %v: VerifyHashed=%v (err=%v), the standard says %v\npx=%x py=%x\ne=%x\nr=%x\ns=%x", i, hist, ok, err, want, k.px, k.py, e, r, s)
				return
			}
		}
		rec.Case(stats.HashS(hist...)^stats.Hash(le, lr), true, fmt.Sprintf("steps:%d", steps))
		if rec.WantSample("history") {
			rec.Sample("history", map[string]interface{}{"steps": hist, "base_d": fmt.Sprintf("%x", d)})
		}
	})
}
