package sm2_test

// C03 — verification accepts exactly the signatures the standard accepts.
// Oracle: sm2ref.Verify, written from GM/T 0003.2 §7 with every side condition.

import (
	"fmt"
	"math/big"
	"testing"

	"github.com/bilibili/smgo/sm2"
	"pgregory.net/rapid"
	"verif.local/ref/gen"
	"verif.local/ref/sm2gen"
	"verif.local/ref/sm2ref"
	"verif.local/ref/stats"
	"verif.local/ref/vt"
)

func c03Check(t vt.TB, rec *stats.Recorder, c sm2gen.VerifyCase) (want bool) {
	want = sm2ref.Verify(c.Px, c.Py, c.E, c.R, c.S)
	in := snap(c.Px, c.Py, c.E, c.R, c.S)
	var ok bool
	var err error
	if p := vt.Catch(func() { ok, err = sm2.VerifyHashed(c.Px, c.Py, c.E, c.R, c.S) }); p != nil {
		vt.Fail(t, rec, "C03:panic", "VerifyHashed panicked (%s): %v\npx=%x py=%x\ne=%x\nr=%x\ns=%x", c.Class, p, c.Px, c.Py, c.E, c.R, c.S)
		return
	}
	if ok != want {
		sig := "C03:accepts-invalid:" + c.Class
		if want {
			sig = "C03:rejects-valid:" + c.Class
		}
		vt.Fail(t, rec, sig, "VerifyHashed=%v (err=%v), GM/T 0003.2 says %v (class %s)\npx=%x py=%x\ne=%x\nr=%x\ns=%x", ok, err, want, c.Class, c.Px, c.Py, c.E, c.R, c.S)
		return
	}
	if ok && err != nil {
		vt.Fail(t, rec, "C03:true-with-error", "VerifyHashed returned true together with error %v", err)
	}
	if !sameAll(in, c.Px, c.Py, c.E, c.R, c.S) {
		vt.Fail(t, rec, "C03:modifies-input", "VerifyHashed modified one of its arguments")
	}
	return
}

// verifProp_C03_Iff builds the property (shared by the rapid test and the native fuzz target).
func verifProp_C03_Iff() func(*rapid.T) {
	rec := stats.Get("C03", "iff")
	rec.Rule("rapid: (pubx,puby,e,r,s) from: valid signatures (uniform and with short r/s/t); single-bit flips of each field; length changes (drop/prepend/append/empty/strip leading zeros) of each field; triples SOLVED to satisfy the verification equation while breaking one side condition: r=0, s=0, r+s=n, [s]G+[t]P=O with e=r, r+n, s+n (when they fit in 32 bytes), key with x+p (tiny x found by square root), y>=p, off-curve, (x,p-y), (0,0); e+n (stays valid); r or s >= n; r,s swapped; garbage. Oracle: VerifyHashed's bool == sm2ref.Verify (GM/T 0003.2 §7, all side conditions); error only with false; no panic; inputs unmodified. Non-trivial: every constructed class (everything except plain valid and garbage), or the reference accepts; distinct by the five strings.")
	return func(t *rapid.T) {
		c := sm2gen.DrawVerifyCase(t)
		want := c03Check(t, rec, c)
		rec.Case(stats.Hash(c.Px, c.Py, c.E, c.R, c.S), c.Special || want, "class:"+c.Class, fmt.Sprintf("accept:%v", want))
		if rec.WantSample(c.Class) {
			rec.Sample(c.Class, map[string]interface{}{"class": c.Class, "px": stats.Hex(c.Px), "py": stats.Hex(c.Py), "e": stats.Hex(c.E), "r": stats.Hex(c.R), "s": stats.Hex(c.S), "standard_accepts": want})
		}
	}
}

func TestVerif_C03_Iff(t *testing.T) {
	t.Cleanup(stats.FlushAll)
	rapid.Check(t, verifProp_C03_Iff())
}

// FuzzVerif_C03_Iff drives the same property with Go's coverage-guided fuzzer (thorough tier).
func FuzzVerif_C03_Iff(f *testing.F) {
	f.Fuzz(rapid.MakeFuzz(verifProp_C03_Iff()))
}

// All 5x256 single-bit flips of a few valid signatures (complete per signature).
func TestVerif_C03_AllBitFlips(t *testing.T) {
	rec := stats.Get("C03", "allbitflips")
	rec.Rule("for K valid signatures (K=2 quick, 6 per shard thorough; keys and digests from the seeded generator, one of them with a short t): every single-bit flip of every bit of pubx, puby, e, r, s (1280 per signature) plus the unmodified one. Oracle as above. Every case non-trivial; distinct by (signature index, field, bit) — complete per signature.")
	rec.Exhaustive(true)
	t.Cleanup(stats.FlushAll)
	K := 2
	if vt.Thorough() {
		K = 6
	}
	si, _ := vt.Shard()
	var sigs []sm2gen.VerifyCase
	// draw K valid signatures through rapid so the choice depends only on the seed
	rapid.Check(t, func(rt *rapid.T) {
		if len(sigs) >= K {
			return
		}
		c := sm2gen.DrawVerifyCase(rt)
		if (c.Class == "valid" || c.Class == "valid-shaped") && sm2ref.Verify(c.Px, c.Py, c.E, c.R, c.S) {
			sigs = append(sigs, c)
		}
	})
	for i, base := range sigs {
		if !c03Check(t, rec, base) {
			t.Fatalf("HARNESS: base signature not valid")
		}
		rec.Enumerated(1, "unmodified")
		for f := 0; f < 5; f++ {
			for bit := 0; bit < 256; bit++ {
				c := base
				c.Class = fmt.Sprintf("bitflip:%s", []string{"px", "py", "e", "r", "s"}[f])
				fields := []*[]byte{&c.Px, &c.Py, &c.E, &c.R, &c.S}
				nb := append([]byte(nil), *fields[f]...)
				nb[bit>>3] ^= 0x80 >> uint(bit&7)
				*fields[f] = nb
				c03Check(t, rec, c)
				rec.Enumerated(1, c.Class)
			}
		}
		if i == 0 {
			rec.Sample("base", map[string]interface{}{"shard": si, "px": stats.Hex(base.Px), "py": stats.Hex(base.Py), "e": stats.Hex(base.E), "r": stats.Hex(base.R), "s": stats.Hex(base.S), "flips": "all 1280 single-bit flips"})
		}
	}
}

// Verify / VerifyZa agree with the digest-level verdict of the reference.
func TestVerif_C03_Wrappers(t *testing.T) {
	rec := stats.Get("C03", "wrappers")
	rec.Rule("rapid: a verification case as above, presented through Verify(id,..,msg,..) and VerifyZa(..,za,msg,..) with the signature made for e = SM3(ZA||msg) (reference SM3/ZA), and with id/msg/za perturbed. Oracle: bool == sm2ref.Verify on the reference digest; no panic. Non-trivial: perturbed or constructed case; distinct by all inputs.")
	t.Cleanup(stats.FlushAll)
	rapid.Check(t, func(t *rapid.T) {
		r0 := gen.Rand(t, "seed")
		d, _, _ := sm2gen.PrivKey(t, "d")
		px, py, _ := sm2gen.Pub(d)
		id := gen.RandBytes(r0, gen.Int(t, "idlen", 0, 40))
		msg := gen.RandBytes(r0, gen.Int(t, "msglen", 0, 150))
		za, _ := sm2ref.ZA(id, px, py)
		e := sm2ref.E(za, msg)
		k := gen.RandBytes(r0, 32)
		k[0] &= 0x7f
		rr, ss, _, _, err := sm2ref.Sign(d, e, append(k, gen.RandBytes(r0, 64)...))
		if err != nil {
			return
		}
		r, s := gen.Pad32(rr), gen.Pad32(ss)
		mut := gen.Pick(t, "mut", "none", "none", "id", "msg", "r", "s", "key")
		id2, msg2 := append([]byte(nil), id...), append([]byte(nil), msg...)
		switch mut {
		case "id":
			id2 = append(id2, 1)
		case "msg":
			if len(msg2) > 0 {
				msg2[gen.Uniform(t, "pos", 0, len(msg2)-1)] ^= 1
			} else {
				msg2 = []byte{0}
			}
		case "r":
			r[gen.Uniform(t, "pos", 0, 31)] ^= 0x10
		case "s":
			s[gen.Uniform(t, "pos", 0, 31)] ^= 0x10
		case "key":
			px, py, _ = sm2gen.Pub(new(big.Int).Add(d, big.NewInt(1)))
		}
		za2, _ := sm2ref.ZA(id2, px, py)
		want := sm2ref.Verify(px, py, sm2ref.E(za2, msg2), r, s)
		var ok1, ok2 bool
		if p := vt.Catch(func() { ok1, _ = sm2.Verify(id2, px, py, msg2, r, s); ok2, _ = sm2.VerifyZa(px, py, za2, msg2, r, s) }); p != nil {
			vt.Fail(t, rec, "C03:wrapper:panic", "Verify/VerifyZa panicked: %v", p)
			return
		}
		rec.Case(stats.Hash(id2, msg2, r, s, px), mut != "none" || want, "mut:"+mut, fmt.Sprintf("accept:%v", want))
		if ok1 != want || ok2 != want {
			vt.Fail(t, rec, "C03:wrapper:verdict", "Verify=%v VerifyZa=%v, standard says %v (mutation %s)\nid=%x msg=%x px=%x py=%x r=%x s=%x", ok1, ok2, want, mut, id2, msg2, px, py, r, s)
		}
	})
}
