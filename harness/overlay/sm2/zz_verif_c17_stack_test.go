package sm2_test

// C17, calls at the moment a goroutine's stack MOVES. Go stacks are relocated when they grow; a fresh goroutine has a small stack,
// so its first deep call chain moves it, and at some call depth the move happens INSIDE a library call (while that call allocates
// its result, or between its Go part and its assembly). Anything the call keeps that does not follow the move — an address turned
// into an integer, a pointer the runtime cannot see — then refers to a stack segment that has been handed back to the runtime, and
// the runtime gives such segments to the next goroutine that needs one. Sequentially nothing is visible (the stale segment is idle);
// concurrently the call scribbles over another goroutine's live frames, or that goroutine scribbles over the call's scratch.
//
// A CHILD PROCESS of this test binary runs the workload: on one shared AEAD (and with SM3 and SM2 verification besides), workers
// start a fresh goroutine per call, descend to a swept call depth (frames of about 64 bytes, so the remaining stack at the call
// takes every value in small steps), and call; bystander goroutines — which receive recycled stack segments — hold canaries in
// their frames and re-check them. Oracle: every result equals the reference's (computed beforehand by the parent from the
// independent references), no canary changes, the child does not crash.

import (
	"bytes"
	"crypto/cipher"
	"crypto/sha256"
	"encoding/json"
	"fmt"
	"io"
	"math/big"
	"os"
	"os/exec"
	"path/filepath"
	"runtime"
	"runtime/debug"
	"strings"
	"sync"
	"sync/atomic"
	"testing"
	"time"
	"unsafe"

	"github.com/bilibili/smgo/sm2"
	"github.com/bilibili/smgo/sm3"
	"github.com/bilibili/smgo/sm4"
	"pgregory.net/rapid"
	"verif.local/ref/gcmref"
	"verif.local/ref/gen"
	"verif.local/ref/sm2gen"
	"verif.local/ref/sm2ref"
	"verif.local/ref/sm3ref"
	"verif.local/ref/sm4ref"
	"verif.local/ref/stats"
	"verif.local/ref/vt"
)

type c17StackJob struct {
	Kind string `json:"kind"` // seal | open | sm3 | verify
	A    string `json:"a"`
	B    string `json:"b"`
	C    string `json:"c"`
	D    string `json:"d"`
	E    string `json:"e"`
	Want string `json:"want"` // sha256 of the rendered result
}

type c17StackPlan struct {
	Key     string        `json:"key"`
	Jobs    []c17StackJob `json:"jobs"`
	Workers int           `json:"workers"`
	Iters   int           `json:"iters"`
	Stride  int           `json:"stride"`
}

func c17sha(b []byte) string { s := sha256.Sum256(b); return c17hex(s[:]) }

//go:noinline
func c17AddrOf(p *[8]byte) uintptr { return uintptr(unsafe.Pointer(p)) }

//go:noinline
func c17Descend(n int, f func()) {
	var pad [24]byte
	pad[n%24] = byte(n)
	if n == 0 {
		f()
	} else {
		c17Descend(n-1, f)
	}
	runtime.KeepAlive(&pad)
}

var c17StackBad atomic.Int64
var c17StackMsg atomic.Value

func c17StackReport(msg string) {
	c17StackBad.Add(1)
	c17StackMsg.CompareAndSwap(nil, msg)
}

//go:noinline
func c17Bystander(n int, hold time.Duration) {
	var canary [16]uint64
	for i := range canary {
		canary[i] = 0xa5a5a5a5a5a5a5a5 ^ uint64(n)
	}
	if n == 0 {
		end := time.Now().Add(hold)
		for time.Now().Before(end) {
			runtime.Gosched()
		}
	} else {
		c17Bystander(n-1, hold)
	}
	for i := range canary {
		if canary[i] != 0xa5a5a5a5a5a5a5a5^uint64(n) {
			c17StackReport(fmt.Sprintf("a bystander goroutine found its stack frame overwritten (canary word %d at depth %d is %#x)", i, n, canary[i]))
			return
		}
	}
}

// c17StackRun renders the result of one job (the shared AEAD is used for seal/open).
func c17StackRun(a cipher.AEAD, j *c17StackJob, in [5][]byte) (out []byte) {
	defer func() {
		if p := recover(); p != nil {
			out = []byte(fmt.Sprintf("PANIC: %v", p))
		}
	}()
	switch j.Kind {
	case "seal":
		return a.Seal(nil, in[0], in[1], in[2])
	case "open":
		pt, err := a.Open(nil, in[0], in[1], in[2])
		return append(pt, fmt.Sprintf("|%v", err != nil)...)
	case "sm3":
		h := sm3.New()
		h.Write(in[0])
		return h.Sum(nil)
	default:
		ok, err := sm2.VerifyHashed(in[0], in[1], in[2], in[3], in[4])
		return []byte(fmt.Sprint(ok, err != nil))
	}
}

func TestVerif_C17_StackChild(t *testing.T) {
	planPath := os.Getenv("VERIF_C17_STACK_PLAN")
	if planPath == "" {
		t.Skip("only run as the child of TestVerif_C17_StackMoves")
	}
	b, err := os.ReadFile(planPath)
	if err != nil {
		t.Fatal(err)
	}
	var plan c17StackPlan
	if err := json.Unmarshal(b, &plan); err != nil {
		t.Fatal(err)
	}
	blk, err := sm4.NewCipher(c17un(plan.Key))
	if err != nil {
		t.Fatal(err)
	}
	aead, err := cipher.NewGCM(blk)
	if err != nil {
		t.Fatal(err)
	}
	ins := make([][5][]byte, len(plan.Jobs))
	for i, j := range plan.Jobs {
		ins[i] = [5][]byte{c17un(j.A), c17un(j.B), c17un(j.C), c17un(j.D), c17un(j.E)}
		plan.Jobs[i].A, plan.Jobs[i].B, plan.Jobs[i].C, plan.Jobs[i].D, plan.Jobs[i].E = "", "", "", "", ""
	}
	b = nil
	// keep the collector busy: a goroutine that allocates while a collection is in progress is made to assist and may be parked in
	// the middle of an allocation — between a stack move and whatever the call does next — and its processor runs other goroutines
	debug.SetGCPercent(5)
	runtime.GC()
	var stop atomic.Bool
	var sealers, by sync.WaitGroup
	var attempts, moved atomic.Int64
	for w := 0; w < plan.Workers; w++ {
		sealers.Add(1)
		by.Add(1)
		go func(w int) {
			defer sealers.Done()
			for k := 0; k < plan.Iters && c17StackBad.Load() == 0; k++ {
				// call depths: half of the calls where a fresh goroutine's first (smallest) stack segment runs out, the size class in
				// highest demand; a quarter each around the next two growth steps and over the rest up to 45 KiB of frames
				x := w*3 + k*plan.Stride
				var depth int
				switch k % 4 {
				case 0, 1:
					depth = x % 64
				case 2:
					depth = 64 + x%96
				default:
					depth = 160 + x%540
				}
				ji := (w + k) % 2 // the first two jobs are megabyte Seals: the longer the call, the longer a stale reference is in use
				if k%3 == 2 {
					ji = (w + k) % len(plan.Jobs)
				}
				done := make(chan struct{})
				go func() {
					defer close(done)
					c17Descend(depth, func() {
						var marker [8]byte
						a0 := c17AddrOf(&marker)
						out := c17StackRun(aead, &plan.Jobs[ji], ins[ji])
						a1 := c17AddrOf(&marker)
						attempts.Add(1)
						if a0 != a1 {
							moved.Add(1)
						}
						if got := c17sha(out); got != plan.Jobs[ji].Want {
							head := out
							if len(head) > 48 {
								head = head[:48]
							}
							c17StackReport(fmt.Sprintf("%s at call depth %d (stack moved during the call: %v) returned a wrong result (job %d, %d bytes, begins %x)", plan.Jobs[ji].Kind, depth, a0 != a1, ji, len(out), head))
						}
					})
				}()
				<-done
			}
		}(w)
		go func(w int) {
			defer by.Done()
			// bystanders: short-lived goroutines, started at a high rate (each start and each growth step takes a stack segment
			// from the runtime's pools, most recently released first)
			for round := 0; !stop.Load(); round++ {
				var g sync.WaitGroup
				for i := 0; i < 8; i++ {
					g.Add(1)
					go func(i int) {
						defer g.Done()
						depth := 4 + i // 1..2 KiB of frames: the smallest two size classes, which fresh goroutines use
						if i == 7 && round%2 == 0 {
							depth = []int{20, 45, 90, 180, 330}[(round/2+w)%5] // 4..64 KiB: the larger classes
						}
						c17Bystander(depth, 300*time.Microsecond)
					}(i)
				}
				g.Wait()
			}
		}(w)
	}
	sealers.Wait()
	stop.Store(true)
	by.Wait()
	fmt.Printf("VERIF-STACK-STATS: attempts=%d moved=%d\n", attempts.Load(), moved.Load())
	if c17StackBad.Load() != 0 {
		fmt.Println("VERIF-STACK-MISMATCH: " + strings.ReplaceAll(fmt.Sprint(c17StackMsg.Load()), "\n", " // "))
		t.Fail()
	}
}

func TestVerif_C17_StackMoves(t *testing.T) {
	rec := stats.Get("C17", "stack-moves")
	rec.Rule("rapid draws a key and 4..6 jobs (GCM Seal and Open on ONE shared AEAD with plaintexts of 5 B..1 MiB+ with a partial last block and partial-block AAD, SM3 of 1..300 KiB, SM2 VerifyHashed), a depth stride and an iteration count; a CHILD PROCESS runs them from 16 workers that start a fresh goroutine per call and descend to a swept call depth 0..699 first, so that for part of the depths the goroutine's stack is relocated inside the library call, while 16 bystander loops start short-lived goroutines holding canaries in their frames. Oracle: each result equals the one the parent computed from the independent references; no canary changes; the child neither crashes nor panics. Non-trivial: a plan in which at least one call saw its stack move (reported by the child); distinct by plan.")
	t.Cleanup(stats.FlushAll)
	dir := t.TempDir()
	exe, err := os.Executable()
	if err != nil {
		rec.Skipped("cannot locate the test binary: " + err.Error())
		return
	}
	n := 0
	rapid.Check(t, func(t *rapid.T) {
		r := gen.Rand(t, "content")
		key := gen.RandBytes(r, 16)
		ref := sm4ref.New(key)
		var jobs []c17StackJob
		kinds := ""
		nj := gen.Int(t, "jobs", 4, 6)
		for i := 0; i < nj; i++ {
			kind := gen.Pick(t, fmt.Sprintf("kind%d", i), "seal", "seal", "seal", "open", "sm3", "verify")
			if i < 2 {
				kind = "seal"
			}
			var j c17StackJob
			switch kind {
			case "seal", "open":
				size := []int{5, 37, 4096 + 11, 100*1024 + 5, 1<<20 + 5, 1<<20 + 16 + 9}[c17SizeIdx(t, i)] + gen.Uniform(t, fmt.Sprintf("extra%d", i), 0, 15)
				nonce := gen.RandBytes(r, 12)
				pt := gen.RandBytes(r, size)
				aad := gen.RandBytes(r, gen.Uniform(t, fmt.Sprintf("aad%d", i), 0, 40))
				ct := gcmref.Seal(ref, nonce, pt, aad, 16)
				if kind == "seal" {
					j = c17StackJob{Kind: kind, A: c17hex(nonce), B: c17hex(pt), C: c17hex(aad), Want: c17sha(ct)}
				} else {
					bad := gen.Uniform(t, fmt.Sprintf("forged%d", i), 0, 3) == 0
					want := append(append([]byte(nil), pt...), "|false"...)
					if bad {
						ct[len(ct)-1-gen.Uniform(t, fmt.Sprintf("flip%d", i), 0, 15)] ^= 0x40
						want = []byte("|true")
					}
					j = c17StackJob{Kind: kind, A: c17hex(nonce), B: c17hex(ct), C: c17hex(aad), Want: c17sha(want)}
				}
			case "sm3":
				msg := gen.RandBytes(r, []int{1024 + 3, 64 * 1024, 300*1024 + 17}[gen.Uniform(t, fmt.Sprintf("mlen%d", i), 0, 2)])
				j = c17StackJob{Kind: kind, A: c17hex(msg), Want: c17sha(c17Sm3(msg))}
			default:
				d := new(big.Int).SetBytes(gen.RandBytes(r, 32))
				d.Mod(d, sm2gen.NM2).Add(d, big.NewInt(1))
				px, py, _ := sm2gen.Pub(d)
				e, k := gen.RandBytes(r, 32), gen.RandBytes(r, 96)
				k[0] &= 0x7f
				rr, ss, _, _, err := sm2ref.Sign(d, e, k)
				if err != nil {
					rr, ss = big.NewInt(1), big.NewInt(1)
				}
				if !gen.Bool(t, fmt.Sprintf("valid%d", i)) {
					ss = new(big.Int).Xor(ss, big.NewInt(2))
				}
				rb, sb := gen.Pad32(rr), gen.Pad32(ss)
				wantOK := sm2ref.Verify(px, py, e, rb, sb)
				j = c17StackJob{Kind: kind, A: c17hex(px), B: c17hex(py), C: c17hex(e), D: c17hex(rb), E: c17hex(sb), Want: c17sha([]byte(fmt.Sprint(wantOK, false)))}
			}
			jobs = append(jobs, j)
			kinds += kind + ","
		}
		plan := c17StackPlan{Key: c17hex(key), Jobs: jobs, Workers: 16, Iters: gen.Int(t, "iters", 60, 120), Stride: []int{7, 11, 13, 17, 29}[gen.Uniform(t, "stride", 0, 4)]}
		n++
		planPath := filepath.Join(dir, fmt.Sprintf("stack%d.json", n))
		pb, _ := json.Marshal(plan)
		os.WriteFile(planPath, pb, 0o644)
		cmd := exec.Command(exe, "-test.run", "^TestVerif_C17_StackChild$", "-test.count=1", "-test.timeout=240s")
		cmd.Env = append(os.Environ(), "VERIF_C17_STACK_PLAN="+planPath, "VERIF_STATS_DIR=", "GOMAXPROCS=16")
		out, runErr := cmd.CombinedOutput()
		os.Remove(planPath)
		so := string(out)
		movedSome := false
		var att, mv int
		if i := strings.Index(so, "VERIF-STACK-STATS: "); i >= 0 {
			fmt.Sscanf(so[i:], "VERIF-STACK-STATS: attempts=%d moved=%d", &att, &mv)
			movedSome = mv > 0
		}
		rec.Case(stats.HashS(kinds, plan.Key, fmt.Sprint(plan.Iters, plan.Stride)), movedSome, "first:"+jobs[0].Kind, fmt.Sprintf("stack-moved-inside-a-call:%v", movedSome))
		rec.TallyN("calls", att)
		rec.TallyN("calls-during-which-the-stack-moved", mv)
		if rec.WantSample("plan") {
			rec.Sample("plan", map[string]interface{}{"jobs": kinds, "iters": plan.Iters, "stride": plan.Stride, "calls": att, "stack_moved_inside_call": mv})
		}
		crashed := strings.Contains(so, "fatal error") || strings.Contains(so, "unexpected signal") || strings.Contains(so, "panic:") || strings.Contains(so, "SIGSEGV") || strings.Contains(so, "unexpected return pc") || strings.Contains(so, "runtime: ")
		resource := strings.Contains(so, "test timed out") || strings.Contains(so, "out of memory") || strings.Contains(so, "cannot allocate") || strings.Contains(so, "resource temporarily unavailable")
		switch {
		case resource && !strings.Contains(so, "VERIF-STACK-MISMATCH: "):
			rec.Skipped("child process ran out of time or memory: " + verifTailS(so, 200))
		case strings.Contains(so, "VERIF-STACK-MISMATCH: "):
			i := strings.Index(so, "VERIF-STACK-MISMATCH: ")
			vt.Fail(t, rec, "C17:stack-moves:result-differs", "calls from fresh goroutines at swept stack depths, concurrently (after %d calls, the stack moved inside %d of them): %s", att, mv, strings.SplitN(so[i+22:], "\n", 2)[0])
		case runErr != nil && crashed:
			vt.Fail(t, rec, "C17:stack-moves:crash", "the child process crashed (jobs %s): %v\n%s", kinds, runErr, verifTailS(so, 1800))
		case runErr != nil:
			rec.Skipped(fmt.Sprintf("child process failed without a crash report (%v): %s", runErr, verifTailS(so, 300)))
		}
	})
}

func c17SizeIdx(t *rapid.T, i int) int {
	if i < 2 {
		return 4 + gen.Uniform(t, fmt.Sprintf("size%d", i), 0, 1)
	}
	return gen.Uniform(t, fmt.Sprintf("size%d", i), 0, 5)
}

func c17Sm3(msg []byte) []byte { d := sm3ref.Sum(msg); return d[:] }

var _ = bytes.Equal

// ---- a source that is parked inside Read --------------------------------------------------------------------------------------
//
// A caller's randomness source may block (a hardware device, a pipe, an HSM session). That is the caller's business and concerns
// the call it was passed to; every OTHER call — other goroutines, other keys, other sources — must go on returning what it returns
// when run alone. Goroutine A's source parks inside Read at a drawn point (first read, after some rejected candidates, in the
// middle of a unit) until it is released; while it is parked, goroutine B makes a call of its own. The evidence for a violation is
// two-sided, so that a slow machine cannot produce it: B has NOT returned 15 s after it started (its normal duration is about a
// millisecond) AND returns within 2 s once A's source is released. Results of both calls are compared with the references.

type c17ParkReader struct {
	data    []byte
	pos     int
	parkAt  int
	parked  chan struct{}
	release chan struct{}
	once    sync.Once
	gaveUp  atomic.Bool
}

func (p *c17ParkReader) Read(b []byte) (int, error) {
	if p.pos >= p.parkAt {
		p.once.Do(func() {
			close(p.parked)
			select {
			case <-p.release:
			case <-time.After(60 * time.Second):
				p.gaveUp.Store(true)
			}
		})
	}
	n := len(b)
	if p.pos < p.parkAt && n > p.parkAt-p.pos {
		n = p.parkAt - p.pos
	}
	if n > len(p.data)-p.pos {
		n = len(p.data) - p.pos
	}
	if n == 0 {
		return 0, fmt.Errorf("verif: source exhausted")
	}
	copy(b, p.data[p.pos:p.pos+n])
	p.pos += n
	return n, nil
}

func TestVerif_C17_ParkedSource(t *testing.T) {
	rec := stats.Get("C17", "parked-source")
	rec.Rule("rapid draws two keys, digests and nonce streams, the entry point of goroutine A (SignHashed, Sign, GenerateKey) whose source PARKS inside Read at a drawn point (first read, after 1..3 rejected candidates, inside a 32-byte unit), and the call goroutine B makes meanwhile (SignHashed, Sign, GenerateKey, VerifyHashed, DerivePublic, ZA) with its own key and source. Oracle: B returns while A's source is parked (violation only on two-sided evidence: not returned after 15 s, and returned within 2 s of A's release) and both results equal the references'. Non-trivial: every case; distinct by (entries, park point, keys).")
	t.Cleanup(stats.FlushAll)
	rapid.Check(t, func(t *rapid.T) {
		r := gen.Rand(t, "content")
		mkKey := func() (*big.Int, []byte, []byte) {
			d := new(big.Int).SetBytes(gen.RandBytes(r, 40))
			d.Mod(d, sm2gen.NM2).Add(d, big.NewInt(1))
			px, py, _ := sm2gen.Pub(d)
			return d, px, py
		}
		dA, pxA, pyA := mkKey()
		dB, pxB, pyB := mkKey()
		eA, eB := gen.RandBytes(r, 32), gen.RandBytes(r, 32)
		rejected := gen.Uniform(t, "rejected-before-park", 0, 3)
		streamA := bytes.Repeat([]byte{0xff}, 32*rejected)
		good := gen.RandBytes(r, 64)
		good[0] &= 0x7f
		streamA = append(streamA, good...)
		parkAt := 32*rejected + []int{0, 0, 7, 31}[gen.Uniform(t, "park-offset", 0, 3)]
		entryA := gen.Pick(t, "A", "SignHashed", "SignHashed", "Sign", "GenerateKey")
		entryB := gen.Pick(t, "B", "SignHashed", "SignHashed", "Sign", "GenerateKey", "GenerateKey", "VerifyHashed", "DerivePublic", "ZA")
		streamB := gen.RandBytes(r, 96)
		streamB[0] &= 0x7f
		id := gen.RandBytes(r, 16)
		msg := gen.RandBytes(r, 50)
		src := &c17ParkReader{data: streamA, parkAt: parkAt, parked: make(chan struct{}), release: make(chan struct{})}
		call := func(entry string, rd io.Reader, d *big.Int, px, py, e []byte) string {
			switch entry {
			case "SignHashed":
				rr, ss, err := sm2.SignHashed(rd, gen.Pad32(d), e)
				return fmt.Sprintf("%x|%x|%v", rr, ss, err)
			case "Sign":
				rr, ss, err := sm2.Sign(id, px, py, rd, gen.Pad32(d), msg)
				return fmt.Sprintf("%x|%x|%v", rr, ss, err)
			case "GenerateKey":
				p, x, y, err := sm2.GenerateKey(rd)
				return fmt.Sprintf("%x|%x|%x|%v", p, x, y, err)
			case "VerifyHashed":
				ok, err := sm2.VerifyHashed(px, py, e, gen.Pad32(big.NewInt(5)), gen.Pad32(big.NewInt(7)))
				return fmt.Sprint(ok, err)
			case "DerivePublic":
				x, y, err := sm2.DerivePublic(gen.Pad32(d))
				return fmt.Sprintf("%x|%x|%v", x, y, err)
			default:
				za, err := sm2.ZA(id, px, py)
				return fmt.Sprintf("%x|%v", za, err)
			}
		}
		want := func(entry string, stream []byte, d *big.Int, px, py, e []byte) string {
			switch entry {
			case "SignHashed", "Sign":
				ee := e
				if entry == "Sign" {
					za, _ := sm2ref.ZA(id, px, py)
					ee = sm2ref.E(za, msg)
				}
				rr, ss, _, _, err := sm2ref.Sign(d, ee, stream)
				if err != nil {
					return "?"
				}
				return fmt.Sprintf("%x|%x|<nil>", gen.Pad32(rr), gen.Pad32(ss))
			case "GenerateKey":
				for i := 0; i+32 <= len(stream); i += 32 {
					if v := new(big.Int).SetBytes(stream[i : i+32]); sm2ref.ValidPrivate(v) {
						x, y, _ := sm2gen.Pub(v)
						return fmt.Sprintf("%x|%x|%x|<nil>", stream[i:i+32], x, y)
					}
				}
				return "?"
			case "VerifyHashed":
				return fmt.Sprintf("%v <nil>", sm2ref.Verify(px, py, e, gen.Pad32(big.NewInt(5)), gen.Pad32(big.NewInt(7))))
			case "DerivePublic":
				return fmt.Sprintf("%x|%x|<nil>", px, py)
			default:
				za, _ := sm2ref.ZA(id, px, py)
				return fmt.Sprintf("%x|<nil>", za)
			}
		}
		aDone := make(chan string, 1)
		go func() {
			defer func() {
				if p := recover(); p != nil {
					aDone <- fmt.Sprintf("PANIC: %v", p)
				}
			}()
			aDone <- call(entryA, src, dA, pxA, pyA, eA)
		}()
		rec.Case(stats.HashS(entryA, entryB, fmt.Sprint(parkAt))^stats.Hash(gen.Pad32(dA), gen.Pad32(dB)), true, "A:"+entryA, "B:"+entryB, fmt.Sprintf("rejected-before-park:%d", rejected))
		select {
		case <-src.parked:
		case got := <-aDone:
			rec.Skipped("A returned without reading up to the park point: " + got[:min(len(got), 40)])
			return
		case <-time.After(30 * time.Second):
			close(src.release)
			rec.Skipped("A did not reach its source within 30 s")
			return
		}
		bDone := make(chan string, 1)
		start := time.Now()
		go func() {
			defer func() {
				if p := recover(); p != nil {
					bDone <- fmt.Sprintf("PANIC: %v", p)
				}
			}()
			bDone <- call(entryB, bytes.NewReader(streamB), dB, pxB, pyB, eB)
		}()
		var gotB string
		blocked := false
		select {
		case gotB = <-bDone:
		case <-time.After(15 * time.Second):
			blocked = true
		}
		released := time.Now()
		close(src.release)
		if blocked {
			select {
			case gotB = <-bDone:
				if after := time.Since(released); after < 2*time.Second {
					vt.Fail(t, rec, "C17:parked-source:other-call-blocked", "%s of goroutine B (own key, own source) did not return while the source of goroutine A's %s was parked inside Read (waited %v), and returned %v after A's source was released: calls are coupled through the caller's source", entryB, entryA, released.Sub(start).Round(time.Second), after.Round(time.Millisecond))
				} else {
					rec.Skipped("B was slow both before and after the release: machine too busy to judge")
				}
			case <-time.After(60 * time.Second):
				rec.Skipped("B did not return at all within 75 s: machine too busy to judge")
				return
			}
		}
		var gotA string
		select {
		case gotA = <-aDone:
		case <-time.After(60 * time.Second):
			rec.Skipped("A did not return within 60 s of its release")
			return
		}
		if w := want(entryB, streamB, dB, pxB, pyB, eB); w != "?" && gotB != w {
			vt.Fail(t, rec, "C17:parked-source:result-differs", "%s of goroutine B, run while A's source was parked, returned\n %s\nwant\n %s", entryB, gotB, w)
		}
		if w := want(entryA, streamA, dA, pxA, pyA, eA); w != "?" && gotA != w && !src.gaveUp.Load() {
			vt.Fail(t, rec, "C17:parked-source:result-differs", "%s of goroutine A (source parked at byte %d, then released) returned\n %s\nwant\n %s", entryA, parkAt, gotA, w)
		}
	})
}

// ---- first use of a fresh shared object; independent objects in the same instant -------------------------------------------------
//
// (1) ONE freshly constructed Block is handed to several goroutines whose FIRST calls on it — Decrypt, Encrypt, NewGCM+Seal, Open —
// leave a spin barrier together: anything the object completes lazily on first use (a schedule derived on demand, a table built
// once) is caught half-done by the second caller. Thousands of fresh objects per case, because the window is tens of nanoseconds.
// (2) In the same instant every goroutine also hashes a message of its OWN with its OWN hash value, lengths chosen so that the
// padding needs a second block (56..63 mod 64) and differ between goroutines: independent objects must not meet in shared scratch.

func TestVerif_C17_FreshShared(t *testing.T) {
	rec := stats.Get("C17", "fresh-shared")
	rec.Rule("rapid draws keys, blocks, messages and a goroutine count 2..8; 1500 (thorough 6000) times a FRESH Block is constructed and handed to all goroutines, which leave a spin barrier together and make their first call on it (goroutine i: Decrypt / Encrypt / NewGCM+Seal / NewGCM+Open, rotating), then hash a message of their own (length 56..63 mod 64, different per goroutine) with sm3.New and SumSM3. Oracle: every result equals the reference's (sm4ref, gcmref, sm3ref). Non-trivial: every plan; distinct by plan.")
	t.Cleanup(stats.FlushAll)
	reps := 1500
	if vt.Thorough() {
		reps = 6000
	}
	rapid.Check(t, func(t *rapid.T) {
		r := gen.Rand(t, "content")
		g := gen.Int(t, "goroutines", 2, 8)
		nk := 8
		keys := make([][]byte, nk)
		refs := make([]*sm4ref.Cipher, nk)
		for i := range keys {
			keys[i] = gen.RandBytes(r, 16)
			refs[i] = sm4ref.New(keys[i])
		}
		blk := gen.RandBytes(r, 16)
		nonce := gen.RandBytes(r, 12)
		pt := gen.RandBytes(r, gen.Uniform(t, "ptlen", 1, 70))
		aad := gen.RandBytes(r, gen.Uniform(t, "aadlen", 0, 20))
		type exp struct{ enc, dec, sealed []byte }
		exps := make([]exp, nk)
		for i := range exps {
			e, d := make([]byte, 16), make([]byte, 16)
			refs[i].Encrypt(e, blk)
			refs[i].Decrypt(d, blk)
			exps[i] = exp{e, d, gcmref.Seal(refs[i], nonce, pt, aad, 16)}
		}
		msgs := make([][]byte, g)
		digs := make([][]byte, g)
		for i := range msgs {
			msgs[i] = gen.RandBytes(r, 56+gen.Uniform(t, fmt.Sprintf("res%d", i), 0, 7)+64*(i+gen.Uniform(t, fmt.Sprintf("blk%d", i), 0, 3)))
			digs[i] = c17Sm3(msgs[i])
		}
		first := gen.Uniform(t, "first-op", 0, 3)
		rec.Case(stats.HashS(fmt.Sprint(g, first), c17hex(keys[0])), true, fmt.Sprintf("goroutines:%d", g))
		if rec.WantSample("plan") {
			rec.Sample("plan", map[string]interface{}{"goroutines": g, "fresh_blocks": reps, "hash_lengths": func() []int {
				var l []int
				for _, m := range msgs {
					l = append(l, len(m))
				}
				return l
			}()})
		}
		bar := &c17Barrier{n: int32(g)}
		blocks := make([]cipher.Block, reps)
		var bad atomic.Value
		var wg sync.WaitGroup
		report := func(s string) { bad.CompareAndSwap(nil, s) }
		// the fresh Blocks are constructed by goroutine 0 between barriers, so that every repetition starts on an object nobody has used
		for i := 0; i < g; i++ {
			wg.Add(1)
			go func(i int) {
				defer wg.Done()
				defer func() {
					if p := recover(); p != nil {
						report(fmt.Sprintf("goroutine %d panicked: %v", i, p))
					}
				}()
				for rep := 0; rep < reps; rep++ {
					k := rep % nk
					if i == 0 {
						b, err := sm4.NewCipher(keys[k])
						if err != nil {
							report("NewCipher: " + err.Error())
						}
						blocks[rep] = b
					}
					bar.wait() // the object exists ...
					b := blocks[rep]
					if b == nil {
						return
					}
					bar.wait() // ... and now everybody makes a first call on it at once
					switch (i + first + rep) % 4 {
					case 0:
						out := make([]byte, 16)
						b.Decrypt(out, blk)
						if !bytes.Equal(out, exps[k].dec) {
							report(fmt.Sprintf("fresh Block %d: first Decrypt (goroutine %d of %d, all released together) gives %x, want %x", rep, i, g, out, exps[k].dec))
						}
					case 1:
						out := make([]byte, 16)
						b.Encrypt(out, blk)
						if !bytes.Equal(out, exps[k].enc) {
							report(fmt.Sprintf("fresh Block %d: first Encrypt (goroutine %d of %d) gives %x, want %x", rep, i, g, out, exps[k].enc))
						}
					case 2:
						a, err := cipher.NewGCM(b)
						if err != nil {
							report("NewGCM: " + err.Error())
							break
						}
						if out := a.Seal(nil, nonce, pt, aad); !bytes.Equal(out, exps[k].sealed) {
							report(fmt.Sprintf("fresh Block %d: first NewGCM+Seal (goroutine %d of %d) differs from the reference", rep, i, g))
						}
					default:
						a, err := cipher.NewGCM(b)
						if err != nil {
							report("NewGCM: " + err.Error())
							break
						}
						if out, err := a.Open(nil, nonce, exps[k].sealed, aad); err != nil || !bytes.Equal(out, pt) {
							report(fmt.Sprintf("fresh Block %d: first NewGCM+Open (goroutine %d of %d) fails: %v", rep, i, g, err))
						}
					}
					h := sm3.New()
					h.Write(msgs[i][:len(msgs[i])/2])
					h.Write(msgs[i][len(msgs[i])/2:])
					if d := h.Sum(nil); !bytes.Equal(d, digs[i]) {
						report(fmt.Sprintf("repetition %d: goroutine %d hashing its own %d-byte message with its own hash value gets %x, want %x", rep, i, len(msgs[i]), d, digs[i]))
					}
					if d := sm3.SumSM3(msgs[i]); !bytes.Equal(d[:], digs[i]) {
						report(fmt.Sprintf("repetition %d: SumSM3 of goroutine %d's own %d-byte message gives %x, want %x", rep, i, len(msgs[i]), d, digs[i]))
					}
					if bad.Load() != nil && rep%64 == 0 {
						// keep passing barriers so nobody is left spinning, but the verdict is in
					}
				}
			}(i)
		}
		wg.Wait()
		if m := bad.Load(); m != nil {
			vt.Fail(t, rec, "C17:fresh-shared:result-differs", "%s", m)
		}
	})
}

// ---- a crowd of calls in flight, then overlapping pairs -----------------------------------------------------------------------
//
// Phase 1: N signing calls are in flight AT ONCE (each parked inside its own source's first Read), N around the sizes fixed pools
// tend to have (64, 128, 256 and their neighbours); they are released in a drawn order. Phase 2: a few hundred overlapping pairs —
// signer A parks in the middle of its nonce, signer B signs completely meanwhile, A resumes. Whatever the library recycles between
// calls (buffers, slots, hash states), no two calls in flight may ever hold the same one; every result equals the reference's.

func TestVerif_C17_ParkedCrowd(t *testing.T) {
	rec := stats.Get("C17", "parked-crowd")
	rec.Rule("rapid draws a crowd size N from {0, 3, 63..65, 127..130, 200, 257, 300}, a release order (arrival order, reverse, last-arrived first then the rest) and keys; N SignHashed / Sign calls are parked inside their sources at once (before the first byte or with 7 or 31 bytes of the nonce delivered); one is released, four complete calls come and go, the rest are released; all results are compared with the references; then 300 overlapping pairs (A parks after 7 bytes of its nonce, B signs meanwhile, A resumes) are run and compared. Non-trivial: every plan; distinct by (N, order, keys).")
	t.Cleanup(stats.FlushAll)
	rapid.Check(t, func(t *rapid.T) {
		r := gen.Rand(t, "content")
		N := []int{0, 3, 63, 64, 65, 127, 128, 129, 130, 200, 257, 300}[gen.Uniform(t, "crowd", 0, 11)]
		order := gen.Pick(t, "release-order", "arrival", "reverse", "last-first", "last-first")
		d := new(big.Int).SetBytes(gen.RandBytes(r, 40))
		d.Mod(d, sm2gen.NM2).Add(d, big.NewInt(1))
		d32 := gen.Pad32(d)
		px, py, _ := sm2gen.Pub(d)
		id, msg := gen.RandBytes(r, 12), gen.RandBytes(r, 40)
		za, _ := sm2ref.ZA(id, px, py)
		eMsg := sm2ref.E(za, msg)
		rec.Case(stats.HashS(fmt.Sprint(N), order)^stats.Hash(d32), true, fmt.Sprintf("crowd:%d", N), "order:"+order)
		type job struct {
			src    *c17ParkReader
			stream []byte
			e      []byte
			viaMsg bool
			done   chan string
		}
		mk := func(parkAt int, viaMsg bool) *job {
			st := gen.RandBytes(r, 96)
			st[0] &= 0x7f
			j := &job{stream: st, e: gen.RandBytes(r, 32), viaMsg: viaMsg, done: make(chan string, 1)}
			j.src = &c17ParkReader{data: st, parkAt: parkAt, parked: make(chan struct{}), release: make(chan struct{})}
			return j
		}
		run := func(j *job, rd io.Reader) {
			go func() {
				defer func() {
					if p := recover(); p != nil {
						j.done <- fmt.Sprintf("PANIC: %v", p)
					}
				}()
				var rr, ss []byte
				var err error
				if j.viaMsg {
					rr, ss, err = sm2.Sign(id, px, py, rd, d32, msg)
				} else {
					rr, ss, err = sm2.SignHashed(rd, d32, j.e)
				}
				j.done <- fmt.Sprintf("%x|%x|%v", rr, ss, err)
			}()
		}
		want := func(j *job) string {
			e := j.e
			if j.viaMsg {
				e = eMsg
			}
			rr, ss, _, _, err := sm2ref.Sign(d, e, j.stream)
			if err != nil {
				return "?"
			}
			return fmt.Sprintf("%x|%x|<nil>", gen.Pad32(rr), gen.Pad32(ss))
		}
		collect := func(j *job, what string) bool {
			select {
			case got := <-j.done:
				if w := want(j); w != "?" && got != w {
					vt.Fail(t, rec, "C17:parked-crowd:result-differs", "%s (crowd of %d, released in %s order) returned\n %s\nwant\n %s", what, N, order, got, w)
					return false
				}
				return true
			case <-time.After(60 * time.Second):
				rec.Skipped(what + ": no result within 60 s (machine too busy to judge)")
				return false
			}
		}
		// phase 1: the crowd
		crowd := make([]*job, N)
		for i := range crowd {
			crowd[i] = mk([]int{7, 31, 7, 0}[i%4], i%3 == 0) // parked before the first byte, or with part of the nonce already delivered
			run(crowd[i], crowd[i].src)
			select {
			case <-crowd[i].src.parked:
			case <-time.After(30 * time.Second):
				rec.Skipped("a crowd member did not reach its source within 30 s")
				for _, c := range crowd[:i+1] {
					close(c.src.release)
				}
				return
			}
		}
		idx := make([]int, N)
		for i := range idx {
			switch order {
			case "reverse":
				idx[i] = N - 1 - i
			case "last-first":
				idx[i] = (i + N - 1) % N
			default:
				idx[i] = i
			}
		}
		ok := true
		for n, i := range idx {
			close(crowd[i].src.release)
			if !collect(crowd[i], fmt.Sprintf("crowd member %d", i)) {
				ok = false
			}
			if n == 0 && ok {
				// one member has left while the others are still in flight: a few complete calls come and go now (they take
				// whatever the member that left gave back, and give it back in turn)
				for k := 0; k < 4; k++ {
					b := mk(1<<30, k%2 == 0)
					run(b, bytes.NewReader(b.stream))
					if !collect(b, fmt.Sprintf("interloper %d (complete call while %d crowd members are parked)", k, N-1)) {
						ok = false
					}
				}
			}
		}
		if !ok {
			return
		}
		// phase 2: overlapping pairs
		for p := 0; p < 300; p++ {
			a, b := mk(7, p%4 == 0), mk(1<<30, p%5 == 0)
			run(a, a.src)
			select {
			case <-a.src.parked:
			case got := <-a.done:
				a.done <- got
			case <-time.After(30 * time.Second):
				close(a.src.release)
				rec.Skipped("signer A did not reach its source within 30 s")
				return
			}
			run(b, bytes.NewReader(b.stream))
			okB := collect(b, fmt.Sprintf("pair %d: signer B (run while A was parked in the middle of its nonce)", p))
			close(a.src.release)
			okA := collect(a, fmt.Sprintf("pair %d: signer A (parked after 7 bytes of its nonce while B signed)", p))
			if !okA || !okB {
				return
			}
		}
	})
}

// ---- hundreds of calls inside their hashing step at once --------------------------------------------------------------------
//
// The id- and message-level entry points hash before they do anything else; with messages of megabytes that step lasts longer than
// a scheduler time slice, so a burst of a few hundred goroutines has more calls INSIDE the hash than there are processors — or
// entries in any fixed pool of hash states. Every one of them must get what it gets alone.

func TestVerif_C17_HashCrowd(t *testing.T) {
	rec := stats.Get("C17", "hash-crowd")
	rec.Rule("rapid draws a key, an id, a 4 MiB message and a goroutine count from {70, 130, 260}; a valid signature is prepared with the references; the goroutines leave a barrier together and each calls Verify(id, P, msg, r, s) (must accept), VerifyZa, ZA (reference value) or Sign with its own fixed stream (reference signature). Non-trivial: every plan; distinct by (key, count).")
	t.Cleanup(stats.FlushAll)
	rapid.Check(t, func(t *rapid.T) {
		r := gen.Rand(t, "content")
		g := []int{70, 130, 260}[gen.Uniform(t, "goroutines", 0, 2)]
		d := new(big.Int).SetBytes(gen.RandBytes(r, 40))
		d.Mod(d, sm2gen.NM2).Add(d, big.NewInt(1))
		d32 := gen.Pad32(d)
		px, py, _ := sm2gen.Pub(d)
		id := gen.RandBytes(r, gen.Uniform(t, "idlen", 1, 30))
		msg := gen.RandBytes(r, 4<<20+gen.Uniform(t, "extra", 0, 63))
		za, _ := sm2ref.ZA(id, px, py)
		e := sm2ref.E(za, msg)
		stream := gen.RandBytes(r, 96)
		stream[0] &= 0x7f
		rr, ss, _, _, err := sm2ref.Sign(d, e, stream)
		if err != nil {
			return
		}
		rb, sb := gen.Pad32(rr), gen.Pad32(ss)
		rec.Case(stats.HashS(fmt.Sprint(g))^stats.Hash(d32), true, fmt.Sprintf("goroutines:%d", g))
		bar := &c17Barrier{n: int32(g)}
		var bad atomic.Value
		var wg sync.WaitGroup
		for i := 0; i < g; i++ {
			wg.Add(1)
			go func(i int) {
				defer wg.Done()
				defer func() {
					if p := recover(); p != nil {
						bad.CompareAndSwap(nil, fmt.Sprintf("goroutine %d panicked: %v", i, p))
					}
				}()
				bar.wait()
				switch i % 4 {
				case 0, 1:
					if ok, err := sm2.Verify(id, px, py, msg, rb, sb); !ok || err != nil {
						bad.CompareAndSwap(nil, fmt.Sprintf("goroutine %d of %d: Verify of a valid signature over a %d-byte message returned (%v, %v)", i, g, len(msg), ok, err))
					}
				case 2:
					if got, err := sm2.ZA(id, px, py); err != nil || !bytes.Equal(got, za) {
						bad.CompareAndSwap(nil, fmt.Sprintf("goroutine %d of %d: ZA differs from the reference (%v)", i, g, err))
					}
					if ok, err := sm2.VerifyZa(px, py, za, msg, rb, sb); !ok || err != nil {
						bad.CompareAndSwap(nil, fmt.Sprintf("goroutine %d of %d: VerifyZa of a valid signature returned (%v, %v)", i, g, ok, err))
					}
				default:
					r2, s2, err := sm2.Sign(id, px, py, bytes.NewReader(stream), d32, msg)
					if err != nil || !bytes.Equal(r2, rb) || !bytes.Equal(s2, sb) {
						bad.CompareAndSwap(nil, fmt.Sprintf("goroutine %d of %d: Sign over a %d-byte message differs from the reference (%v)", i, g, len(msg), err))
					}
				}
			}(i)
		}
		wg.Wait()
		if m := bad.Load(); m != nil {
			vt.Fail(t, rec, "C17:hash-crowd:result-differs", "%s", m)
		}
	})
}
