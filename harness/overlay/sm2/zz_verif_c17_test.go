package sm2_test

// C17 — shared cipher, AEAD and key material are safe for concurrent use.
// A workload plan is generated (rapid), executed serially to obtain the expected results, then executed
// by concurrent goroutines on the SAME objects and buffers. Oracles: (1) every concurrent result equals its serial result;
// (2) every shared input buffer is byte-identical afterwards; (3) the same plan run serially AGAIN afterwards still gives the original results (persistent corruption of tables or
// other package-level state shows here whatever wrote it; a deep hash of all package-level variables is reported too); (4) the Go race detector (the test is built with -race).

import (
	"bytes"
	"crypto/cipher"
	"fmt"
	"math/big"
	mrand "math/rand"
	"runtime"
	"sync"
	"testing"

	"github.com/bilibili/smgo/sm2"
	sm2internal "github.com/bilibili/smgo/sm2/internal"
	"github.com/bilibili/smgo/sm2/internal/fiat"
	"github.com/bilibili/smgo/sm3"
	"github.com/bilibili/smgo/sm4"
	"github.com/bilibili/smgo/utils"
	"pgregory.net/rapid"
	"verif.local/ref/deephash"
	"verif.local/ref/gcmref"
	"verif.local/ref/gen"
	"verif.local/ref/sm2gen"
	"verif.local/ref/sm4ref"
	"verif.local/ref/stats"
	"verif.local/ref/vt"
)

func randFrom(seed int64) *mrand.Rand { return mrand.New(mrand.NewSource(seed)) }

func c17Globals() map[string]interface{} {
	all := map[string]interface{}{}
	for pkg, m := range map[string]map[string]interface{}{
		"sm2": sm2.VerifGlobals(), "sm2/internal": sm2internal.VerifGlobals(), "sm2/internal/fiat": fiat.VerifGlobals(),
		"sm3": sm3.VerifGlobals(), "sm4": sm4.VerifGlobals(), "utils": utils.VerifGlobals(),
	} {
		for k, v := range m {
			all[pkg+"."+k] = v
		}
	}
	return all
}

type c17Msg struct {
	nonce, aad, pt, ct []byte
	aead               int
}

type c17Shared struct {
	key    []byte
	block  cipher.Block
	aeads  []cipher.AEAD
	msgs   []*c17Msg
	blocks [][]byte // 16-byte blocks
	d      [][]byte
	px, py [][]byte
	e      [][]byte
	sigR   [][]byte
	sigS   [][]byte
	data   [][]byte // for hashing
}

type c17Op struct {
	kind string
	i, j int
	seed int64
}

// run executes one operation and returns its result as bytes (errors and verdicts encoded).
func (s *c17Shared) run(op c17Op) []byte {
	switch op.kind {
	case "encrypt":
		out := make([]byte, 16)
		s.block.Encrypt(out, s.blocks[op.i])
		return out
	case "decrypt":
		out := make([]byte, 16)
		s.block.Decrypt(out, s.blocks[op.i])
		return out
	case "seal":
		m := s.msgs[op.i]
		return s.aeads[m.aead].Seal(nil, m.nonce, m.pt, m.aad)
	case "open":
		m := s.msgs[op.i]
		pt, err := s.aeads[m.aead].Open(nil, m.nonce, m.ct, m.aad)
		return append([]byte(fmt.Sprint(err, "|")), pt...)
	case "open-forged":
		m := s.msgs[op.i]
		bad := append([]byte(nil), m.ct...)
		bad[len(bad)-1] ^= 1
		pt, err := s.aeads[m.aead].Open(nil, m.nonce, bad, m.aad)
		return append([]byte(fmt.Sprint(err != nil, "|")), pt...)
	case "derive-aead":
		// a short-lived AEAD derived from the SHARED Block (it becomes garbage right after the call)
		a, err := cipher.NewGCM(s.block)
		if err != nil {
			return []byte(err.Error())
		}
		return a.Seal(nil, s.blocks[op.i][:12], s.data[op.i], s.blocks[(op.i+1)%3])
	case "gc":
		runtime.GC()
		return nil
	case "newcipher":
		b, err := sm4.NewCipher(s.key)
		if err != nil {
			return []byte(err.Error())
		}
		out := make([]byte, 16)
		b.Encrypt(out, s.blocks[op.i])
		g, _ := cipher.NewGCM(b)
		return append(out, g.Seal(nil, s.blocks[op.i][:12], s.data[op.i], nil)...)
	case "sign":
		r := gen.RandBytes(randFrom(op.seed), 96)
		r[0] &= 0x7f
		rr, ss, err := sm2.SignHashed(bytes.NewReader(r), s.d[op.i], s.e[op.j])
		return []byte(fmt.Sprintf("%x|%x|%v", rr, ss, err))
	case "verify":
		ok, err := sm2.VerifyHashed(s.px[op.i], s.py[op.i], s.e[op.i], s.sigR[op.i], s.sigS[op.i])
		return []byte(fmt.Sprint(ok, err))
	case "verify-bad":
		ok, _ := sm2.VerifyHashed(s.px[op.i], s.py[op.i], s.e[(op.i+1)%len(s.e)], s.sigR[op.i], s.sigS[op.i])
		return []byte(fmt.Sprint(ok))
	case "verify-infinity":
		// a signature for which the verifier's point [s]G + [t]P is the point at infinity (s = -t*d, r = t - s): a rejection that
		// leaves through its own exit, which may release or recycle what the ordinary paths keep
		tv := new(big.Int).SetBytes(gen.RandBytes(randFrom(op.seed), 40))
		tv.Mod(tv, sm2gen.NM1).Add(tv, big.NewInt(1))
		sv := new(big.Int).Mul(tv, new(big.Int).SetBytes(s.d[op.i]))
		sv.Neg(sv).Mod(sv, sm2gen.N)
		rv := new(big.Int).Sub(tv, sv)
		rv.Mod(rv, sm2gen.N)
		ok, err := sm2.VerifyHashed(s.px[op.i], s.py[op.i], s.e[op.j], gen.Pad32(rv), gen.Pad32(sv))
		return []byte(fmt.Sprint(ok, err))
	case "derive":
		x, y, err := sm2.DerivePublic(s.d[op.i])
		return []byte(fmt.Sprintf("%x|%x|%v", x, y, err))
	case "genkey":
		r := gen.RandBytes(randFrom(op.seed), 64)
		r[0] &= 0x7f
		p, x, y, err := sm2.GenerateKey(bytes.NewReader(r))
		return []byte(fmt.Sprintf("%x|%x|%x|%v", p, x, y, err))
	case "signmsg":
		r := gen.RandBytes(randFrom(op.seed), 96)
		r[0] &= 0x7f
		rr, ss, err := sm2.Sign(s.data[op.j][:min(20, len(s.data[op.j]))], s.px[op.i], s.py[op.i], bytes.NewReader(r), s.d[op.i], s.data[op.j])
		if err != nil {
			return []byte(err.Error())
		}
		ok, _ := sm2.Verify(s.data[op.j][:min(20, len(s.data[op.j]))], s.px[op.i], s.py[op.i], s.data[op.j], rr, ss)
		return []byte(fmt.Sprintf("%x|%x|%v", rr, ss, ok))
	case "za":
		za, err := sm2.ZA(s.data[op.j][:min(20, len(s.data[op.j]))], s.px[op.i], s.py[op.i])
		return []byte(fmt.Sprintf("%x|%v", za, err))
	// calls that FAIL (rejected arguments): error paths release or skip what the success path sets up, and run next to valid calls
	case "za-long-id":
		za, err := sm2.ZA(c17LongID[:8192+op.j], s.px[op.i], s.py[op.i])
		return []byte(fmt.Sprintf("%x|%v", za, err != nil))
	case "sign-long-id":
		r := gen.RandBytes(randFrom(op.seed), 96)
		rr, ss, err := sm2.Sign(c17LongID, s.px[op.i], s.py[op.i], bytes.NewReader(r), s.d[op.i], s.data[op.j])
		return []byte(fmt.Sprintf("%x|%x|%v", rr, ss, err != nil))
	case "verify-long-id":
		ok, err := sm2.Verify(c17LongID, s.px[op.i], s.py[op.i], s.data[op.j], s.sigR[op.i], s.sigS[op.i])
		return []byte(fmt.Sprint(ok, err != nil))
	case "sign-bad-key":
		r := gen.RandBytes(randFrom(op.seed), 96)
		rr, ss, err := sm2.SignHashed(bytes.NewReader(r), c17ZeroKey, s.e[op.j])
		return []byte(fmt.Sprintf("%x|%x|%v", rr, ss, err != nil))
	case "sign-dead-reader":
		rr, ss, err := sm2.SignHashed(bytes.NewReader(c17ZeroKey[:7+op.j]), s.d[op.i], s.e[op.j])
		return []byte(fmt.Sprintf("%x|%x|%v", rr, ss, err != nil))
	case "verify-malformed":
		ok, err := sm2.VerifyHashed(s.px[op.i], s.py[op.i][:31], s.e[op.i], s.sigR[op.i], s.sigS[op.i])
		ok2, err2 := sm2.VerifyHashed(s.px[op.i], s.py[op.i], s.e[op.i], c17ZeroKey, s.sigS[op.i])
		return []byte(fmt.Sprint(ok, err != nil, ok2, err2 != nil))
	case "derive-bad-key":
		x, y, err := sm2.DerivePublic(c17ZeroKey)
		return []byte(fmt.Sprintf("%x|%x|%v", x, y, err != nil))
	case "open-short":
		m := s.msgs[op.i]
		pt, err := s.aeads[m.aead].Open(nil, m.nonce, m.ct[:min(len(m.ct), 5+op.j)], m.aad)
		return append([]byte(fmt.Sprint(err != nil, "|")), pt...)
	case "newcipher-bad-key":
		_, err := sm4.NewCipher(s.key[:15])
		_, err2 := sm4.NewCipher(append(append([]byte(nil), s.key...), 0))
		return []byte(fmt.Sprint(err != nil, err2 != nil))
	case "hash":
		h := sm3.New()
		d := s.data[op.i]
		h.Write(d[:len(d)/2])
		mid := h.Sum(nil)
		h.Write(d[len(d)/2:])
		return h.Sum(mid)
	case "sumsm3":
		o := sm3.SumSM3(s.data[op.i])
		return o[:]
	case "oncurve":
		return []byte(fmt.Sprint(sm2.CheckOnCurve(s.px[op.i], s.py[op.i]), sm2.TestPrivateKey(s.d[op.i])))
	}
	panic("unknown op " + op.kind)
}

var c17Kinds = []string{"encrypt", "decrypt", "seal", "seal", "open", "open", "open-forged", "newcipher", "derive-aead", "derive-aead", "gc", "sign", "verify", "verify", "verify", "verify-bad", "verify-infinity", "derive", "genkey", "signmsg", "signmsg", "za", "za", "hash", "sumsm3", "oncurve",
	"za-long-id", "sign-long-id", "verify-long-id", "sign-bad-key", "sign-dead-reader", "verify-malformed", "derive-bad-key", "open-short", "newcipher-bad-key"}

var (
	c17LongID  = make([]byte, 8192+8) // rejected by ZA (ENTL does not fit 16 bits)
	c17ZeroKey = make([]byte, 32)
)

func TestVerif_C17_Concurrent(t *testing.T) {
	rec := stats.Get("C17", "concurrent")
	rec.Rule("rapid draws a workload plan: 2..16 goroutines x 3..25 operations from {Encrypt, Decrypt on ONE shared Block; Seal, Open, forged Open on shared AEADs (nonce 12/16/130 bytes, tag 16/12) over SHARED nonce/aad/plaintext/ciphertext buffers; NewCipher+NewGCM on the shared key; short-lived AEADs derived from the SHARED Block and dropped, explicit GC cycles (finalizers); SignHashed / Sign+Verify with per-operation deterministic readers, VerifyHashed (good and bad), DerivePublic, GenerateKey, ZA, CheckOnCurve/TestPrivateKey on shared keys; calls that are REJECTED (over-long id in ZA/Sign/Verify, zero key, exhausted reader, malformed coordinates/signature, ciphertext shorter than the tag, wrong key size) interleaved with the valid ones; independent sm3 hashes and SumSM3 over shared data}; message lengths from the kernel-combination generator. The plan runs serially first (expected results), then concurrently behind a barrier with GOMAXPROCS=16 under the race detector. Oracles: each concurrent result == its serial result; all shared buffers byte-identical afterwards; the plan re-run serially afterwards reproduces the original results (a deep hash of every package-level variable of the six packages is taken before/after and differences are reported, not judged: a synchronised cache is legal); no race report. Non-trivial: >= 2 goroutines operate on the same message buffer or the same AEAD/Block (true for essentially every plan); distinct by plan.")
	t.Cleanup(stats.FlushAll)
	globals := c17Globals()
	rapid.Check(t, func(t *rapid.T) {
		r := gen.Rand(t, "content")
		s := &c17Shared{key: gen.RandBytes(r, 16)}
		var err error
		if s.block, err = sm4.NewCipher(s.key); err != nil {
			t.Fatalf("NewCipher: %v", err)
		}
		type cfg struct{ nonce, tag int }
		cfgs := []cfg{{12, 16}, {16, 16}, {130, 16}, {12, 12}}
		for _, c := range cfgs {
			var a cipher.AEAD
			if c.tag != 16 {
				a, err = cipher.NewGCMWithTagSize(s.block, c.tag)
			} else {
				a, err = cipher.NewGCMWithNonceSize(s.block, c.nonce)
			}
			if err != nil {
				t.Fatalf("NewGCM: %v", err)
			}
			s.aeads = append(s.aeads, a)
		}
		nm := gen.Int(t, "nmsgs", 1, 4)
		for i := 0; i < nm; i++ {
			pl, _ := c17Len(t, fmt.Sprintf("pt%d", i))
			k := gen.Uniform(t, "aead", 0, len(cfgs)-1)
			m := &c17Msg{nonce: gen.RandBytes(r, cfgs[k].nonce), aad: gen.RandBytes(r, gen.Uniform(t, "aadlen", 0, 140)), pt: gen.RandBytes(r, pl), aead: k}
			m.ct = s.aeads[k].Seal(nil, m.nonce, m.pt, m.aad)
			s.msgs = append(s.msgs, m)
		}
		for i := 0; i < 3; i++ {
			s.blocks = append(s.blocks, gen.RandBytes(r, 16))
			s.data = append(s.data, gen.RandBytes(r, gen.Uniform(t, "datalen", 0, 300)))
		}
		for i := 0; i < 2; i++ {
			d := new(big.Int).SetBytes(gen.RandBytes(r, 40))
			d.Mod(d, sm2gen.NM2).Add(d, big.NewInt(1))
			px, py, _ := sm2gen.Pub(d)
			e := gen.RandBytes(r, 32)
			k := gen.RandBytes(r, 64)
			k[0] &= 0x7f
			rr, ss, err := sm2.SignHashed(bytes.NewReader(k), gen.Pad32(d), e)
			if err != nil {
				t.Fatalf("setup sign: %v", err)
			}
			s.d, s.px, s.py, s.e, s.sigR, s.sigS = append(s.d, gen.Pad32(d)), append(s.px, px), append(s.py, py), append(s.e, e), append(s.sigR, rr), append(s.sigS, ss)
		}
		ng := gen.Int(t, "goroutines", 2, 16)
		plan := make([][]c17Op, ng)
		touch := map[string]int{}
		nops := 0
		for g := range plan {
			n := gen.Int(t, "nops", 3, 25)
			for k := 0; k < n; k++ {
				op := c17Op{kind: c17Kinds[gen.Uniform(t, "kind", 0, len(c17Kinds)-1)], seed: int64(gen.Uniform(t, "opseed", 0, 1<<30))}
				switch op.kind {
				case "open-short":
					op.i, op.j = gen.Uniform(t, "msg", 0, nm-1), gen.Uniform(t, "idx", 0, 8)
				case "za-long-id":
					op.i, op.j = gen.Uniform(t, "key", 0, 1), gen.Uniform(t, "idx", 0, 8)
				case "seal", "open", "open-forged":
					op.i = gen.Uniform(t, "msg", 0, nm-1)
					touch[fmt.Sprint("msg", op.i)]++
				case "encrypt", "decrypt", "hash", "sumsm3", "derive-aead", "gc":
					op.i = gen.Uniform(t, "idx", 0, 2)
				case "newcipher":
					op.i, op.j = gen.Uniform(t, "idx", 0, 2), gen.Uniform(t, "msg", 0, nm-1)
				default:
					op.i, op.j = gen.Uniform(t, "key", 0, 1), gen.Uniform(t, "idx", 0, 1)
				}
				if op.kind == "signmsg" || op.kind == "za" || op.kind == "sign-long-id" || op.kind == "verify-long-id" {
					op.j = gen.Uniform(t, "idx", 0, 2)
				}
				plan[g] = append(plan[g], op)
				nops++
			}
		}
		// serial pass (also the warm-up that absorbs lazy initialisation); SM4 results are additionally compared with the
		// independent reference, so that a history effect present in the serial run too (object lifetimes, finalizers) is not masked
		refc := sm4ref.New(s.key)
		want := make([][][]byte, ng)
		for g := range plan {
			for _, op := range plan[g] {
				got := s.run(op)
				want[g] = append(want[g], got)
				var exp []byte
				switch op.kind {
				case "encrypt":
					exp = make([]byte, 16)
					refc.Encrypt(exp, s.blocks[op.i])
				case "decrypt":
					exp = make([]byte, 16)
					refc.Decrypt(exp, s.blocks[op.i])
				case "derive-aead":
					exp = gcmref.Seal(refc, s.blocks[op.i][:12], s.data[op.i], s.blocks[(op.i+1)%3], 16)
				case "seal":
					m := s.msgs[op.i]
					exp = gcmref.Seal(refc, m.nonce, m.pt, m.aad, cfgs[m.aead].tag)
				}
				if exp != nil && !bytes.Equal(got, exp) {
					vt.Fail(t, rec, "C17:serial-differs-from-reference", "in the serial pass of a workload (objects shared, AEADs derived and dropped, GC cycles) operation %s (i=%d) differs from the reference\n got %x\nwant %x", op.kind, op.i, got, exp)
					return
				}
			}
		}
		snapBufs := func() [][]byte {
			var out [][]byte
			out = append(out, append([]byte(nil), s.key...))
			for _, m := range s.msgs {
				out = append(out, append([]byte(nil), m.nonce...), append([]byte(nil), m.aad...), append([]byte(nil), m.pt...), append([]byte(nil), m.ct...))
			}
			for i := range s.blocks {
				out = append(out, append([]byte(nil), s.blocks[i]...), append([]byte(nil), s.data[i]...))
			}
			for i := range s.d {
				out = append(out, append([]byte(nil), s.d[i]...), append([]byte(nil), s.px[i]...), append([]byte(nil), s.py[i]...), append([]byte(nil), s.e[i]...), append([]byte(nil), s.sigR[i]...), append([]byte(nil), s.sigS[i]...))
			}
			return out
		}
		before := snapBufs()
		h0, visited := deephash.Hash(globals)
		// concurrent pass
		var wg sync.WaitGroup
		start := make(chan struct{})
		mism := make([]string, ng)
		for g := range plan {
			wg.Add(1)
			go func(g int) {
				defer wg.Done()
				defer func() {
					if p := recover(); p != nil {
						mism[g] = fmt.Sprintf("goroutine %d panicked: %v", g, p)
					}
				}()
				<-start
				for k, op := range plan[g] {
					got := s.run(op)
					if !bytes.Equal(got, want[g][k]) && mism[g] == "" {
						mism[g] = fmt.Sprintf("goroutine %d op %d (%s i=%d j=%d): concurrent result differs from the serial one\nserial     %x\nconcurrent %x", g, k, op.kind, op.i, op.j, want[g][k], got)
					}
					if k%3 == 0 {
						runtime.Gosched()
					}
				}
			}(g)
		}
		close(start)
		wg.Wait()
		shared := 0
		for _, c := range touch {
			if c >= 2 {
				shared++
			}
		}
		rec.Case(stats.Hash([]byte(fmt.Sprint(plan)), s.key), ng >= 2, fmt.Sprintf("goroutines:%d", (ng+3)/4*4), fmt.Sprintf("shared-msg-buffers>0:%v", shared > 0))
		if rec.WantSample("plan") {
			kinds := map[string]int{}
			for _, p := range plan {
				for _, op := range p {
					kinds[op.kind]++
				}
			}
			rec.Sample("plan", map[string]interface{}{"goroutines": ng, "operations": nops, "ops_by_kind": kinds, "messages": nm, "package_level_values_hashed": visited})
		}
		for _, m := range mism {
			if m != "" {
				vt.Fail(t, rec, "C17:result-differs", "%s", m)
				return
			}
		}
		after := snapBufs()
		for i := range before {
			if !bytes.Equal(before[i], after[i]) {
				vt.Fail(t, rec, "C17:shared-buffer-modified", "shared input buffer #%d changed during the concurrent workload\nbefore %x\nafter  %x", i, before[i], after[i])
				return
			}
		}
		// (3) the whole plan again, serially: whatever the concurrent phase did to shared or package-level state, every call must
		// still return what it returned when run alone the first time
		for g := range plan {
			for k, op := range plan[g] {
				if got := s.run(op); !bytes.Equal(got, want[g][k]) {
					vt.Fail(t, rec, "C17:state-corrupted", "after the concurrent workload, operation %s (i=%d j=%d) run alone no longer returns its original result: persistent state was corrupted\nbefore %x\nafter  %x", op.kind, op.i, op.j, want[g][k], got)
					return
				}
			}
		}
		h1, _ := deephash.Hash(globals)
		if d := deephash.Diff(h0, h1); len(d) > 0 {
			// not a violation by itself (a correctly synchronised cache is allowed): reported, and judged through results and the race detector
			rec.Note("package-level variables whose contents changed during a workload (results unaffected): %v", d)
		}
	})
}

func c17Len(t *rapid.T, label string) (int, string) {
	switch gen.Pick(t, label+".lclass", "kernels", "kernels", "uniform", "small") {
	case "kernels":
		return 256*gen.Int(t, label+".a", 0, 2) + 128*gen.Int(t, label+".b", 0, 1) + 64*gen.Int(t, label+".c", 0, 1) +
			32*gen.Int(t, label+".d", 0, 1) + 16*gen.Int(t, label+".e", 0, 1) + gen.Uniform(t, label+".f", 0, 15), "kernels"
	case "uniform":
		return gen.Uniform(t, label+".n", 0, 700), "uniform"
	}
	return gen.Uniform(t, label+".n", 0, 40), "small"
}
