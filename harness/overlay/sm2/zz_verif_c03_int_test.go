package sm2_test

// C03 (uses the internal package's exported helpers) — off-curve public keys for which the verification
// EQUATION holds under the library's own arithmetic: only the curve-membership check can reject them.

import (
	"fmt"
	"math/big"
	"testing"

	"github.com/bilibili/smgo/sm2"
	"github.com/bilibili/smgo/sm2/internal"
	"pgregory.net/rapid"
	"verif.local/ref/gen"
	"verif.local/ref/sm2gen"
	"verif.local/ref/sm2ref"
	"verif.local/ref/stats"
	"verif.local/ref/vt"
)

func c03Mont(v *big.Int) *[4]uint64 {
	m := new(big.Int).Lsh(v, 256)
	m.Mod(m, gen.P)
	var out [4]uint64
	mask := new(big.Int).SetUint64(^uint64(0))
	for i := 0; i < 4; i++ {
		out[i] = new(big.Int).And(m, mask).Uint64()
		m.Rsh(m, 64)
	}
	return &out
}

func TestVerif_C03_OffCurveSolved(t *testing.T) {
	rec := stats.Get("C03", "offcurve-solved")
	rec.Rule("rapid: a coordinate pair that is NOT on the curve (a valid key with y+1..3, x+1, a uniform pair, or a y whose square agrees with the curve's right-hand side except in part of one limb), turned into a projective point through the library's raw constructor; for uniform (s,t) the point R = [s]G+[t]P' is computed with the library's own double-scalar routine, then r = t-s, e = r - x_R: the verification equation holds under the library's arithmetic, so only the curve-membership check can reject. Oracle: VerifyHashed returns false (the standard requires a point on the curve). Every case non-trivial; distinct by (x,y,s,t).")
	t.Cleanup(stats.FlushAll)
	rapid.Check(t, func(t *rapid.T) {
		r0 := gen.Rand(t, "seed")
		d, _, _ := sm2gen.PrivKey(t, "d")
		px, py, _ := sm2gen.Pub(d)
		x, y := new(big.Int).SetBytes(px), new(big.Int).SetBytes(py)
		cls := gen.Pick(t, "class", "y+k", "y+k", "x+1", "uniform", "limb-near-miss", "limb-near-miss")
		switch cls {
		case "limb-near-miss":
			// y'^2 equals x^3-3x+b except in part of one 64-bit limb of its plain or Montgomery form (y' by square root)
			if yy, ok := sm2gen.NearMissY(t, "nm", x); ok {
				y = yy
			}
		case "y+k":
			y.Add(y, big.NewInt(int64(gen.Int(t, "k", 1, 3)))).Mod(y, gen.P)
		case "x+1":
			x.Add(x, big.NewInt(1)).Mod(x, gen.P)
		case "uniform":
			x.SetBytes(gen.RandBytes(r0, 40)).Mod(x, gen.P)
			y.SetBytes(gen.RandBytes(r0, 40)).Mod(y, gen.P)
		}
		if sm2ref.OnCurve(x, y) {
			return // astronomically unlikely
		}
		s := new(big.Int).SetBytes(gen.RandBytes(r0, 40))
		s.Mod(s, sm2gen.NM1).Add(s, big.NewInt(1))
		tt := new(big.Int).SetBytes(gen.RandBytes(r0, 40))
		tt.Mod(tt, sm2gen.NM1).Add(tt, big.NewInt(1))
		rr := new(big.Int).Sub(tt, s)
		rr.Mod(rr, sm2gen.N)
		if rr.Sign() == 0 {
			return
		}
		var xr *big.Int
		if p := vt.Catch(func() {
			pt := internal.NewFromXY(c03Mont(x), c03Mont(y))
			R, err := internal.ScalarMixedMult_Unsafe(gen.Pad32(s), pt, gen.Pad32(tt))
			if err == nil && R.IsInfinity() == 0 {
				xr = R.GetAffineX()
			}
		}); p != nil || xr == nil {
			rec.Case(stats.Hash(x.Bytes(), y.Bytes()), false, "class:"+cls, "no-point")
			return
		}
		e := new(big.Int).Sub(rr, xr)
		e.Mod(e, sm2gen.N)
		c := sm2gen.VerifyCase{Px: gen.Pad32(x), Py: gen.Pad32(y), E: gen.Pad32(e), R: gen.Pad32(rr), S: gen.Pad32(s), Class: "offcurve-solved:" + cls, Special: true}
		rec.Case(stats.Hash(c.Px, c.Py, c.E, c.R, c.S), true, "class:"+cls)
		if rec.WantSample(cls) {
			rec.Sample(cls, map[string]interface{}{"px": stats.Hex(c.Px), "py": stats.Hex(c.Py), "e": stats.Hex(c.E), "r": stats.Hex(c.R), "s": stats.Hex(c.S)})
		}
		var ok bool
		var err error
		if p := vt.Catch(func() { ok, err = sm2.VerifyHashed(c.Px, c.Py, c.E, c.R, c.S) }); p != nil {
			vt.Fail(t, rec, "C03:panic", "VerifyHashed panicked on an off-curve key: %v", p)
			return
		}
		if ok {
			vt.Fail(t, rec, "C03:accepts-invalid:offcurve-solved", "VerifyHashed accepted a signature under a public key that is not on the curve (err=%v)\npx=%x py=%x\ne=%x\nr=%x\ns=%x", err, c.Px, c.Py, c.E, c.R, c.S)
		}
		_ = fmt.Sprint
	})
}
