package sm2_test

// Counts of consecutively rejected candidates around powers of two (2^10, 2^12, 2^16; 2^20 in the thorough tier): the standard puts
// no bound on the redraw loop, so a source that is stuck for a while (all 0xFF, all 0x00, the value n, ...) must simply be outlasted.
// One deterministic family shared by C01 (the signature verifies), C02 (it is the standard's value and the stream position is exact),
// C12 (GenerateKey returns the first valid candidate) and C19 (a failure after such a run is still reported).

import (
	"bytes"
	"errors"
	"fmt"
	"math/big"
	"testing"

	"github.com/bilibili/smgo/sm2"
	"verif.local/ref/gen"
	"verif.local/ref/sm2gen"
	"verif.local/ref/sm2ref"
	"verif.local/ref/stats"
	"verif.local/ref/vt"
)

func longRunCounts() []int {
	c := []int{1023, 1024, 1025, 4096, 65535, 65536, 65537, 70000}
	if vt.Thorough() {
		c = append(c, 1<<20-1, 1<<20, 1<<20+1, 1<<21+5)
	}
	return c
}

// longRunStream is n rejected candidates (a cycle of all-FF, all-00, n, n-1 [a rejected KEY candidate, but a valid nonce: only used for keys]) then good.
func longRunStream(n int, forKeys bool, good []byte) []byte {
	pats := [][]byte{bytes.Repeat([]byte{0xff}, 32), make([]byte, 32), gen.Pad32(gen.N)}
	if forKeys {
		pats = append(pats, gen.Pad32(sm2gen.NM1))
	}
	out := make([]byte, 0, 32*(n+2))
	for i := 0; i < n; i++ {
		out = append(out, pats[(i*7+i/5)%len(pats)]...)
	}
	out = append(out, good...)
	return append(out, 0xaa, 0xbb, 0xcc) // a few trailing bytes that must not be consumed
}

func verifLongRuns(t *testing.T, prop string) {
	rec := stats.Get(prop, "long-rejected-runs")
	rec.Rule(fmt.Sprintf("complete list: %v consecutive rejected candidates (cycling all-FF, all-00, n [and n-1 for keys]) followed by an acceptable one, for SignHashed, Sign (message level) and GenerateKey; and the same runs followed by a FAILING source. Oracle: signature = reference signature with the first acceptable nonce and verifies (VerifyHashed / Verify); exactly 32*(count+1) bytes consumed; GenerateKey returns the acceptable candidate and its public key; with the failing source an error and no output. Every case non-trivial; distinct by (count, entry point).", longRunCounts()))
	rec.Exhaustive(true)
	t.Cleanup(stats.FlushAll)
	d := new(big.Int).SetBytes(bytes.Repeat([]byte{0x3c, 0x91}, 16))
	d.Mod(d, sm2gen.NM2).Add(d, big.NewInt(1))
	denc := gen.Pad32(d)
	px, py, _ := sm2gen.Pub(d)
	e := bytes.Repeat([]byte{0x5e}, 32)
	k := bytes.Repeat([]byte{0x17, 0x2b}, 16)
	id, msg := []byte("1234567812345678"), []byte("a message after a long run of rejected candidates")
	za, _ := sm2ref.ZA(id, px, py)
	em := sm2ref.E(za, msg)
	si, sn := vt.Shard()
	for ci, n := range longRunCounts() {
		if ci%sn != si {
			continue
		}
		stream := longRunStream(n, false, k)
		for _, entry := range []string{"SignHashed", "Sign"} {
			digest := e
			if entry == "Sign" {
				digest = em
			}
			wr, ws, _, _, werr := sm2ref.Sign(d, digest, stream)
			if werr != nil {
				t.Fatalf("HARNESS: reference did not sign: %v", werr)
			}
			rd := newStream(stream)
			var r, s []byte
			var err error
			if p := vt.Catch(func() {
				if entry == "Sign" {
					r, s, err = sm2.Sign(id, px, py, rd, denc, msg)
				} else {
					r, s, err = sm2.SignHashed(rd, denc, digest)
				}
			}); p != nil {
				vt.Fail(t, rec, prop+":long-run:panic", "%s panicked after %d rejected candidates: %v", entry, n, p)
				continue
			}
			rec.Enumerated(1, "entry:"+entry)
			if err != nil || r == nil || s == nil {
				vt.Fail(t, rec, prop+":long-run:no-signature", "%s after %d rejected candidates returned (r=%x, s=%x, err=%v): the standard keeps redrawing and signs with the first acceptable nonce", entry, n, r, s, err)
				continue
			}
			if !bytes.Equal(r, gen.Pad32(wr)) || !bytes.Equal(s, gen.Pad32(ws)) {
				vt.Fail(t, rec, prop+":long-run:value", "%s after %d rejected candidates: signature differs from the reference\n got (%x,%x)\nwant (%x,%x)", entry, n, r, s, wr, ws)
				continue
			}
			if rd.consumed != 32*(n+1) {
				vt.Fail(t, rec, prop+":long-run:stream-position", "%s after %d rejected candidates consumed %d bytes, want %d", entry, n, rd.consumed, 32*(n+1))
			}
			var ok bool
			if entry == "Sign" {
				ok, _ = sm2.Verify(id, px, py, msg, r, s)
			} else {
				ok, _ = sm2.VerifyHashed(px, py, digest, r, s)
			}
			if !ok {
				vt.Fail(t, rec, prop+":long-run:verify", "the signature %s produced after %d rejected candidates does not verify", entry, n)
			}
		}
		// key generation
		ks := longRunStream(n, true, denc)
		rdk := newStream(ks)
		var priv, x, y []byte
		var err error
		if p := vt.Catch(func() { priv, x, y, err = sm2.GenerateKey(rdk) }); p != nil {
			vt.Fail(t, rec, prop+":long-run:panic", "GenerateKey panicked after %d rejected candidates: %v", n, p)
			continue
		}
		rec.Enumerated(1, "entry:GenerateKey")
		if err != nil || !bytes.Equal(priv, denc) || !bytes.Equal(x, px) || !bytes.Equal(y, py) || rdk.consumed != 32*(n+1) {
			vt.Fail(t, rec, prop+":long-run:keygen", "GenerateKey after %d rejected candidates: err=%v priv=%x (want %x), consumed %d (want %d)", n, err, priv, denc, rdk.consumed, 32*(n+1))
		}
		// the same run, then the source dies: an error and nothing else
		dead := &longDead{data: ks[:32*n+15]}
		priv, x, y, err = nil, nil, nil, nil
		if p := vt.Catch(func() { priv, x, y, err = sm2.GenerateKey(dead) }); p != nil {
			vt.Fail(t, rec, prop+":long-run:panic", "GenerateKey panicked when the source failed after %d rejected candidates: %v", n, p)
			continue
		}
		rec.Enumerated(1, "entry:GenerateKey-then-failure")
		if err == nil || x != nil || y != nil {
			vt.Fail(t, rec, prop+":long-run:keygen-no-error", "the source failed after %d rejected candidates, GenerateKey returned err=%v x=%x y=%x", n, err, x, y)
		}
		dead = &longDead{data: stream[:32*n+9]}
		var r, s []byte
		if p := vt.Catch(func() { r, s, err = sm2.SignHashed(dead, denc, e) }); p != nil {
			vt.Fail(t, rec, prop+":long-run:panic", "SignHashed panicked when the source failed after %d rejected candidates: %v", n, p)
			continue
		}
		rec.Enumerated(1, "entry:SignHashed-then-failure")
		if err == nil || r != nil || s != nil {
			vt.Fail(t, rec, prop+":long-run:sign-no-error", "the source failed after %d rejected candidates, SignHashed returned err=%v r=%x s=%x", n, err, r, s)
		}
	}
	rec.Sample("long-runs", map[string]interface{}{"counts": fmt.Sprint(longRunCounts())})
}

type longDead struct {
	data []byte
	pos  int
}

func (l *longDead) Read(p []byte) (int, error) {
	if l.pos >= len(l.data) {
		return 0, errors.New("entropy source failed")
	}
	n := copy(p, l.data[l.pos:])
	l.pos += n
	return n, nil
}

func TestVerif_C01_LongRuns(t *testing.T) { verifLongRuns(t, "C01") }
func TestVerif_C02_LongRuns(t *testing.T) { verifLongRuns(t, "C02") }
func TestVerif_C12_LongRuns(t *testing.T) { verifLongRuns(t, "C12") }
func TestVerif_C19_LongRuns(t *testing.T) { verifLongRuns(t, "C19") }
