package sm2_test

// Shared helpers of the sm2 property files (public API only).

import (
	"bytes"
	"errors"
	"fmt"
	"io"
	"math/big"
	"runtime/debug"

	"github.com/bilibili/smgo/sm2"
	"pgregory.net/rapid"
	"verif.local/ref/gen"
	"verif.local/ref/guard"
	"verif.local/ref/sm2gen"
	"verif.local/ref/stats"
)

// streamReader serves a fixed byte stream, full reads, and records what was asked.
type streamReader struct {
	data     []byte
	pos      int
	reads    []int // requested sizes
	consumed int
	chunk    int // > 0: deliver at most this many bytes per Read (short reads without error)
	empties  int // > 0: this many empty reads (0, nil) precede every read that delivers data (allowed by io.Reader)
	emptyRun int
	nested   func(read int) // called at the start of every data-delivering Read: a source that itself uses the library (re-entrancy)
	inNested bool
	nreads   int
}

func (s *streamReader) Read(p []byte) (int, error) {
	if s.nested != nil && !s.inNested {
		s.inNested = true
		s.nested(s.nreads)
		s.inNested = false
	}
	s.nreads++
	if s.empties > 0 && s.emptyRun < s.empties && s.pos < len(s.data) {
		s.emptyRun++
		return 0, nil
	}
	s.emptyRun = 0
	if len(s.reads) < 1<<16 {
		s.reads = append(s.reads, len(p))
	}
	if s.pos >= len(s.data) {
		return 0, io.EOF
	}
	if s.chunk > 0 && len(p) > s.chunk {
		p = p[:s.chunk]
	}
	n := copy(p, s.data[s.pos:])
	s.pos += n
	s.consumed += n
	return n, nil
}

func newStream(b []byte) *streamReader { return &streamReader{data: b} }

func snap(bs ...[]byte) [][]byte {
	out := make([][]byte, len(bs))
	for i, b := range bs {
		if b != nil {
			out[i] = append([]byte{}, b...)
		}
	}
	return out
}

func sameAll(a [][]byte, bs ...[]byte) bool {
	for i, b := range bs {
		if (b == nil) != (a[i] == nil) || !bytes.Equal(a[i], b) {
			return false
		}
	}
	return true
}

var (
	roRing [64]*guard.Buf
	roNext int
)

// recordLayout places the given byte strings one after another, in a drawn order, in ONE buffer and returns sub-slices whose
// CAPACITY extends over everything that follows (as when a caller parses a wire record in place: x || msg || r || s ...), plus a
// function reporting whether any byte of the whole buffer changed. A callee that appends to an input slice or writes behind its
// length corrupts the neighbouring field — visible both in the result and in the buffer comparison.
func recordLayout(t *rapid.T, label string, fields ...[]byte) ([][]byte, func() string) {
	return recordLayoutOpt(t, label, true, fields...)
}

// recordLayoutRW is recordLayout for callers that go on writing into the fields themselves (never read-only).
func recordLayoutRW(t *rapid.T, label string, fields ...[]byte) ([][]byte, func() string) {
	return recordLayoutOpt(t, label, false, fields...)
}

func recordLayoutOpt(t *rapid.T, label string, mayBeReadOnly bool, fields ...[]byte) ([][]byte, func() string) {
	order := make([]int, len(fields))
	for i := range order {
		order[i] = i
	}
	for i := len(order) - 1; i > 0; i-- {
		j := gen.Uniform(t, label+".perm", 0, i)
		order[i], order[j] = order[j], order[i]
	}
	total := 0
	for _, f := range fields {
		total += len(f)
	}
	// one record in three lives in a READ-ONLY mapping that ends at an inaccessible page: every field is an input, so even a write
	// that is undone before the call returns (invisible to the comparison below) faults
	var g *guard.Buf
	buf := make([]byte, total+48)
	if mayBeReadOnly && gen.Uniform(t, label+".readonly", 0, 2) == 0 {
		g = guard.End(total + 48)
		buf = g.B
		debug.SetPanicOnFault(true)
	}
	for i := total; i < len(buf); i++ {
		buf[i] = 0xC5
	}
	out := make([][]byte, len(fields))
	off := 0
	for _, idx := range order {
		copy(buf[off:], fields[idx])
		out[idx] = buf[off : off+len(fields[idx])] // capacity runs to the end of the record
		if fields[idx] == nil {
			out[idx] = nil // an absent field stays absent (nil), it does not become an empty sub-slice
		}
		off += len(fields[idx])
	}
	snapshot := append([]byte(nil), buf...)
	if g != nil {
		g.ReadOnly()
	}
	if g != nil {
		// the mapping outlives the case (callers may still look at the fields); the one made 64 records ago is released
		roRing[roNext%len(roRing)].Free()
		roRing[roNext%len(roRing)] = g
		roNext++
	}
	return out, func() string {
		if bytes.Equal(buf, snapshot) {
			return ""
		}
		for i := range buf {
			if buf[i] != snapshot[i] {
				return fmt.Sprintf("byte %d of the %d-byte record changed (%#02x -> %#02x); field order %v", i, len(buf), snapshot[i], buf[i], order)
			}
		}
		return "changed"
	}
}

// deadReader delivers n bytes and then fails.
type deadReader struct {
	n   int
	err error
}

func (d *deadReader) Read(p []byte) (int, error) {
	if d.n <= 0 {
		return 0, d.err
	}
	if len(p) > d.n {
		p = p[:d.n]
	}
	for i := range p {
		p[i] = 0x5a
	}
	d.n -= len(p)
	return len(p), nil
}

// foreignCalls makes 0..3 calls of OTHER entry points — valid, rejected and failing ones, with shaped inputs — before the judged call
// of a case. Nothing is judged here (each entry point has its own property); what is exercised is state that one API function may
// leave behind for another: caches, pooled scratch buffers not cleaned on an error path, shared constants or table entries that an
// accumulator came to alias. The judged call that follows must not be affected. rec labels are returned for the class statistics.
func foreignCalls(t *rapid.T, rec *stats.Recorder, label string) {
	n := gen.Uniform(t, label+".n", 0, 3)
	if gen.Bool(t, label+".none") {
		n = 0
	}
	kinds := ""
	r := gen.Rand(t, label+".seed")
	for i := 0; i < n; i++ {
		d := new(big.Int).SetBytes(gen.RandBytes(r, 40))
		d.Mod(d, sm2gen.NM2).Add(d, big.NewInt(1))
		px, py, _ := sm2gen.Pub(d)
		denc := gen.Pad32(d)
		e := gen.RandBytes(r, 32)
		kind := gen.Pick(t, label+".kind", "verify-tiny-t", "verify-tiny-t", "verify-forged-tiny-t", "sign-dead-reader", "genkey-dead-reader", "verify-long-id",
			"sign-long-id", "derive-bad", "sign-short-key", "sign-bad-key", "verify-malformed", "verify-resplit", "oncurve-off")
		kinds += kind + ","
		func() {
			defer func() { recover() }() // a panic here is some other property's business
			switch kind {
			case "verify-tiny-t":
				// a VALID signature whose t = (r+s) mod n is tiny while s is ordinary: the double-scalar routine starts with a base-table point
				tt := big.NewInt(int64(gen.Uniform(t, label+".t", 1, 1<<13)))
				sv := new(big.Int).SetBytes(gen.RandBytes(r, 40))
				sv.Mod(sv, sm2gen.NM1).Add(sv, big.NewInt(1))
				if ev, _, rv, ok := sm2gen.SolveSig(d, sv, tt); ok {
					sm2.VerifyHashed(px, py, ev, gen.Pad32(rv), gen.Pad32(sv))
				}
			case "verify-forged-tiny-t":
				sv := new(big.Int).SetBytes(gen.RandBytes(r, 40))
				sv.Mod(sv, sm2gen.NM1).Add(sv, big.NewInt(1))
				rv := new(big.Int).Sub(big.NewInt(int64(gen.Uniform(t, label+".t", 1, 300))), sv)
				rv.Mod(rv, gen.N)
				sm2.VerifyHashed(px, py, e, gen.Pad32(rv), gen.Pad32(sv))
			case "sign-dead-reader":
				sm2.SignHashed(&deadReader{gen.Uniform(t, label+".dead", 0, 40), errors.New("entropy source failed")}, denc, e)
			case "genkey-dead-reader":
				sm2.GenerateKey(&deadReader{gen.Uniform(t, label+".dead", 0, 40), io.ErrUnexpectedEOF})
			case "verify-long-id":
				sm2.Verify(make([]byte, 8192), px, py, e, e, e)
			case "sign-long-id":
				sm2.Sign(make([]byte, 9000), px, py, newStream(gen.RandBytes(r, 64)), denc, e)
			case "derive-bad":
				sm2.DerivePublic(make([]byte, 32))
				sm2.DerivePublic(gen.Pad32(gen.N))
			case "sign-short-key":
				k := gen.Uniform(t, label+".klen", 1, 31)
				st := gen.RandBytes(r, 64)
				st[0] &= 0x7f
				sm2.SignHashed(newStream(st), denc[32-k:], e)
			case "sign-bad-key":
				sm2.SignHashed(newStream(gen.RandBytes(r, 64)), gen.Pad32(gen.N), e)
				sm2.SignHashed(newStream(gen.RandBytes(r, 64)), make([]byte, 32), e)
			case "verify-malformed":
				sm2.VerifyHashed(px[:31], py, e, e, e)
				sm2.VerifyHashed(px, py, e, e[:5], e)
				sm2.VerifyHashed(nil, nil, nil, nil, nil)
			case "verify-resplit":
				// the same bytes cut at different field boundaries
				id := gen.RandBytes(r, gen.Uniform(t, label+".idlen", 1, 20))
				sm2.Verify(append(append([]byte(nil), id...), px[0]), px[1:], py, e, e, e)
				sm2.ZA(id[:len(id)-1], append([]byte{id[len(id)-1]}, px...), py)
				sm2.ZA(id, px, py)
			case "oncurve-off":
				sm2.CheckOnCurve(px, px)
				sm2.CheckOnCurve(gen.Pad32(gen.P), py)
			}
		}()
	}
	if kinds == "" {
		rec.Tally("foreign-calls-before:none")
	} else {
		rec.Tally("foreign-calls-before:some")
	}
}

// resplit presents, before the judged call, THE SAME BYTES cut at different field boundaries (id one byte longer and the key one
// byte shorter, and the other way round) to ZA/Verify: anything keyed by the concatenation of the fields instead of the fields
// themselves confuses the two records. The calls are rejected (wrong key length); nothing is judged here.
func resplit(t *rapid.T, rec *stats.Recorder, label string, id, px, py []byte) {
	if len(px) != 32 || gen.Uniform(t, label+".resplit", 0, 2) != 0 {
		return
	}
	rec.Tally("resplit-before:yes")
	func() {
		defer func() { recover() }()
		dummy := make([]byte, 32)
		sm2.Verify(append(append([]byte(nil), id...), px[0]), px[1:], py, dummy, dummy, dummy)
		sm2.ZA(append(append([]byte(nil), id...), px[0]), px[1:], py)
		if len(id) > 0 {
			sm2.ZA(id[:len(id)-1], append([]byte{id[len(id)-1]}, px...), py)
			sm2.Verify(id[:len(id)-1], append([]byte{id[len(id)-1]}, px...), py, dummy, dummy, dummy)
		}
		sm2.ZA(append(append(append([]byte(nil), id...), px...), py[:1]...), py[1:], py)
	}()
}
