package sm2_test

// Shared helpers of the sm2 property files (public API only).

import (
	"bytes"
	"io"
)

// streamReader serves a fixed byte stream, full reads, and records what was asked.
type streamReader struct {
	data     []byte
	pos      int
	reads    []int // requested sizes
	consumed int
}

func (s *streamReader) Read(p []byte) (int, error) {
	s.reads = append(s.reads, len(p))
	if s.pos >= len(s.data) {
		return 0, io.EOF
	}
	n := copy(p, s.data[s.pos:])
	s.pos += n
	s.consumed += n
	return n, nil
}

func newStream(b []byte) *streamReader { return &streamReader{data: b} }

func snap(bs ...[]byte) [][]byte {
	out := make([][]byte, len(bs))
	for i, b := range bs {
		if b != nil {
			out[i] = append([]byte{}, b...)
		}
	}
	return out
}

func sameAll(a [][]byte, bs ...[]byte) bool {
	for i, b := range bs {
		if (b == nil) != (a[i] == nil) || !bytes.Equal(a[i], b) {
			return false
		}
	}
	return true
}
