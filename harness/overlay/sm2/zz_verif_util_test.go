package sm2_test

// Shared helpers of the sm2 property files (public API only).

import (
	"bytes"
	"fmt"
	"io"

	"pgregory.net/rapid"
	"verif.local/ref/gen"
)

// streamReader serves a fixed byte stream, full reads, and records what was asked.
type streamReader struct {
	data     []byte
	pos      int
	reads    []int // requested sizes
	consumed int
	chunk    int // > 0: deliver at most this many bytes per Read (short reads without error)
}

func (s *streamReader) Read(p []byte) (int, error) {
	s.reads = append(s.reads, len(p))
	if s.pos >= len(s.data) {
		return 0, io.EOF
	}
	if s.chunk > 0 && len(p) > s.chunk {
		p = p[:s.chunk]
	}
	n := copy(p, s.data[s.pos:])
	s.pos += n
	s.consumed += n
	return n, nil
}

func newStream(b []byte) *streamReader { return &streamReader{data: b} }

func snap(bs ...[]byte) [][]byte {
	out := make([][]byte, len(bs))
	for i, b := range bs {
		if b != nil {
			out[i] = append([]byte{}, b...)
		}
	}
	return out
}

func sameAll(a [][]byte, bs ...[]byte) bool {
	for i, b := range bs {
		if (b == nil) != (a[i] == nil) || !bytes.Equal(a[i], b) {
			return false
		}
	}
	return true
}


// recordLayout places the given byte strings one after another, in a drawn order, in ONE buffer and returns sub-slices whose
// CAPACITY extends over everything that follows (as when a caller parses a wire record in place: x || msg || r || s ...), plus a
// function reporting whether any byte of the whole buffer changed. A callee that appends to an input slice or writes behind its
// length corrupts the neighbouring field — visible both in the result and in the buffer comparison.
func recordLayout(t *rapid.T, label string, fields ...[]byte) ([][]byte, func() string) {
	order := make([]int, len(fields))
	for i := range order {
		order[i] = i
	}
	for i := len(order) - 1; i > 0; i-- {
		j := gen.Uniform(t, label+".perm", 0, i)
		order[i], order[j] = order[j], order[i]
	}
	total := 0
	for _, f := range fields {
		total += len(f)
	}
	buf := make([]byte, total+48)
	for i := total; i < len(buf); i++ {
		buf[i] = 0xC5
	}
	out := make([][]byte, len(fields))
	off := 0
	for _, idx := range order {
		copy(buf[off:], fields[idx])
		out[idx] = buf[off : off+len(fields[idx])] // capacity runs to the end of the record
		off += len(fields[idx])
	}
	snapshot := append([]byte(nil), buf...)
	return out, func() string {
		if bytes.Equal(buf, snapshot) {
			return ""
		}
		for i := range buf {
			if buf[i] != snapshot[i] {
				return fmt.Sprintf("byte %d of the %d-byte record changed (%#02x -> %#02x); field order %v", i, len(buf), snapshot[i], buf[i], order)
			}
		}
		return "changed"
	}
}
