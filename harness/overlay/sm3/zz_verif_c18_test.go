package sm3

// C18 (SM3 part) — round constants and IV.

import (
	"testing"

	"verif.local/ref/sm3ref"
	"verif.local/ref/stats"
	"verif.local/ref/vt"
)

func TestVerif_C18_SM3Constants(t *testing.T) {
	rec := stats.Get("C18", "sm3-constants")
	rec.Exhaustive(true)
	rec.Rule("complete enumeration: tt[j] = T_j <<< (j mod 32) for j in 0..63 with T_j = 79cc4519 (j<=15) / 7a879d8a; the eight IV words as set by Reset. 72 cases, all non-trivial.")
	t.Cleanup(stats.FlushAll)
	for j := 0; j < 64; j++ {
		rec.Enumerated(1, "Tj")
		if tt[j] != sm3ref.Tj(j) {
			vt.Fail(t, rec, "C18:sm3:tj", "tt[%d] = %08x, T_j <<< j = %08x", j, tt[j], sm3ref.Tj(j))
		}
	}
	var h SM3
	h.Reset()
	for i := 0; i < 8; i++ {
		rec.Enumerated(1, "IV")
		if h.h[i] != sm3ref.IV[i] {
			vt.Fail(t, rec, "C18:sm3:iv", "IV word %d = %08x, GB/T 32905 says %08x", i, h.h[i], sm3ref.IV[i])
		}
	}
	rec.Sample("Tj", map[string]interface{}{"j": 17, "value": tt[17]})
}
