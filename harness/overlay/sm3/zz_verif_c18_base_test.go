package sm3

// C18 — the base constants of the published Tj derivation (Test_DeriveTTs: tt[j] = t0 <<< j for j < 16, t1 <<< (j mod 32) after):
// t0 and t1 themselves must be the standard's values, and the derivation evaluated on THE PACKAGE'S OWN t0/t1 must reproduce the
// shipped table position by position. (Separate file: if the constants are renamed only this sub-check is dropped.)

import (
	"math/bits"
	"testing"

	"verif.local/ref/stats"
	"verif.local/ref/vt"
)

func TestVerif_C18_SM3DerivationBase(t *testing.T) {
	rec := stats.Get("C18", "sm3-derivation-base")
	rec.Exhaustive(true)
	rec.Rule("complete: t0 = 79cc4519 and t1 = 7a879d8a (GB/T 32905), and for every j in 0..63 the published derivation on the package's own constants, t0 <<< j (j < 16) / t1 <<< (j mod 32), equals the shipped tt[j]. 66 cases, all non-trivial; distinct by position.")
	t.Cleanup(stats.FlushAll)
	rec.Enumerated(2, "base")
	if uint32(t0) != 0x79cc4519 || uint32(t1) != 0x7a879d8a {
		vt.Fail(t, rec, "C18:sm3:t-base", "t0 = %08x, t1 = %08x; GB/T 32905 says 79cc4519, 7a879d8a", uint32(t0), uint32(t1))
	}
	for j := 0; j < 64; j++ {
		d := bits.RotateLeft32(t0, j)
		if j >= 16 {
			d = bits.RotateLeft32(t1, j%32)
		}
		rec.Enumerated(1, "derived")
		if tt[j] != d {
			vt.Fail(t, rec, "C18:sm3:tj-derivation", "the published derivation on the package's own constants gives %08x for j = %d, the shipped table has %08x", d, j, tt[j])
			return
		}
	}
}
