package sm3_test

// C04 — every Write/Sum/Reset history yields the standard digest.
// Model: the bytes written since the last Reset. Oracle: sm3ref (written from
// GB/T 32905, anchored to the standard's vectors) over the model.

import (
	"bufio"
	"bytes"
	"encoding/hex"
	"encoding/json"
	"fmt"
	"hash"
	"io"
	"os"
	"path/filepath"
	"strconv"
	"strings"
	"syscall"
	"testing"

	"github.com/bilibili/smgo/sm3"
	"pgregory.net/rapid"
	"verif.local/ref/gen"
	"verif.local/ref/sm3ref"
	"verif.local/ref/stats"
	"verif.local/ref/vt"
)

var c04ChunkLens = []int{0, 1, 2, 7, 8, 31, 32, 54, 55, 56, 57, 62, 63, 64, 65, 119, 120, 121, 127, 128, 129, 130, 191, 192, 256}

func TestVerif_C04_History(t *testing.T) {
	rec := stats.Get("C04", "history")
	rec.Rule("rapid state machine on one hash.Hash from sm3.New(): actions Write(chunk) [chunk length from boundary list 0..256 weighted to 55/56/57/63/64/65/119/120/128, 'fill buffer exactly', uniform 0..130, occasionally 1-5 KiB], Sum(prefix 0..40 bytes, with/without spare capacity) twice, Reset, io.Copy through io.Writer; model = bytes since last Reset; oracle after every step: Write returns (len,nil), Sum = prefix||sm3ref(model), prefix intact, second Sum equal, SumSM3(model) equal. Non-trivial history: a Write after a Sum, or a Write straddling a 64-byte boundary, or total length = 55..64 mod 64 at a Sum; distinct by hash of the whole operation sequence.")
	t.Cleanup(stats.FlushAll)
	rapid.Check(t, func(t *rapid.T) {
		var h hash.Hash = sm3.New()
		var model []byte
		var hist []byte
		r := gen.Rand(t, "content")
		sumSeen, writeAfterSum, straddle, padEdge, resets := false, false, false, false, 0
		checkSum := func(t *rapid.T, prefixLen int, spare bool) {
			prefix := gen.RandBytes(r, prefixLen)
			in := prefix
			if spare {
				in = make([]byte, prefixLen, prefixLen+64)
				copy(in, prefix)
			} else {
				in = append([]byte(nil), prefix...)
				in = in[:len(in):len(in)]
			}
			want := sm3ref.Sum(model)
			var got []byte
			if p := vt.Catch(func() { got = h.Sum(in) }); p != nil {
				vt.Fail(t, rec, "C04:sum:panic", "Sum panicked: %v (model len %d)", p, len(model))
				return
			}
			if len(got) != prefixLen+32 || !bytes.Equal(got[:prefixLen], prefix) {
				vt.Fail(t, rec, "C04:sum:append", "Sum(in) does not return in||digest: len(in)=%d len(out)=%d prefix intact=%v", prefixLen, len(got), len(got) >= prefixLen && bytes.Equal(got[:prefixLen], prefix))
				return
			}
			if !bytes.Equal(got[prefixLen:], want[:]) {
				vt.Fail(t, rec, "C04:sum:digest", "digest mismatch for %d-byte message (mod 64 = %d)\n got %x\nwant %x\nmsg %x", len(model), len(model)%64, got[prefixLen:], want, model)
				return
			}
			if m := len(model) % 64; m >= 55 || m == 0 {
				padEdge = true
			}
			sumSeen = true
		}
		t.Repeat(map[string]func(*rapid.T){
			"write": func(t *rapid.T) {
				var n int
				switch gen.Pick(t, "lenClass", "boundary", "boundary", "fill", "uniform", "big") {
				case "boundary":
					n = rapid.SampledFrom(c04ChunkLens).Draw(t, "n")
				case "fill":
					n = 64 - len(model)%64 + 64*gen.Int(t, "extraBlocks", 0, 2) + gen.Int(t, "delta", -1, 1)
					if n < 0 {
						n = 0
					}
				case "uniform":
					n = gen.Int(t, "n", 0, 130)
				case "big":
					n = gen.Int(t, "n", 1024, 5120)
				}
				chunk := c04Content(t, r, n)
				snap := append([]byte(nil), chunk...)
				var wn int
				var werr error
				if p := vt.Catch(func() { wn, werr = h.Write(chunk) }); p != nil {
					vt.Fail(t, rec, "C04:write:panic", "Write panicked: %v", p)
					return
				}
				if wn != n || werr != nil {
					vt.Fail(t, rec, "C04:write:return", "Write(%d bytes) returned (%d, %v), want (%d, nil)", n, wn, werr, n)
				}
				if !bytes.Equal(chunk, snap) {
					vt.Fail(t, rec, "C04:write:modifies-input", "Write modified its argument")
				}
				if n > 0 && (len(model)%64)+n > 64 {
					straddle = true
				}
				if sumSeen && n > 0 {
					writeAfterSum = true
				}
				model = append(model, chunk...)
				hist = append(hist, 'w', byte(n), byte(n>>8))
			},
			"iocopy": func(t *rapid.T) {
				// the standard library's ways of feeding a Writer. Several of them look for OPTIONAL interfaces on the destination
				// (io.StringWriter, io.ReaderFrom, io.ByteWriter) and use those instead of Write; whatever the hash implements must
				// consume exactly the bytes given. Content: random bytes or text (multi-byte UTF-8: ids are often names).
				n := gen.Int(t, "n", 1, 200)
				chunk := gen.RandBytes(r, n)
				if gen.Bool(t, "text") {
					chunk = c04Text(r, n)
					n = len(chunk)
				}
				mode := gen.Pick(t, "via", "copy-bytes-reader", "copy-strings-reader", "writestring", "multiwriter-string", "bufio-string", "fprintf", "copy-plain-reader", "optional-interfaces")
				cn, err := c04Deliver(h, chunk, mode)
				if err != nil || cn != n {
					vt.Fail(t, rec, "C04:write:return", "%s of %d bytes into the hash = (%d, %v): the hash does not report the bytes it consumed", mode, n, cn, err)
				}
				if sumSeen {
					writeAfterSum = true
				}
				if (len(model)%64)+n > 64 {
					straddle = true
				}
				rec.Tally("via:" + mode)
				model = append(model, chunk...)
				hist = append(hist, 'c', byte(n), mode[0], mode[len(mode)-1])
			},
			"sum": func(t *rapid.T) {
				pl := gen.Int(t, "prefixLen", 0, 40)
				spare := gen.Bool(t, "spare")
				checkSum(t, pl, spare)
				if gen.Bool(t, "twice") {
					checkSum(t, gen.Int(t, "prefixLen2", 0, 40), gen.Bool(t, "spare2"))
				}
				hist = append(hist, 's', byte(pl))
			},
			"reset": func(t *rapid.T) {
				h.Reset()
				model = model[:0]
				resets++
				hist = append(hist, 'r')
			},
			"": func(t *rapid.T) {
				if h.Size() != 32 || h.BlockSize() != 64 {
					vt.Fail(t, rec, "C04:sizes", "Size()=%d BlockSize()=%d", h.Size(), h.BlockSize())
				}
			},
		})
		// final: Sum and the one-shot function agree with the reference
		checkSum(t, 0, false)
		want := sm3ref.Sum(model)
		if got := sm3.SumSM3(model); got != want {
			vt.Fail(t, rec, "C04:oneshot", "SumSM3 mismatch for %d-byte message\n got %x\nwant %x", len(model), got, want)
		}
		nt := writeAfterSum || straddle || padEdge
		rec.Case(stats.Hash(hist, model), nt, fmt.Sprintf("writeAfterSum:%v", writeAfterSum), fmt.Sprintf("straddle:%v", straddle),
			fmt.Sprintf("padEdge:%v", padEdge), fmt.Sprintf("resets>0:%v", resets > 0))
		if rec.WantSample("history") {
			rec.Sample("history", map[string]interface{}{"ops(w=write len16,c=io.Copy,s=sum prefixlen,r=reset)": fmt.Sprintf("%q", hist), "final_len": len(model)})
		}
	})
}

// Complete sweep: every message length 0..L and every two-way split point,
// (quick L=130, thorough L=300), plus Sum between the two writes.
func TestVerif_C04_SplitSweep(t *testing.T) {
	rec := stats.Get("C04", "split-sweep")
	rec.Exhaustive(true)
	t.Cleanup(stats.FlushAll)
	L := 130
	if vt.Thorough() {
		L = 300
	}
	rec.Rule(fmt.Sprintf("complete enumeration: message length 0..%d x every split point 0..len into two Writes, with a Sum taken between them (must not disturb the state) — digest vs sm3ref; one-shot SumSM3 per length. Every case non-trivial; distinct by (length, split).", L))
	msg := make([]byte, L)
	for i := range msg {
		msg[i] = byte(i*131 + 7)
	}
	si, sn := vt.Shard()
	for n := 0; n <= L; n++ {
		if n%sn != si {
			continue
		}
		want := sm3ref.Sum(msg[:n])
		if got := sm3.SumSM3(msg[:n]); got != want {
			vt.Fail(t, rec, "C04:oneshot", "SumSM3 mismatch at length %d", n)
		}
		for k := 0; k <= n; k++ {
			h := sm3.New()
			n1, e1 := h.Write(msg[:k])
			mid := h.Sum(nil)
			n2, e2 := h.Write(msg[k:n])
			got := h.Sum(nil)
			rec.Enumerated(1)
			if n1 != k || n2 != n-k || e1 != nil || e2 != nil {
				vt.Fail(t, rec, "C04:write:return", "Write returned (%d,%v),(%d,%v) for chunks of %d and %d bytes", n1, e1, n2, e2, k, n-k)
			}
			if wm := sm3ref.Sum(msg[:k]); !bytes.Equal(mid, wm[:]) {
				vt.Fail(t, rec, "C04:sum:digest", "digest mismatch for %d-byte message", k)
			}
			if !bytes.Equal(got, want[:]) {
				vt.Fail(t, rec, "C04:sum:digest", "digest mismatch for %d-byte message split at %d (Sum in between)\n got %x\nwant %x", n, k, got, want)
			}
		}
	}
	rec.Sample("sweep", map[string]interface{}{"lengths": fmt.Sprintf("0..%d", L), "splits": "every k in 0..len, Sum(nil) between the writes"})
}

// Messages whose bit length does not fit in 32 bits (thorough tier only: 2^29+17 bytes are hashed).
func TestVerif_C04_LongMessage(t *testing.T) {
	rec := stats.Get("C04", "long-message")
	rec.Rule("thorough only: one message of 2^29+17 bytes (bit length 2^32+136, does not fit in 32 bits) written in 1 MiB chunks with a Sum in the middle, and one of 2^29-1 bytes; digest vs the streaming form of the reference. 2 cases, both non-trivial (length counter above 2^32 bits).")
	t.Cleanup(stats.FlushAll)
	if !vt.Thorough() {
		rec.Note("skipped in the quick tier (hashes 1 GiB)")
		t.Skip("thorough only")
	}
	if si, _ := vt.Shard(); si != 0 {
		t.Skip("shard 0 only")
	}
	chunk := make([]byte, 1<<20)
	for i := range chunk {
		chunk[i] = byte(i*7 + i>>9)
	}
	for _, total := range []int{1<<29 + 17, 1<<29 - 1} {
		h := sm3.New()
		ref := sm3ref.NewStream()
		left := total
		for left > 0 {
			n := len(chunk)
			if n > left {
				n = left
			}
			h.Write(chunk[:n])
			ref.Write(chunk[:n])
			left -= n
			if left == total/2 {
				h.Sum(nil)
			}
		}
		want := ref.Sum()
		got := h.Sum(nil)
		rec.Case(uint64(total), true, "long")
		rec.Sample("long", map[string]interface{}{"bytes": total, "digest": fmt.Sprintf("%x", want)})
		if !bytes.Equal(got, want[:]) {
			vt.Fail(t, rec, "C04:sum:digest", "digest mismatch for a message of %d bytes (bit length %d)\n got %x\nwant %x", total, uint64(total)*8, got, want)
		}
	}
}

// Messages of 2^29 and more ZERO bytes (read-only anonymous pages) against digests computed once with OpenSSL (static vectors):
// the bit length no longer fits in 32 bits.
func TestVerif_C04_LongZeroVectors(t *testing.T) {
	rec := stats.Get("C04", "long-zero-vectors")
	rec.Rule("static third-party vectors (vectors/sm3_openssl_long_zero.json, openssl dgst -sm3 over N zero bytes, N = 2^28-1 .. 2^32+197, twelve lengths): the zero bytes come from a read-only anonymous mapping and are written in 1 MiB..64 MiB chunks with a Sum at the half-way point; quick runs the two lengths around 2^29, thorough all. Each case non-trivial (bit length at or above 2^32); distinct by length.")
	rec.Exhaustive(true)
	t.Cleanup(stats.FlushAll)
	b, err := os.ReadFile(filepath.Join(os.Getenv("VERIF_DIR"), "vectors", "sm3_openssl_long_zero.json"))
	if err != nil {
		rec.Skipped("vectors/sm3_openssl_long_zero.json not readable: " + err.Error())
		return
	}
	var f struct {
		Vectors []struct {
			ZeroBytes int64  `json:"zero_bytes"`
			Digest    string `json:"digest"`
		}
	}
	if err := json.Unmarshal(b, &f); err != nil {
		t.Fatal(err)
	}
	mem, err := syscall.Mmap(-1, 0, 64<<20, syscall.PROT_READ, syscall.MAP_ANON|syscall.MAP_PRIVATE)
	if err != nil {
		rec.Skipped("cannot map zero pages: " + err.Error())
		return
	}
	defer syscall.Munmap(mem)
	for i, v := range f.Vectors {
		if !vt.Thorough() && v.ZeroBytes != 1<<29 && v.ZeroBytes != 1<<29+65 {
			continue
		}
		if v.ZeroBytes > int64(^uint(0)>>1) {
			continue
		}
		h := sm3.New()
		left := int(v.ZeroBytes)
		chunk := []int{1 << 20, 64 << 20, 3<<20 + 17}[i%3]
		for left > 0 {
			n := chunk
			if n > left {
				n = left
			}
			if wn, werr := h.Write(mem[:n]); wn != n || werr != nil {
				vt.Fail(t, rec, "C04:write:return", "Write(%d) returned (%d,%v)", n, wn, werr)
			}
			left -= n
			if left > 0 && left <= int(v.ZeroBytes/2) && left+n > int(v.ZeroBytes/2) {
				h.Sum(nil)
			}
		}
		rec.Enumerated(1, "long-zero")
		if got := fmt.Sprintf("%x", h.Sum(nil)); got != v.Digest {
			vt.Fail(t, rec, "C04:sum:digest", "digest of %d zero bytes (bit length %d) differs from OpenSSL\n got %s\nwant %s", v.ZeroBytes, uint64(v.ZeroBytes)*8, got, v.Digest)
		}
	}
	rec.Sample("long-zero", map[string]interface{}{"lengths": "2^29-1, 2^29, 2^29+65, 2^30+3 zero bytes", "source": "openssl dgst -sm3"})
}

// Slices whose LENGTH leaves 32 bits: one Write / one SumSM3 over 2^32-1, 2^32 and 2^32+197 zero bytes (a read-only anonymous mapping:
// no memory is committed). Thorough tier (about 10 s of hashing per call); 64-bit platforms only.
func TestVerif_C04_HugeSliceVectors(t *testing.T) {
	rec := stats.Get("C04", "huge-slice-vectors")
	rec.Rule("static third-party vectors (openssl dgst -sm3 over N zero bytes, N = 2^32-1, 2^32, 2^32+197): the whole message is handed over as ONE slice — a single Write followed by Sum, SumSM3, and a Write of 2^32+ bytes after a 3-byte-short prefix was written first (buffered-prefix path) — from a read-only anonymous mapping. Thorough only. Each case non-trivial (slice length >= 2^32-1); distinct by (length, call shape).")
	rec.Exhaustive(true)
	t.Cleanup(stats.FlushAll)
	if !vt.Thorough() {
		rec.Skipped("slices of 2^32 bytes are hashed in the thorough tier only (about 10 s per call)")
		return
	}
	if strconv.IntSize < 64 {
		rec.Skipped("32-bit platform: no slice of 2^32 bytes exists")
		return
	}
	b, err := os.ReadFile(filepath.Join(os.Getenv("VERIF_DIR"), "vectors", "sm3_openssl_long_zero.json"))
	if err != nil {
		rec.Skipped("vectors/sm3_openssl_long_zero.json not readable: " + err.Error())
		return
	}
	var f struct {
		Vectors []struct {
			ZeroBytes int64  `json:"zero_bytes"`
			Digest    string `json:"digest"`
		}
	}
	if err := json.Unmarshal(b, &f); err != nil {
		t.Fatal(err)
	}
	var huge []int
	for i, v := range f.Vectors {
		if v.ZeroBytes >= 1<<32-1 {
			huge = append(huge, i)
		}
	}
	si, sn := vt.Shard()
	max := int64(1<<32 + 4096)
	mem, err := syscall.Mmap(-1, 0, int(max), syscall.PROT_READ, syscall.MAP_ANON|syscall.MAP_PRIVATE|syscall.MAP_NORESERVE)
	if err != nil {
		rec.Skipped("cannot map 4 GiB of zero pages: " + err.Error())
		return
	}
	defer syscall.Munmap(mem)
	job := 0
	for _, i := range huge {
		v := f.Vectors[i]
		n := int(v.ZeroBytes)
		for _, shape := range []string{"write+sum", "sumsm3", "prefix61+write"} {
			job++
			if job%sn != si {
				continue
			}
			var got string
			switch shape {
			case "write+sum":
				h := sm3.New()
				if wn, werr := h.Write(mem[:n]); wn != n || werr != nil {
					vt.Fail(t, rec, "C04:write:return", "Write(%d) returned (%d,%v)", n, wn, werr)
				}
				got = fmt.Sprintf("%x", h.Sum(nil))
			case "sumsm3":
				d := sm3.SumSM3(mem[:n])
				got = fmt.Sprintf("%x", d[:])
			default:
				h := sm3.New()
				h.Write(mem[:61])
				h.Write(mem[:n-61])
				got = fmt.Sprintf("%x", h.Sum(nil))
			}
			rec.Enumerated(1, "huge-slice:"+shape)
			if got != v.Digest {
				vt.Fail(t, rec, "C04:huge-slice:"+shape, "digest of %d zero bytes handed over as one slice (%s) differs from OpenSSL\n got %s\nwant %s", v.ZeroBytes, shape, got, v.Digest)
			}
		}
	}
	rec.Sample("huge-slice", map[string]interface{}{"lengths": "2^32-1, 2^32, 2^32+197 zero bytes in one slice", "shapes": "Write+Sum, SumSM3, 61-byte prefix then the rest", "source": "openssl dgst -sm3"})
}

// Blocks after which the chaining value has a word equal to 00000000 or ffffffff (2^-32 per block; found by brute force with the
// reference compression function, tools/sm3wordsearch): a state that code using a zero word as an "uninitialised" marker, or
// mishandling an all-ones word, confuses with a special one. Every entry is re-validated with the reference before use.
func TestVerif_C04_StateWordCorpus(t *testing.T) {
	rec := stats.Get("C04", "state-word-corpus")
	rec.Rule("corpus vectors/sm3_state_words.json (64-byte blocks whose chaining value has word 0, 4 or 7 equal to 00000000 / ffffffff; searched with the reference, re-validated here) x rapid-drawn continuation: the block written whole or in two pieces, a Sum taken right after it (prefix with/without capacity), a tail of 0..200 bytes in drawn chunks, Sum again; also SumSM3 of block||tail and a second corpus block appended. Oracle: every digest equals sm3ref. Non-trivial: every case; distinct by (block, tail, chunks).")
	t.Cleanup(stats.FlushAll)
	b, err := os.ReadFile(filepath.Join(os.Getenv("VERIF_DIR"), "vectors", "sm3_state_words.json"))
	if err != nil {
		rec.Skipped("vectors/sm3_state_words.json not readable: " + err.Error())
		return
	}
	var f struct {
		Vectors []struct {
			Block string
			Word  int
			Value string
		}
	}
	if err := json.Unmarshal(b, &f); err != nil {
		t.Fatal(err)
	}
	var blocks [][]byte
	for _, v := range f.Vectors {
		blk, _ := hex.DecodeString(v.Block)
		if len(blk) != 64 {
			continue
		}
		st := sm3ref.Compress(sm3ref.IV, blk)
		if v.Word < 0 || v.Word > 7 || fmt.Sprintf("%08x", st[v.Word]) != v.Value {
			continue // not what the corpus claims: dropped
		}
		blocks = append(blocks, blk)
	}
	if len(blocks) == 0 {
		rec.Skipped("no valid entry in the state-word corpus")
		return
	}
	rapid.Check(t, func(t *rapid.T) {
		r := gen.Rand(t, "seed")
		blk := blocks[gen.Uniform(t, "block", 0, len(blocks)-1)]
		msg := append([]byte(nil), blk...)
		if gen.Uniform(t, "second", 0, 3) == 0 {
			msg = append(msg, blocks[gen.Uniform(t, "block2", 0, len(blocks)-1)]...)
		}
		head := len(msg)
		msg = append(msg, gen.RandBytes(r, gen.Uniform(t, "tail", 0, 200))...)
		h := sm3.New()
		split := gen.Uniform(t, "split", 0, 64)
		h.Write(msg[:split])
		h.Write(msg[split:head])
		rec.Case(stats.Hash(msg, []byte{byte(split)}), true, fmt.Sprintf("blocks:%d", head/64))
		if rec.WantSample("corpus") {
			rec.Sample("corpus", map[string]interface{}{"block": stats.Hex(blk), "tail_len": len(msg) - head})
		}
		want := sm3ref.Sum(msg[:head])
		prefix := gen.RandBytes(r, gen.Uniform(t, "prefix", 0, 8))
		if got := h.Sum(prefix); !bytes.Equal(got, append(append([]byte(nil), prefix...), want[:]...)) {
			vt.Fail(t, rec, "C04:sum:digest", "Sum right after a block that leaves a %s word in the state differs from the reference\nmsg=%x\n got %x\nwant %x", "00000000/ffffffff", msg[:head], got, want)
			return
		}
		for pos := head; pos < len(msg); {
			n := gen.Uniform(t, "chunk", 1, 70)
			if pos+n > len(msg) {
				n = len(msg) - pos
			}
			h.Write(msg[pos : pos+n])
			pos += n
		}
		want = sm3ref.Sum(msg)
		if got := h.Sum(nil); !bytes.Equal(got, want[:]) {
			vt.Fail(t, rec, "C04:sum:digest", "digest of a message whose first block leaves a special word in the state differs from the reference\nmsg=%x\n got %x\nwant %x", msg, got, want)
			return
		}
		if got := sm3.SumSM3(msg); got != want {
			vt.Fail(t, rec, "C04:oneshot", "SumSM3 of such a message differs from the reference\nmsg=%x\n got %x\nwant %x", msg, got, want)
		}
	})
}

// The 32-bit build (GOARCH=386): lengths at which a byte or bit count no longer fits a 32-bit int. One Write of 2^28-1, 2^28 and
// 2^28+65 zero bytes (the bit length reaches 2^31) in both tiers; in the thorough tier 2^31+60 and 2^31+67 bytes streamed in 1 MiB
// Writes through ONE hash value with Sums on the way (the byte count passes 2^31). Zero pages; OpenSSL digests.
func TestVerif_C04_LongZero32Bit(t *testing.T) {
	rec := stats.Get("C04", "long-zero-32bit")
	rec.Rule("32-bit build only: static OpenSSL digests of N zero bytes; N = 2^28-1, 2^28, 2^28+65 handed over in ONE Write and through SumSM3 (quick and thorough); N = 2^31+60, 2^31+67 streamed in 1 MiB Writes through one hash value with an intermediate Sum at 2^31+60 (thorough). Each case non-trivial (bit or byte count at or above 2^31); distinct by (length, shape).")
	rec.Exhaustive(true)
	t.Cleanup(stats.FlushAll)
	if strconv.IntSize != 32 {
		rec.Skipped("64-bit build: the counts of interest fit an int; the 386 unit runs this")
		return
	}
	b, err := os.ReadFile(filepath.Join(os.Getenv("VERIF_DIR"), "vectors", "sm3_openssl_long_zero.json"))
	if err != nil {
		rec.Skipped("vectors/sm3_openssl_long_zero.json not readable: " + err.Error())
		return
	}
	var f struct {
		Vectors []struct {
			ZeroBytes int64  `json:"zero_bytes"`
			Digest    string `json:"digest"`
		}
	}
	if err := json.Unmarshal(b, &f); err != nil {
		t.Fatal(err)
	}
	want := map[int64]string{}
	for _, v := range f.Vectors {
		want[v.ZeroBytes] = v.Digest
	}
	mem, err := syscall.Mmap(-1, 0, 1<<28+4096, syscall.PROT_READ, syscall.MAP_ANON|syscall.MAP_PRIVATE)
	if err != nil {
		rec.Skipped("cannot map 256 MiB of zero pages: " + err.Error())
		return
	}
	defer syscall.Munmap(mem)
	for _, n := range []int{1<<28 - 1, 1 << 28, 1<<28 + 65} {
		w, ok := want[int64(n)]
		if !ok {
			continue
		}
		h := sm3.New()
		if wn, werr := h.Write(mem[:n]); wn != n || werr != nil {
			vt.Fail(t, rec, "C04:write:return", "Write(%d) returned (%d,%v)", n, wn, werr)
		}
		rec.Enumerated(1, "one-write")
		if got := fmt.Sprintf("%x", h.Sum(nil)); got != w {
			vt.Fail(t, rec, "C04:sum:digest", "32-bit build: digest of %d zero bytes written in ONE Write (bit length %d) differs from OpenSSL\n got %s\nwant %s", n, uint64(n)*8, got, w)
		}
		d := sm3.SumSM3(mem[:n])
		rec.Enumerated(1, "sumsm3")
		if got := fmt.Sprintf("%x", d[:]); got != w {
			vt.Fail(t, rec, "C04:oneshot", "32-bit build: SumSM3 of %d zero bytes differs from OpenSSL\n got %s\nwant %s", n, got, w)
		}
	}
	if !vt.Thorough() {
		return
	}
	if si, _ := vt.Shard(); si != 0 {
		return
	}
	h := sm3.New()
	var total int64
	feed := func(upto int64) {
		for total < upto {
			n := int64(1 << 20)
			if total+n > upto {
				n = upto - total
			}
			if wn, werr := h.Write(mem[:n]); int64(wn) != n || werr != nil {
				vt.Fail(t, rec, "C04:write:return", "Write(%d) after %d bytes returned (%d,%v)", n, total, wn, werr)
			}
			total += n
		}
	}
	for _, n := range []int64{1<<31 + 60, 1<<31 + 67} {
		w, ok := want[n]
		if !ok {
			continue
		}
		var got string
		if p := vt.Catch(func() { feed(n); got = fmt.Sprintf("%x", h.Sum(nil)) }); p != nil {
			vt.Fail(t, rec, "C04:sum:panic", "32-bit build: Write/Sum panicked after %d bytes through one hash value: %v", total, p)
			return
		}
		rec.Enumerated(1, "streamed")
		if got != w {
			vt.Fail(t, rec, "C04:sum:digest", "32-bit build: digest after %d zero bytes streamed through one hash value differs from OpenSSL\n got %s\nwant %s", n, got, w)
			return
		}
	}
}

// c04Text returns about n bytes of text mixing ASCII with 2-, 3- and 4-byte UTF-8 sequences.
func c04Text(r interface{ Intn(int) int }, n int) []byte {
	pool := []string{"a", "Z", "0", "@", ".", " ", "é", "ß", "Ж", "张", "三", "哔", "哩", "用", "户", "€", "𝔘", "😀"}
	var b []byte
	for len(b) < n {
		b = append(b, pool[r.Intn(len(pool))]...)
	}
	return b
}

type c04PlainReader struct{ r io.Reader } // hides WriterTo, so that io.Copy looks for ReaderFrom on the destination

func (p c04PlainReader) Read(b []byte) (int, error) { return p.r.Read(b) }

// c04Deliver feeds chunk into w by one of the standard library's routes and returns the number of bytes the route reports.
func c04Deliver(w io.Writer, chunk []byte, mode string) (int, error) {
	switch mode {
	case "copy-bytes-reader":
		n, err := io.Copy(w, bytes.NewReader(chunk))
		return int(n), err
	case "copy-strings-reader":
		n, err := io.Copy(w, strings.NewReader(string(chunk)))
		return int(n), err
	case "writestring":
		return io.WriteString(w, string(chunk))
	case "multiwriter-string":
		return io.WriteString(io.MultiWriter(w, io.Discard), string(chunk))
	case "bufio-string":
		bw := bufio.NewWriterSize(w, 16)
		n, err := bw.WriteString(string(chunk))
		if err == nil {
			err = bw.Flush()
		}
		return n, err
	case "fprintf":
		return fmt.Fprintf(w, "%s", chunk)
	case "copy-plain-reader":
		n, err := io.CopyBuffer(w, c04PlainReader{bytes.NewReader(chunk)}, make([]byte, 7))
		return int(n), err
	default: // whatever optional interface the destination has, used directly; Write otherwise
		if sw, ok := w.(io.StringWriter); ok && len(chunk)%3 == 0 {
			return sw.WriteString(string(chunk))
		}
		if rf, ok := w.(io.ReaderFrom); ok && len(chunk)%3 == 1 {
			n, err := rf.ReadFrom(c04PlainReader{bytes.NewReader(chunk)})
			return int(n), err
		}
		if bw, ok := w.(io.ByteWriter); ok {
			for i, c := range chunk {
				if err := bw.WriteByte(c); err != nil {
					return i, err
				}
			}
			return len(chunk), nil
		}
		return w.Write(chunk)
	}
}

// c04Content returns n bytes: random, or (one case in three) WORD-STRUCTURED — built lane by lane from 32- or 64-bit words taken from
// {0, 1, 2^31, 2^32-1 / 2^63, 2^64-1, a random word X} and relations between neighbouring lanes (the same word again, its
// complement, its negative): blocks whose words cancel in a sum or an xor, repeat, or are all zero but one bit. The compression
// function treats every block alike; a shortcut that classifies blocks by a digest of their words does not.
func c04Content(t *rapid.T, r interface {
	Read([]byte) (int, error)
	Uint64() uint64
	Intn(int) int
}, n int) []byte {
	if gen.Uniform(t, "content-structured", 0, 2) != 0 {
		b := make([]byte, n)
		r.Read(b)
		return b
	}
	b := make([]byte, 0, n+8)
	w := 8
	if gen.Bool(t, "lane32") {
		w = 4
	}
	var prev uint64
	x := r.Uint64()
	for len(b) < n {
		var v uint64
		switch r.Intn(9) {
		case 0, 1:
			v = 0
		case 2:
			v = 1
		case 3:
			v = 1 << uint(8*w-1-r.Intn(4)) // 2^63, 2^62, 2^61, 2^60: a few equal lanes of these sum to 0 mod 2^64
		case 4:
			v = ^uint64(0)
		case 5:
			v = x
		case 6:
			v = -prev
		case 7:
			v = ^prev
		default:
			v = prev
		}
		prev = v
		for i := w - 1; i >= 0; i-- {
			b = append(b, byte(v>>uint(8*i)))
		}
	}
	return b[:n]
}
