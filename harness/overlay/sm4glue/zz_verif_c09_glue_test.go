package sm4_test

// C09, the Go code around the assembly. The statement is about what "SM4 key expansion, block encryption and the whole of GCM sealing
// and opening" execute and touch; the assembly is traced instruction by instruction elsewhere (TestVerif_C09_Trace). Between the
// public API and the assembly lies Go glue (NewCipher, Encrypt/Decrypt, NewGCM*, Seal, Open), and it handles the same secrets. This
// check traces it at source level: the hook prep_c09_glue copies package sm4 to sm4glue (scratch copy only) and rewrites the copy
// with tools/ctinstr, so that every source block, every short-circuit operand and every non-constant index or slice bound reports
// to a tracer. A generated HISTORY of calls (the shape — kinds, lengths, nonces, associated data, which Opens are forged — is public)
// is run with two assignments of the secret contents (keys, blocks, plaintexts/ciphertexts); both traces must be identical. The
// assignments also differ in which keys of the history are EQUAL to each other: whether a key was seen before is a fact about key
// bytes, not about lengths.

import (
	"bytes"
	"crypto/cipher"
	"encoding/json"
	"fmt"
	"os"
	"path/filepath"
	"testing"

	sm4 "github.com/bilibili/smgo/sm4glue"
	"pgregory.net/rapid"
	"verif.local/ref/ctrace"
	"verif.local/ref/gcmref"
	"verif.local/ref/gen"
	"verif.local/ref/sm4ref"
	"verif.local/ref/stats"
	"verif.local/ref/vt"
)

type glueSite struct {
	ID   int    `json:"id"`
	File string `json:"file"`
	Line int    `json:"line"`
	Func string `json:"func"`
	Kind string `json:"kind"`
	What string `json:"what"`
}

var glueSites map[int]*glueSite

func glueLoadSites() bool {
	if glueSites != nil {
		return true
	}
	b, err := os.ReadFile(filepath.Join(os.Getenv("VERIF_SCRATCH"), "ctrace_sites_sm4glue.json"))
	if err != nil {
		return false
	}
	var l []*glueSite
	if json.Unmarshal(b, &l) != nil {
		return false
	}
	glueSites = map[int]*glueSite{}
	for _, s := range l {
		glueSites[s.ID] = s
	}
	return len(glueSites) > 0
}

func glueWhere(id int) string {
	if s, ok := glueSites[id]; ok {
		return fmt.Sprintf("%s:%d (%s, %s %s)", s.File, s.Line, s.Func, s.Kind, s.What)
	}
	return fmt.Sprintf("site %d", id)
}

func glueFirstDivergence(a, b ctrace.Trace) string {
	n := len(a.Log)
	if len(b.Log) < n {
		n = len(b.Log)
	}
	for i := 0; i < n; i++ {
		if a.Log[i] != b.Log[i] {
			ea, eb := a.Log[i], b.Log[i]
			if ea.Kind == eb.Kind && ea.ID == eb.ID {
				return fmt.Sprintf("event %d: same site %s, different value: %d vs %d (%c: I = index/slice bound, C = short-circuit operand outcome)", i, glueWhere(ea.ID), ea.Value, eb.Value, ea.Kind)
			}
			return fmt.Sprintf("event %d: control flow diverges: %c at %s  vs  %c at %s", i, ea.Kind, glueWhere(ea.ID), eb.Kind, glueWhere(eb.ID))
		}
	}
	if len(a.Log) != len(b.Log) {
		longer := a
		if len(b.Log) > len(a.Log) {
			longer = b
		}
		return fmt.Sprintf("one trace is a prefix of the other (%d vs %d events); next event of the longer: %c at %s", len(a.Log), len(b.Log), longer.Log[n].Kind, glueWhere(longer.Log[n].ID))
	}
	return "logs equal (hash collision?)"
}

// the public shape of one call
type glueOp struct {
	kind            string // newcipher encrypt decrypt gcm seal open open-forged
	nonceSize, tagS int    // gcm
	ptLen           int
	nonce, aad      []byte // public
	dstCap          int    // seal/open: capacity class of dst (0 nil, 1 exact spare room, 2 prefix of 3 bytes + room)
	flip            int    // open-forged: which byte from the end is damaged
}

// the secret contents of one call
type glueSecret struct {
	key, block, pt []byte
}

// glueRun executes the history with one assignment of secrets and returns its trace (nil trace data when a call panicked).
func glueRun(ops []glueOp, sec []glueSecret, full bool) (tr ctrace.Trace, verdicts string, pan interface{}) {
	pan = vt.Catch(func() {
		var blk cipher.Block
		var aead cipher.AEAD
		var key []byte
		var err error
		ctrace.Start(full)
		defer func() { tr = ctrace.Stop() }()
		for i, op := range ops {
			s := sec[i]
			switch op.kind {
			case "newcipher":
				key = s.key
				blk, err = sm4.NewCipher(append([]byte(nil), key...))
				aead = nil
				verdicts += fmt.Sprintf("%v,", err == nil)
			case "encrypt", "decrypt":
				if blk == nil {
					continue
				}
				out := make([]byte, 16)
				if op.kind == "encrypt" {
					blk.Encrypt(out, s.block)
				} else {
					blk.Decrypt(out, s.block)
				}
			case "gcm":
				if blk == nil {
					continue
				}
				switch {
				case op.nonceSize != 12:
					aead, err = cipher.NewGCMWithNonceSize(blk, op.nonceSize)
				case op.tagS != 16:
					aead, err = cipher.NewGCMWithTagSize(blk, op.tagS)
				default:
					aead, err = cipher.NewGCM(blk)
				}
				verdicts += fmt.Sprintf("%v,", err == nil)
			case "seal", "open", "open-forged":
				if aead == nil || len(op.nonce) != aead.NonceSize() {
					continue
				}
				var dst []byte
				switch op.dstCap {
				case 1:
					dst = make([]byte, 0, op.ptLen+32)
				case 2:
					dst = make([]byte, 3, op.ptLen+40)
				}
				if op.kind == "seal" {
					aead.Seal(dst, op.nonce, s.pt, op.aad)
					continue
				}
				ct := gcmref.Seal(sm4ref.New(key), op.nonce, s.pt, op.aad, aead.Overhead())
				if op.kind == "open-forged" {
					ct[len(ct)-1-op.flip%len(ct)] ^= 0x10
				}
				_, err := aead.Open(dst, op.nonce, ct, op.aad)
				verdicts += fmt.Sprintf("%v,", err == nil)
			}
		}
	})
	return
}

func TestVerif_C09_GlueTrace(t *testing.T) {
	rec := stats.Get("C09", "glue-trace")
	rec.Rule("rapid draws a history of 2..9 calls through the public API of the accelerated path (NewCipher, Block.Encrypt/Decrypt, NewGCM / WithNonceSize / WithTagSize, Seal, Open of a valid and of a damaged message) — its kinds, lengths, nonces, associated data and destination shapes are the public part — and two assignments of the secret part (keys, blocks, plaintexts; classes: independent, one assignment REPEATS one key where the other uses distinct keys, one-bit differences, constant-byte keys). Package sm4 is rewritten (copy sm4glue, tools/ctinstr) so that every source block, short-circuit operand and non-constant index/slice bound of its Go code reports to a tracer; a warm-up history with a third assignment runs first. Oracle: both assignments give identical block/branch traces and identical index traces (and the same accept/reject verdicts, which the history fixes). Non-trivial: the history has at least one NewCipher and one data call and the tracer saw events; distinct by (history shape, assignment class).")
	t.Cleanup(stats.FlushAll)
	if !glueLoadSites() {
		rec.Skipped("package sm4 could not be instrumented (no site table): glue not traced")
		return
	}
	rapid.Check(t, func(t *rapid.T) {
		r := gen.Rand(t, "content")
		n := gen.Int(t, "ops", 2, 9)
		ops := []glueOp{{kind: "newcipher"}}
		shape := "newcipher,"
		haveAEAD := false
		for i := 1; i < n; i++ {
			kind := gen.Pick(t, fmt.Sprintf("op%d", i), "newcipher", "newcipher", "encrypt", "decrypt", "gcm", "gcm", "seal", "seal", "open", "open-forged")
			op := glueOp{kind: kind, nonceSize: 12, tagS: 16}
			switch kind {
			case "newcipher":
				haveAEAD = false
			case "seal", "open", "open-forged":
				if !haveAEAD { // an AEAD call needs an AEAD: build the standard one first
					ops = append(ops, glueOp{kind: "gcm", nonceSize: 12, tagS: 16})
					shape += "gcm/12/16/0/0/0,"
					haveAEAD = true
				}
			}
			switch kind {
			case "gcm":
				haveAEAD = true
				switch gen.Pick(t, fmt.Sprintf("gcmkind%d", i), "std", "std", "nonce", "tag") {
				case "nonce":
					op.nonceSize = []int{1, 8, 12, 13, 16, 32}[gen.Uniform(t, fmt.Sprintf("ns%d", i), 0, 5)]
				case "tag":
					op.tagS = gen.Uniform(t, fmt.Sprintf("ts%d", i), 12, 16)
				}
			case "seal", "open", "open-forged":
				op.ptLen = []int{0, 1, 15, 16, 17, 31, 33, 64, 100, 255, 256, 257, 1000, 4097}[gen.Uniform(t, fmt.Sprintf("len%d", i), 0, 13)]
				op.aad = gen.RandBytes(r, []int{0, 0, 1, 13, 16, 20, 33, 100}[gen.Uniform(t, fmt.Sprintf("aad%d", i), 0, 7)])
				op.dstCap = gen.Uniform(t, fmt.Sprintf("dst%d", i), 0, 2)
				op.flip = gen.Uniform(t, fmt.Sprintf("flip%d", i), 0, 40)
			}
			ops = append(ops, op)
			shape += fmt.Sprintf("%s/%d/%d/%d/%d/%d,", kind, op.nonceSize, op.tagS, op.ptLen, len(op.aad), op.dstCap)
		}
		// nonces follow the AEAD in force at that point of the history
		ns := 0
		for i := range ops {
			switch ops[i].kind {
			case "newcipher":
				ns = 0
			case "gcm":
				ns = ops[i].nonceSize
			case "seal", "open", "open-forged":
				ops[i].nonce = gen.RandBytes(r, ns)
			}
		}
		cls := gen.Pick(t, "secrets", "independent", "a-repeats-key", "b-repeats-key", "one-bit", "constant-bytes", "crafted-round-keys", "crafted-round-keys")
		// keys whose key schedule has FOUR CONSECUTIVE round keys of our choosing (the schedule is invertible from any four consecutive
		// words): all zero, all ones, or a mixture, at the start (rk0..3), in the middle or at the end (rk28..31) — what a sanity
		// check or a comparison on round-key words would single out
		craftAt := []int{3, 3, 4, 17, 31, 31}[gen.Uniform(t, "craft-at", 0, 5)]
		var craftW [4]uint32
		for i := range craftW {
			craftW[i] = []uint32{0, 0, 0, 0xffffffff, uint32(r.Int63())}[gen.Uniform(t, fmt.Sprintf("craft-w%d", i), 0, 4)]
		}
		mk := func(which int) []glueSecret {
			sec := make([]glueSecret, len(ops))
			var first []byte
			for i, op := range ops {
				s := glueSecret{key: gen.RandBytes(r, 16), block: gen.RandBytes(r, 16), pt: gen.RandBytes(r, op.ptLen)}
				if first == nil {
					first = s.key
				}
				if (cls == "a-repeats-key" && which == 0) || (cls == "b-repeats-key" && which == 1) {
					s.key = first
				}
				if cls == "crafted-round-keys" && which == 0 {
					s.key = sm4ref.KeyForRoundKey(craftAt, craftW[3], [3]uint32{craftW[0], craftW[1], craftW[2]})
				}
				if cls == "constant-bytes" && which == 0 {
					s.key = bytes.Repeat([]byte{[]byte{0, 0xff, 0x01, 0x80}[i%4]}, 16)
					s.block = bytes.Repeat([]byte{0xff}, 16)
					s.pt = make([]byte, op.ptLen)
				}
				sec[i] = s
			}
			return sec
		}
		secA := mk(0)
		secB := mk(1)
		if cls == "one-bit" {
			for i := range secA {
				secB[i] = glueSecret{key: append([]byte(nil), secA[i].key...), block: append([]byte(nil), secA[i].block...), pt: append([]byte(nil), secA[i].pt...)}
				bit := r.Intn(128)
				secB[i].key[bit/8] ^= 1 << (bit % 8)
				secB[i].block[(bit/8+5)%16] ^= 0x80
				if len(secB[i].pt) > 0 {
					secB[i].pt[bit%len(secB[i].pt)] ^= 1
				}
			}
		}
		glueRun(ops, mk(2), false) // warm-up: one-time initialisation happens here, not inside a compared trace
		ta, va, pa := glueRun(ops, secA, false)
		tb, vb, pb := glueRun(ops, secB, false)
		data := false
		for _, op := range ops[1:] {
			if op.kind != "newcipher" && op.kind != "gcm" {
				data = true
			}
		}
		rec.Case(stats.HashS(shape, cls), data && ta.Blocks > 0, "secrets:"+cls, fmt.Sprintf("ops:%d", len(ops)), fmt.Sprintf("traced-events:%v", ta.Blocks > 0))
		if rec.WantSample(cls) {
			rec.Sample(cls, map[string]interface{}{"history": shape, "secrets": cls, "block_events": ta.Blocks, "index_events": ta.Indices})
		}
		if pa != nil || pb != nil {
			if (pa == nil) != (pb == nil) {
				vt.Fail(t, rec, "C09:glue:panic-depends-on-content", "history %s: one assignment panics (%v), the other does not (%v)", shape, pa, pb)
			}
			return
		}
		if va != vb {
			vt.Fail(t, rec, "C09:glue:verdicts-differ", "history %s (%s): accept/reject verdicts differ between the assignments: %s vs %s", shape, cls, va, vb)
			return
		}
		if ta.BlockHash != tb.BlockHash || ta.Blocks != tb.Blocks || ta.IndexHash != tb.IndexHash || ta.Indices != tb.Indices {
			fa, _, _ := glueRun(ops, secA, true)
			fb, _, _ := glueRun(ops, secB, true)
			what := "C09:glue:branch-depends-on-secret"
			if ta.BlockHash == tb.BlockHash && ta.Blocks == tb.Blocks {
				what = "C09:glue:index-depends-on-secret"
			}
			vt.Fail(t, rec, what, "history %s, secrets %s: the Go code of package sm4 executes differently for two assignments of keys/blocks/plaintexts with the same lengths (%d/%d block events, %d/%d index events)\nfirst divergence (re-run): %s\nkeys A: %x ...\nkeys B: %x ...", shape, cls, ta.Blocks, tb.Blocks, ta.Indices, tb.Indices, glueFirstDivergence(fa, fb), secA[0].key, secB[0].key)
		}
	})
}
