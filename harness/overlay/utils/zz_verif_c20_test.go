package utils

// C20 — comparison and signed-window recoding helpers are exact.
// Oracles: bytes.Compare on the first l bytes; for the recoding the invariants of
// the statement (digit set, spacing, weighted sum) evaluated with math/big.

import (
	"bytes"
	"fmt"
	"math/big"
	"testing"

	"pgregory.net/rapid"
	"verif.local/ref/gen"
	"verif.local/ref/stats"
	"verif.local/ref/vt"
)

func verifC20CmpOracle(t vt.TB, rec *stats.Recorder, a, b []byte, l int) {
	want := bytes.Compare(a[:l], b[:l])
	var got int
	if p := vt.Catch(func() { got = ConstantTimeCmp(a, b, l) }); p != nil {
		vt.Fail(t, rec, "C20:cmp:panic", "ConstantTimeCmp panicked: %v\na=%x\nb=%x\nl=%d", p, a, b, l)
		return
	}
	if got != want {
		vt.Fail(t, rec, "C20:cmp:wrong", "ConstantTimeCmp=%d want %d\na=%x\nb=%x\nl=%d", got, want, a, b, l)
	}
}

// verifProp_C20_Cmp builds the property (shared by the rapid test and the native fuzz target).
func verifProp_C20_Cmp() func(*rapid.T) {
	rec := stats.Get("C20", "cmp")
	rec.Rule("rapid: l in 0..64, len(a),len(b) in l..l+4 (trailing bytes must be ignored), contents from {equal, differ at one drawn byte, borrow chain a=b±1 over 00/FF runs, extreme bytes, uniform}; oracle bytes.Compare(a[:l],b[:l]). Non-trivial: common prefix >= 8 bytes, or a 00/FF borrow chain, or trailing bytes present; distinct by (a[:l],b[:l],len a,len b).")
	return func(t *rapid.T) {
		l := rapid.IntRange(0, 64).Draw(t, "l")
		cls := gen.Pick(t, "class", "equal", "onebyte", "borrow", "extreme", "uniform", "lastbyte", "firstbyte")
		r := gen.Rand(t, "seed")
		a := gen.RandBytes(r, l)
		b := gen.RandBytes(r, l)
		switch cls {
		case "equal":
			copy(b, a)
		case "onebyte", "lastbyte", "firstbyte":
			copy(b, a)
			if l > 0 {
				pos := gen.Uniform(t, "pos", 0, l-1)
				if cls == "lastbyte" {
					pos = l - 1
				} else if cls == "firstbyte" {
					pos = 0
				}
				b[pos] = byte(rapid.IntRange(0, 255).Draw(t, "newbyte"))
				// bytes after pos: random again in half of the cases, so that later
				// bytes contradict the deciding one
				if gen.Bool(t, "scrambleTail") {
					for i := pos + 1; i < l; i++ {
						b[i] = byte(r.Intn(256))
					}
				}
			}
		case "borrow":
			// a = x || 00..00, b = a-1 = (x-1) || FF..FF, or the reverse
			if l > 0 {
				k := gen.Uniform(t, "chain", 0, l-1)
				for i := l - k; i < l; i++ {
					a[i] = 0
				}
				v := new(big.Int).SetBytes(a)
				if gen.Bool(t, "plus") {
					for i := l - k; i < l; i++ {
						a[i] = 0xff
					}
					v.SetBytes(a)
					v.Add(v, big.NewInt(1))
				} else {
					v.Sub(v, big.NewInt(1))
				}
				if v.Sign() >= 0 && len(v.Bytes()) <= l {
					vb := v.Bytes()
					for i := range b {
						b[i] = 0
					}
					copy(b[l-len(vb):], vb)
				}
			}
		case "extreme":
			ext := []byte{0, 1, 0x7f, 0x80, 0xfe, 0xff}
			for i := range a {
				a[i] = ext[r.Intn(len(ext))]
				b[i] = ext[r.Intn(len(ext))]
			}
			// long common prefix
			if l > 0 {
				k := gen.Uniform(t, "prefix", 0, l)
				copy(b[:k], a[:k])
			}
		}
		ea := rapid.IntRange(0, 4).Draw(t, "extraA")
		eb := rapid.IntRange(0, 4).Draw(t, "extraB")
		a = append(a, gen.RandBytes(r, ea)...)
		b = append(b, gen.RandBytes(r, eb)...)
		if gen.Bool(t, "swap") {
			a, b = b, a
		}
		prefix := 0
		for prefix < l && a[prefix] == b[prefix] {
			prefix++
		}
		nt := prefix >= 8 || cls == "borrow" || ea+eb > 0
		rec.Case(stats.Hash(a[:l], b[:l], []byte{byte(len(a) - l), byte(len(b) - l)}), nt, cls, fmt.Sprintf("prefix>=8:%v", prefix >= 8))
		if rec.WantSample(cls) {
			rec.Sample(cls, map[string]interface{}{"a": stats.Hex(a), "b": stats.Hex(b), "l": l, "want": bytes.Compare(a[:l], b[:l])})
		}
		verifC20CmpOracle(t, rec, a, b, l)
	}
}

func TestVerif_C20_Cmp(t *testing.T) {
	t.Cleanup(stats.FlushAll)
	rapid.Check(t, verifProp_C20_Cmp())
}

// FuzzVerif_C20_Cmp drives the same property with Go's coverage-guided fuzzer (thorough tier).
func FuzzVerif_C20_Cmp(f *testing.F) {
	f.Fuzz(rapid.MakeFuzz(verifProp_C20_Cmp()))
}

// All pairs of 1-byte strings at every position of an otherwise equal string,
// (quick) and all pairs of 2-byte strings (thorough): complete enumerations.
func TestVerif_C20_CmpExhaustive(t *testing.T) {
	rec := stats.Get("C20", "cmp-exhaustive")
	rec.Rule("complete enumeration: every pair of byte values at every position 0..7 of an 8-byte string whose other bytes are equal (00, FF or 5A filler); thorough adds every pair of 2-byte strings (2^32 pairs) compared with l=2. Every case is non-trivial; distinct by (position, filler, values).")
	rec.Exhaustive(true)
	t.Cleanup(stats.FlushAll)
	for _, fill := range []byte{0x00, 0xff, 0x5a} {
		for pos := 0; pos < 8; pos++ {
			for x := 0; x < 256; x++ {
				for y := 0; y < 256; y++ {
					a := bytes.Repeat([]byte{fill}, 8)
					b := bytes.Repeat([]byte{fill}, 8)
					a[pos], b[pos] = byte(x), byte(y)
					rec.Enumerated(1, "1byte")
					verifC20CmpOracle(t, rec, a, b, 8)
				}
			}
		}
	}
	rec.Sample("1byte", map[string]interface{}{"a": "5a5a5a5a5a5a5a5a with byte pos=x", "b": "… with byte pos=y", "enumerated": "fill∈{00,ff,5a} × pos 0..7 × x,y 0..255"})
	if vt.Thorough() {
		si, sn := vt.Shard()
		var a, b [2]byte
		cnt := 0
		for x := si; x < 65536; x += sn {
			a[0], a[1] = byte(x>>8), byte(x)
			for y := 0; y < 65536; y++ {
				b[0], b[1] = byte(y>>8), byte(y)
				got := ConstantTimeCmp(a[:], b[:], 2)
				want := 0
				if x > y {
					want = 1
				} else if x < y {
					want = -1
				}
				if got != want {
					vt.Fail(t, rec, "C20:cmp:wrong", "ConstantTimeCmp(%x,%x,2)=%d want %d", a, b, got, want)
				}
				cnt++
			}
			rec.Enumerated(65536, "2byte")
		}
		rec.Note("2-byte pairs compared in this shard: %d", cnt)
	}
}

func verifC20NAFOracle(t vt.TB, rec *stats.Recorder, s []byte, w, outLen int, tail ...byte) (carryTop bool, nonzero int) {
	out := make([]int, outLen)
	// the 256-bit integer may be the LEADING field of a longer slice (r inside r||s, x inside a point encoding, a record with trailing
	// fields): "n-bit big endian integer s" is then its first 32 bytes, whatever follows
	arg := s
	if len(tail) > 0 {
		arg = append(append(make([]byte, 0, len(s)+len(tail)), s...), tail...)
	}
	if p := vt.Catch(func() { DecomposeNAF(out, arg, 257, w) }); p != nil {
		vt.Fail(t, rec, "C20:naf:panic", "DecomposeNAF panicked: %v\ns=%x w=%d", p, s, w)
		return
	}
	sum := new(big.Int)
	lim := 1 << uint(w)
	for i := len(out) - 1; i >= 0; i-- {
		d := out[i]
		if i > 256 {
			if d != 0 {
				vt.Fail(t, rec, "C20:naf:write-beyond-256", "digit %d written at index %d > 256\ns=%x w=%d", d, i, s, w)
				return
			}
			continue
		}
		sum.Lsh(sum, 1)
		if d == 0 {
			continue
		}
		nonzero++
		if d&1 == 0 || d >= lim || d <= -lim {
			vt.Fail(t, rec, "C20:naf:digit-range", "digit out[%d]=%d not odd with |d|<2^%d\ns=%x", i, d, w, s)
			return
		}
		for j := 1; j <= w && i+j <= 256; j++ {
			if out[i+j] != 0 {
				vt.Fail(t, rec, "C20:naf:spacing", "non-zero digits at %d and %d closer than w=%d\ns=%x", i, i+j, w, s)
				return
			}
		}
		sum.Add(sum, big.NewInt(int64(d)))
	}
	if sum.Cmp(new(big.Int).SetBytes(s)) != 0 {
		vt.Fail(t, rec, "C20:naf:sum", "sum of digits = %x, input = %x, w=%d", sum, s, w)
		return
	}
	return out[256] != 0, nonzero
}

// verifProp_C20_NAF builds the property (shared by the rapid test and the native fuzz target).
func verifProp_C20_NAF() func(*rapid.T) {
	rec := stats.Get("C20", "naf")
	rec.Rule("rapid: 32-byte s from {uniform, leading 00/FF, around 0/n/p/2^256, bit runs, one bit, extreme bytes, densest recodings, all-FF with one byte varied}, in one case of four as the leading field of a longer slice (1..200 trailing bytes), w in 1..7, len(out) in 257..300 zeroed; oracle: digits 0 or odd with |d|<2^w, w zeros after each non-zero digit, sum d_i 2^i = int(s), nothing written past index 256. Non-trivial: carry out of the top window (digit at index 256) or input with a run of >= w+1 one bits; distinct by (s,w).")
	return func(t *rapid.T) {
		s, cls := gen.Bytes32(t, "s")
		if gen.Int(t, "ffvar", 0, 9) == 0 {
			for i := range s {
				s[i] = 0xff
			}
			s[gen.Uniform(t, "ffpos", 0, 31)] = byte(gen.Uniform(t, "ffval", 0, 255))
			cls = "allFF-one-varied"
		}
		w := gen.Int(t, "w", 1, 7)
		outLen := gen.Int(t, "outLen", 257, 300)
		// longest run of ones
		run, best := 0, 0
		for i := 0; i < 256; i++ {
			if s[i>>3]&(0x80>>uint(i&7)) != 0 {
				run++
				if run > best {
					best = run
				}
			} else {
				run = 0
			}
		}
		var tail []byte
		if gen.Uniform(t, "longer", 0, 3) == 0 {
			tail = gen.RandBytes(gen.Rand(t, "tailseed"), []int{1, 1, 32, 33, 8, 64, 200}[gen.Uniform(t, "taillen", 0, 6)])
			cls += "+trailing-bytes"
		}
		top, _ := verifC20NAFOracle(t, rec, s, w, outLen, tail...)
		nt := top || best >= w+1
		rec.Case(stats.Hash(s, []byte{byte(w)}), nt, cls, fmt.Sprintf("w=%d", w), fmt.Sprintf("topcarry:%v", top))
		if rec.WantSample(cls) {
			rec.Sample(cls, map[string]interface{}{"s": stats.Hex(s), "w": w, "len_out": outLen, "top_carry": top})
		}
	}
}

func TestVerif_C20_NAF(t *testing.T) {
	t.Cleanup(stats.FlushAll)
	rapid.Check(t, verifProp_C20_NAF())
}

// FuzzVerif_C20_NAF drives the same property with Go's coverage-guided fuzzer (thorough tier).
func FuzzVerif_C20_NAF(f *testing.F) {
	f.Fuzz(rapid.MakeFuzz(verifProp_C20_NAF()))
}

// Every 16-bit pattern at every bit offset (others bits 0, and others bits 1),
// for every w: complete enumeration (thorough); quick enumerates every 8-bit
// pattern at every byte-aligned and odd offset.
func TestVerif_C20_NAFExhaustive(t *testing.T) {
	rec := stats.Get("C20", "naf-exhaustive")
	rec.Exhaustive(true)
	t.Cleanup(stats.FlushAll)
	bits, step := 8, 1
	if vt.Thorough() {
		bits = 16
	}
	rec.Rule(fmt.Sprintf("complete enumeration: every %d-bit pattern at every bit offset 0..%d of a 256-bit string whose remaining bits are all 0 and all 1, x w in 1..7 (thorough: 16-bit patterns, sharded; quick: 8-bit). Every case non-trivial; distinct by (pattern, offset, background, w).", bits, 256-bits))
	si, sn := vt.Shard()
	idx := 0
	var wlabel [8]string
	for w := range wlabel {
		wlabel[w] = fmt.Sprintf("w=%d", w)
	}
	for off := 0; off+bits <= 256; off += step {
		for bg := 0; bg < 2; bg++ {
			idx++
			if idx%sn != si {
				continue
			}
			for pat := 0; pat < 1<<uint(bits); pat++ {
				var s [32]byte
				if bg == 1 {
					for i := range s {
						s[i] = 0xff
					}
				}
				for j := 0; j < bits; j++ {
					pos := off + j // bit index from MSB
					bit := (pat >> uint(bits-1-j)) & 1
					if bit == 1 {
						s[pos>>3] |= 0x80 >> uint(pos&7)
					} else {
						s[pos>>3] &^= 0x80 >> uint(pos&7)
					}
				}
				for w := 1; w <= 7; w++ {
					verifC20NAFOracle(t, rec, s[:], w, 257)
					rec.Enumerated(1, wlabel[w])
				}
				if pat == 0xA5 && off == 9 {
					rec.Sample("pattern", map[string]interface{}{"s": stats.Hex(s[:]), "offset": off, "background": bg, "w": "1..7"})
				}
			}
		}
	}
}

// A SMALL integer needs few digits: for a value below 2^k the recoding has no digit at or above position k+1, and a zeroed buffer of
// k+2 digits is all the routine ever writes to (it stores non-zero digits only). Callers that recode short scalars into short
// buffers — the front of a larger scratch arena, or an exactly sized slice — rely on that: nothing behind the buffer is touched,
// and there is no panic.
func TestVerif_C20_NAFShortBuffer(t *testing.T) {
	rec := stats.Get("C20", "naf-short-buffer")
	rec.Rule("rapid: k in {8,16,64,100,128,190,254}, a 32-byte s below 2^k (uniform, all ones, one bit, densest recoding), w in 1..7, out = the first k+2 entries of an arena whose remaining entries hold a canary (capacity reaching over the arena, or cut at k+2). Oracle: no panic; digits valid and spaced; sum = s; every arena entry behind the buffer still holds the canary. Non-trivial: every case; distinct by (s, w, k, capacity).")
	t.Cleanup(stats.FlushAll)
	rapid.Check(t, func(t *rapid.T) {
		k := []int{8, 16, 64, 100, 128, 190, 254}[gen.Uniform(t, "k", 0, 6)]
		w := gen.Int(t, "w", 1, 7)
		r := gen.Rand(t, "seed")
		v := new(big.Int).SetBytes(gen.RandBytes(r, 32))
		switch gen.Pick(t, "shape", "uniform", "ones", "onebit", "dense") {
		case "ones":
			v.Lsh(big.NewInt(1), uint(k)).Sub(v, big.NewInt(1))
		case "onebit":
			v.Lsh(big.NewInt(1), uint(gen.Uniform(t, "bit", 0, k-1)))
		case "dense":
			d, _ := gen.Bytes32(t, "dense")
			v.SetBytes(d)
		}
		v.Mod(v, new(big.Int).Lsh(big.NewInt(1), uint(k)))
		s := gen.Pad32(v)
		const canary = 0x7777
		arena := make([]int, 300)
		for i := k + 2; i < len(arena); i++ {
			arena[i] = canary
		}
		out := arena[: k+2 : len(arena)]
		capcls := "arena"
		if gen.Bool(t, "cut") {
			out = arena[: k+2 : k+2]
			capcls = "exact"
		}
		rec.Case(stats.Hash(s, []byte{byte(w), byte(k)}, []byte(capcls)), true, "cap:"+capcls, fmt.Sprintf("k=%d", k))
		if p := vt.Catch(func() { DecomposeNAF(out, s, 257, w) }); p != nil {
			vt.Fail(t, rec, "C20:naf-short:panic", "DecomposeNAF panicked on a value below 2^%d with a zeroed buffer of %d digits (capacity %s): %v\ns=%x w=%d", k, k+2, capcls, p, s, w)
			return
		}
		for i := k + 2; i < len(arena); i++ {
			if arena[i] != canary {
				vt.Fail(t, rec, "C20:naf-short:write-behind-buffer", "recoding a value below 2^%d into %d digits wrote %d at arena index %d, behind the buffer\ns=%x w=%d", k, k+2, arena[i], i, s, w)
				return
			}
		}
		sum := new(big.Int)
		lim := 1 << uint(w)
		for i := k + 1; i >= 0; i-- {
			sum.Lsh(sum, 1)
			d := out[i]
			if d == 0 {
				continue
			}
			if d&1 == 0 || d >= lim || d <= -lim {
				vt.Fail(t, rec, "C20:naf:digit-range", "digit out[%d]=%d not odd with |d|<2^%d\ns=%x", i, d, w, s)
				return
			}
			sum.Add(sum, big.NewInt(int64(d)))
		}
		if sum.Cmp(v) != 0 {
			vt.Fail(t, rec, "C20:naf:sum", "sum of digits = %x, input = %x, w=%d (short buffer)", sum, v, w)
		}
	})
}
