//go:build amd64 || arm64

package utils

// C20 — comparison over lengths that leave 32 bits (thorough tier): operands of 2^31+3, 2^32 and 2^32+16 bytes.

import (
	"fmt"
	"syscall"
	"testing"

	"verif.local/ref/stats"
	"verif.local/ref/vt"
)

func TestVerif_C20_CmpHuge(t *testing.T) {
	rec := stats.Get("C20", "cmp-huge")
	rec.Rule("complete list: l in {2^31+3, 2^32, 2^32+16}; operands are two private anonymous mappings (zero pages; only the pages holding a differing byte are committed); the operands are equal, or differ in exactly one byte at position 17, l/2 or l-1 with a > b or a < b. Oracle: the sign dictated by that byte (0 when equal). Thorough only (each call walks l bytes). Every case non-trivial (l >= 2^31); distinct by (l, position, direction).")
	rec.Exhaustive(true)
	t.Cleanup(stats.FlushAll)
	if !vt.Thorough() {
		rec.Skipped("operands of 2^31..2^32+16 bytes are compared in the thorough tier only (seconds per call)")
		return
	}
	const max = 1<<32 + 4096
	var bufs [2][]byte
	for i := range bufs {
		m, err := syscall.Mmap(-1, 0, max, syscall.PROT_READ|syscall.PROT_WRITE, syscall.MAP_ANON|syscall.MAP_PRIVATE|syscall.MAP_NORESERVE)
		if err != nil {
			rec.Skipped("cannot map 4 GiB of zero pages: " + err.Error())
			return
		}
		defer syscall.Munmap(m)
		bufs[i] = m
	}
	a, b := bufs[0], bufs[1]
	si, sn := vt.Shard()
	job := 0
	for _, l := range []int{1<<31 + 3, 1 << 32, 1<<32 + 16} {
		for _, pos := range []int{-1, 17, l / 2, l - 1} {
			for _, dir := range []int{1, -1} {
				if pos < 0 && dir < 0 {
					continue
				}
				job++
				if job%sn != si {
					continue
				}
				want := 0
				if pos >= 0 {
					want = dir
					if dir > 0 {
						a[pos] = 0x80
					} else {
						b[pos] = 1
					}
				}
				var got int
				p := vt.Catch(func() { got = ConstantTimeCmp(a[:l], b[:l], l) })
				if pos >= 0 {
					a[pos], b[pos] = 0, 0
				}
				rec.Enumerated(1, fmt.Sprintf("l:%d", l))
				if p != nil {
					vt.Fail(t, rec, "C20:cmp:panic", "ConstantTimeCmp panicked on %d-byte operands: %v", l, p)
					continue
				}
				if got != want {
					vt.Fail(t, rec, "C20:cmp:huge", "ConstantTimeCmp over l=%d bytes, operands differing only at byte %d (direction %d): got %d, want %d", l, pos, dir, got, want)
				}
			}
		}
	}
	rec.Sample("huge", map[string]interface{}{"lengths": "2^31+3, 2^32, 2^32+16", "positions": "none (equal), 17, l/2, l-1"})
}

// Operands of 16..256 MiB made of constant fills and periodic patterns: sums, counters and flags accumulated over the whole length
// (rather than per byte) wrap exactly for such inputs — e.g. a digit sum of 2^32 needs 2^24 bytes that differ by 0x100/…; random
// contents never produce an exact multiple. The oracle is bytes.Compare.
func TestVerif_C20_CmpLargeFills(t *testing.T) {
	rec := stats.Get("C20", "cmp-large-fills")
	rec.Rule("complete list: l in {2^24, 2^24+2^16+2 (= (2^32-1)/255 + 1), 2^25, 2^26 [, 2^28 thorough]} x (fill of a, fill of b) from {00,01,41,7f,80,c1,fe,ff}^2 with a != b, plus equal fills with one differing byte at position 0, l/2 or l-1 in either direction. Oracle: bytes.Compare. Every case non-trivial (an accumulator over 2^24+ bytes); distinct by (l, fills, position).")
	rec.Exhaustive(true)
	t.Cleanup(stats.FlushAll)
	lens := []int{1 << 24, 1<<24 + 1<<16 + 2, 1 << 25, 1 << 26}
	if vt.Thorough() {
		lens = append(lens, 1<<28)
	}
	max := lens[len(lens)-1]
	a, b := make([]byte, max), make([]byte, max)
	fills := []byte{0x00, 0x01, 0x41, 0x7f, 0x80, 0xc1, 0xfe, 0xff}
	si, sn := vt.Shard()
	job := 0
	check := func(l int, what string) {
		want := 0
		for i := 0; i < l; i++ { // a plain loop, not bytes.Compare on fills of the same value (which is memcmp anyway)
			if a[i] != b[i] {
				if a[i] > b[i] {
					want = 1
				} else {
					want = -1
				}
				break
			}
		}
		var got int
		if p := vt.Catch(func() { got = ConstantTimeCmp(a[:l], b[:l], l) }); p != nil {
			vt.Fail(t, rec, "C20:cmp:panic", "ConstantTimeCmp panicked on %d-byte operands (%s): %v", l, what, p)
			return
		}
		rec.Enumerated(1, fmt.Sprintf("l:%d", l))
		if got != want {
			vt.Fail(t, rec, "C20:cmp:large", "ConstantTimeCmp over l=%d bytes (%s): got %d, want %d", l, what, got, want)
		}
	}
	for _, l := range lens {
		for _, fa := range fills {
			for _, fb := range fills {
				job++
				if job%sn != si {
					continue
				}
				for i := 0; i < l; i++ {
					a[i], b[i] = fa, fb
				}
				if fa != fb {
					check(l, fmt.Sprintf("a all %02x, b all %02x", fa, fb))
					continue
				}
				for _, pos := range []int{0, l / 2, l - 1} {
					a[pos] ^= 0x10
					check(l, fmt.Sprintf("all %02x, a differs at %d", fa, pos))
					a[pos] ^= 0x10
					b[pos] ^= 0x01
					check(l, fmt.Sprintf("all %02x, b differs at %d", fa, pos))
					b[pos] ^= 0x01
				}
				if t.Failed() {
					return
				}
			}
		}
	}
	rec.Sample("large-fills", map[string]interface{}{"lengths": fmt.Sprint(lens), "fills": fmt.Sprintf("%x", fills)})
}
