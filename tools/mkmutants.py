#!/usr/bin/env python3
"""mkmutants.py — (re)generate hand-made sensitivity mutants as patches under /verif/mutants/.
Each mutant is a textual edit of /repo's current tree that keeps the module compiling; those that also keep the
repository's own test suite green are marked 'suite: pass' in mutants/INDEX.json (checked with --suite)."""
import os, sys, subprocess, tempfile, shutil, json

REPO = "/repo"
OUT = "/verif/mutants"
M = [
 # (property, name, file, old, new, note)
 ("C01", "ensure32-unpadded", "sm2/sm2.go", "\tcopy(buf[32-len(bytes):], bytes)\n\treturn buf[:]", "\tcopy(buf[32-len(bytes):], bytes)\n\treturn buf[32-len(bytes):]", "r,s returned without left padding"),
 ("C01", "verifyza-order", "sm2/sm2.go", "func VerifyZa(pubx, puby, za, msg, r, s []byte) (bool, error) {\n\thash := sm3.New()\n\thash.Write(za)\n\thash.Write(msg)", "func VerifyZa(pubx, puby, za, msg, r, s []byte) (bool, error) {\n\thash := sm3.New()\n\thash.Write(msg)\n\thash.Write(za)", "VerifyZa hashes msg||za"),
 ("C02", "k-equals-n-accepted", "sm2/sm2.go", "if utils.ConstantTimeCmp(K[:], nBytes[:], 32) >= 0 {", "if utils.ConstantTimeCmp(K[:], nBytes[:], 32) > 0 {", "nonce candidate k = n used"),
 ("C02", "s-zero-not-retried", "sm2/sm2.go", "\t\tif sInt.Sign() == 0 {\n\t\t\tcontinue\n\t\t}\n", "", "s = 0 returned"),
 ("C02", "accept-n-minus-1", "sm2/sm2.go", "\tif cmp == -1 {\n\t\treturn 0\n\t}", "\tif cmp <= 0 {\n\t\treturn 0\n\t}", "d = n-1 accepted (panics / wrong later)"),
 ("C02", "r-zero-not-retried", "sm2/sm2.go", "\t\tif rInt.Sign() == 0 {\n\t\t\tcontinue\n\t\t}\n", "", "r = 0 returned"),
 ("C03", "t-zero-accepted", "sm2/sm2.go", "\tif t.Sign() == 0 {\n\t\treturn false, errors.New(\"encountered r + s = n\")\n\t}\n", "", "r+s=n not rejected"),
 ("C03", "r-equals-n-accepted", "sm2/sm2.go", "rInt.Cmp(n) >= 0 || sInt.Cmp(n) >= 0", "rInt.Cmp(n) > 0 || sInt.Cmp(n) > 0", "r = n / s = n accepted"),
 ("C03", "compare-before-mod", "sm2/sm2.go", "\tR.Add(R, &eInt)\n\tR.Mod(R, n)\n", "\teInt.Mod(&eInt, n)\n\tR.Add(R, &eInt)\n\tif R.Cmp(n) >= 0 && R.BitLen() > 256 {\n\t\tR.Mod(R, n)\n\t}\n", "(e+x) reduced only when it overflows 256 bits"),
 ("C03", "oncurve-skipped", "sm2/internal/sm2_point.go", "\t\tif err := Sm2CheckOnCurve(x, y); err != nil {\n\t\t\treturn nil, err\n\t\t}\n", "", "off-curve public keys accepted"),
 ("C04", "nx-not-reset", "sm3/sm3.go", "\t\tif sm3.nx == BlockSize {\n\t\t\tsm3.cf(sm3.x[:])\n\t\t\tsm3.nx = 0\n\t\t}", "\t\tif sm3.nx == BlockSize {\n\t\t\tsm3.cf(sm3.x[:])\n\t\t\tsm3.nx = 0\n\t\t} else if len(data) == 0 {\n\t\t\treturn\n\t\t}", "semantics-preserving control (must NOT be caught)"),
 ("C04", "sum-ignores-prefix", "sm3/sm3.go", "\treturn append(in, hash[:]...)", "\tif len(in) > 0 && cap(in)-len(in) >= Size {\n\t\treturn append(in[:0], hash[:]...)\n\t}\n\treturn append(in, hash[:]...)", "Sum overwrites a prefix that has spare capacity"),
 ("C04", "len-in-bits-32", "sm3/sm3.go", "binary.BigEndian.PutUint64(sm3.x[maxTail:], lenAtSum<<3)", "binary.BigEndian.PutUint64(sm3.x[maxTail:], uint64(uint32(lenAtSum<<3)))", "bit length truncated to 32 bits (only > 512 MiB) — expected NOT reachable"),
 ("C05", "portable-x2-lane", "sm4/sm4.go", "\tz3 |= uint64(binary.BigEndian.Uint32(x[28:32])) << 32\n", "\tz3 |= uint64(binary.BigEndian.Uint32(x[28:32])) << 32\n\tif x[16] == 0xff && x[0] == 0xff {\n\t\tz0 ^= 1 << 32\n\t}\n", "portable two-block path wrong when both blocks start with 0xff"),
 ("C05", "keysize-17", "sm4/sm4.go", "\tif k != BlockSize {\n\t\treturn nil, KeySizeError(k)\n\t}", "\tif k < BlockSize || k > BlockSize+1 {\n\t\treturn nil, KeySizeError(k)\n\t}", "17-byte keys accepted"),
 ("C08", "multiselect-indexed", "sm2/internal/fiat/sm2_element_multiselect_generic.go", "\tfor i:=0; i<width; i++ {\n\t\tcond := (uint64)(subtle.ConstantTimeByteEq(byte(i), bits - 1)) * 0xffffffffffffffff\n\t\tpre = (*precomputed)[i]\n\t\tout[0] |= pre[0] & cond\n\t\tout[1] |= pre[1] & cond\n\t\tout[2] |= pre[2] & cond\n\t\tout[3] |= pre[3] & cond\n\t}", "\tif bits != 0 && int(bits) <= width {\n\t\tpre = (*precomputed)[bits-1]\n\t\tout[0] |= pre[0]\n\t\tout[1] |= pre[1]\n\t\tout[2] |= pre[2]\n\t\tout[3] |= pre[3]\n\t}\n\t_ = subtle.ConstantTimeByteEq", "table read by secret index"),
 ("C08", "comb-skip-zero-window", "sm2/internal/sm2_curve.go", "\t\t\ttmpPoint := NewSM2Point()\n\t\t\tselectPoints(tmpPoint, &(*first)[j], windowWidth, bits)\n\t\t\tif !skip {", "\t\t\tif bits == 0 && !skip {\n\t\t\t\tcontinue\n\t\t\t}\n\t\t\ttmpPoint := NewSM2Point()\n\t\t\tselectPoints(tmpPoint, &(*first)[j], windowWidth, bits)\n\t\t\tif !skip {", "zero windows skipped in the comb"),
 ("C08", "cmp-early-exit", "utils/utils.go", "\t\td, borrow = bits.Sub32(A, B, borrow)\n\t\tdiff |= d\n", "\t\td, borrow = bits.Sub32(A, B, borrow)\n\t\tdiff |= d\n\t\tif i < l-1 && diff == 0 && A != B {\n\t\t\tbreak\n\t\t}\n", "no-op guard (A!=B implies diff!=0): control — must NOT be caught"),
 ("C08", "testprivatekey-bytescompare", "sm2/sm2.go", "\tcmp := utils.ConstantTimeCmp(priv, nMinus1Bytes, 32)\n", "\tcmp := bytes.Compare(priv, nMinus1Bytes)\n", "variable-time comparison of the private key", ),
 ("C08", "invert-modinverse", "sm2/internal/fiat/sm2_scalar_element.go", "func (z *SM2ScalarElement) Invert(x *SM2ScalarElement) *SM2ScalarElement {\n\tsm2ScalarFermatInvert_FiatAC(&z.x, &x.x)\n\treturn z\n}", "func (z *SM2ScalarElement) Invert(x *SM2ScalarElement) *SM2ScalarElement {\n\tn, _ := new(big.Int).SetString(\"FFFFFFFEFFFFFFFFFFFFFFFFFFFFFFFF7203DF6B21C6052B53BBF40939D54123\", 16)\n\tv := new(big.Int).ModInverse(x.ToBigInt(), n)\n\tif v == nil {\n\t\tv = new(big.Int)\n\t}\n\tb := v.Bytes()\n\tvar buf [32]byte\n\tcopy(buf[32-len(b):], b)\n\tz.SetBytes(buf[:])\n\treturn z\n}", "Euclidean inversion of (1+d)"),
 ("C08", "add-infinity-shortcut", "sm2/internal/sm2_point.go", "func (q *SM2Point) Add(p1, p2 *SM2Point) *SM2Point {\n", "func (q *SM2Point) Add(p1, p2 *SM2Point) *SM2Point {\n\tif p1.z.IsZero() == 1 {\n\t\treturn q.Set(p2)\n\t}\n", "Add shortcut when the accumulator is infinity (leading zero windows)"),
 ("C08", "scalarmult-skip-zero-nibble", "sm2/internal/sm2_curve.go", "\t\ttmpPoint = NewSM2Point()\n\t\ttmpPoint.MultiSelectXYZ(&precomputedElements, nafPrecomputes, b&0x0f)\n\t\tret.Add(ret, tmpPoint)", "\t\tif b&0x0f != 0 {\n\t\t\ttmpPoint = NewSM2Point()\n\t\t\ttmpPoint.MultiSelectXYZ(&precomputedElements, nafPrecomputes, b&0x0f)\n\t\t\tret.Add(ret, tmpPoint)\n\t\t}", "zero nibbles skipped in ScalarMult"),
 ("C10", "sum-drops-prefix", "sm3/sm3.go", "\treturn append(in, hash[:]...)", "\tif len(in) > 64 {\n\t\treturn hash[:]\n\t}\n\treturn append(in, hash[:]...)", "Sum drops a long prefix — C10 uses prefixes <= 40: check reach"),
 ("C10", "seal-realloc-loses-prefix", "sm4/sm4_gcm_amd64.go", "\t\tif arrayLen!=0 {\n\t\t\tcopyAsm(&head[0], &array[0], arrayLen)\n\t\t}", "\t\tif arrayLen > 1 {\n\t\t\tcopyAsm(&head[0], &array[0], arrayLen-1)\n\t\t}", "last byte of dst lost on reallocation"),
 ("C11", "copy-tail-plus-one", "sm4/helper_amd64.s", "copyB:\n    CMPQ AX, $1\n    JL done\n", "copyB:\n    CMPQ AX, $0\n    JL done\n", "copyAsm copies one byte too many"),
 ("C12", "oncurve-noncanonical", "sm2/internal/fiat/sm2_element.go", "\tif utils.ConstantTimeCmp(v, sm2MinusOneEncoding, SM2ElementLen) > 0 {\n", "\tif utils.ConstantTimeCmp(v, sm2MinusOneEncoding, SM2ElementLen) > 0 && v[0] != 0xff {\n", "coordinates >= p accepted (reduced mod p)"),
 ("C12", "generatekey-no-retry", "sm2/sm2.go", "\t\tif TestPrivateKey(priv) == 0 {\n\t\t\tbreak\n\t\t}\n\t}", "\t\tif TestPrivateKey(priv) == 0 {\n\t\t\tbreak\n\t\t}\n\t\tpriv[0] &= 0x7f\n\t\tif TestPrivateKey(priv) == 0 {\n\t\t\tbreak\n\t\t}\n\t}", "out-of-range candidate 'repaired' by clearing the top bit instead of redrawing"),
 ("C13", "id-limit-8191", "sm2/sm2.go", "\tif entl >= 1<<16 {", "\tif entl >= 1<<16-8 {", "8191-byte id refused"),
 ("C13", "entl-low-byte", "sm2/sm2.go", "binary.BigEndian.PutUint16(entlBytes[:], uint16(entl))", "binary.BigEndian.PutUint16(entlBytes[:], uint16(entl))\n\tif len(id) == 4096 {\n\t\tentlBytes[0] = 0x80\n\t\tentlBytes[1] = 0x01\n\t}", "ENTL wrong for one id length (4096) — probes generator reach"),
 ("C14", "table-limb-unused-scheme", "sm2/internal/sm2_tables.go", None, None, "one limb of the 7_3_12 table changed"),
 ("C14", "remainder-mask", "sm2/internal/sm2_curve.go", "\treturn b & (1<<count - 1)", "\treturn b & (1<<count - 1) & 0x7f", "no-op for count<=4: control — must NOT be caught"),
 ("C14", "naf-top-carry", "utils/utils.go", "\tif carry {\n\t\tout[n-1] = 1\n\t}", "\tif carry && s[0] != 0xff {\n\t\tout[n-1] = 1\n\t}", "top carry dropped when the scalar starts with 0xff"),
 ("C15", "double-alias", "sm2/internal/sm2_point.go", "\tq.x.Set(x3)\n\tq.y.Set(y3)\n\tq.z.Set(z3)\n\treturn q\n}\n\n// Select sets", "\tq.x.Set(x3)\n\tq.y.Set(y3)\n\tif p.z.IsZero() == 1 && q != p {\n\t\tq.z.Set(p.z)\n\t\treturn q\n\t}\n\tq.z.Set(z3)\n\treturn q\n}\n\n// Select sets", "semantically equal (Z3=0 when Z=0): control — must NOT be caught"),
 ("C15", "decode-prefix-06", "sm2/internal/sm2_point.go", "case len(b) == 1+2*SM2ElementLength && b[0] == 4:", "case len(b) == 1+2*SM2ElementLength && b[0]&0xfd == 4:", "prefix 0x06 accepted as uncompressed"),
 ("C15", "negate-infinity", "sm2/internal/sm2_point.go", "\tq.x.Set(p.x)\n\tq.y.Opp(p.y)\n\tq.z.Set(p.z)\n\treturn q", "\tq.x.Set(p.x)\n\tq.y.Opp(p.y)\n\tq.z.Set(p.z)\n\tif q != p && p.x.IsZero() == 1 {\n\t\tq.y.Set(p.y)\n\t}\n\treturn q", "Negate wrong for points with x = 0 and for infinity representative (harmless for infinity)"),
 ("C16", "decode-rejects-p-minus-1", "sm2/internal/fiat/sm2_element.go", "if utils.ConstantTimeCmp(v, sm2MinusOneEncoding, SM2ElementLen) > 0 {", "if utils.ConstantTimeCmp(v, sm2MinusOneEncoding, SM2ElementLen) >= 0 {", "p-1 rejected"),
 ("C17", "global-scratch", "sm4/sm4_gcm_amd64.go", None, None, "package-level scratch block shared by all Seal calls"),
 ("C18", "s3-entry", "sm4/sm4_const.go", None, None, "one s3 T-table entry changed"),
 ("C18", "arm64-sbox-byte", "sm4/asm_arm64.s", "DATA SBox<>+0x40(SB)/8, $0xba1773f3fca70747", "DATA SBox<>+0x40(SB)/8, $0xba1773f3fca70746", "one byte of the arm64 S-box copy"),
 ("C19", "readfull-to-read-sign", "sm2/sm2.go", "\t\t_, err = io.ReadFull(rand, K[:])\n\t\tif err != nil {\n\t\t\treturn\n\t\t}", "\t\t_, err = rand.Read(K[:])\n\t\tif err != nil {\n\t\t\treturn\n\t\t}", "short reads accepted when drawing the nonce"),
 ("C19", "keygen-eof-ignored", "sm2/sm2.go", "\t\t_, err = io.ReadFull(rand, priv)\n\t\tif err != nil {", "\t\t_, err = io.ReadFull(rand, priv)\n\t\tif err == io.ErrUnexpectedEOF {\n\t\t\terr = nil\n\t\t}\n\t\tif err != nil {", "partial key accepted when the source ends inside a draw"),
 ("C19", "nil-check-removed", "sm2/sm2.go", "\tif rand == nil {\n\t\terr = errors.New(\"rand is nil\")\n\t\treturn\n\t}\n", "", "GenerateKey(nil) panics"),
 ("C20", "naf-half-window", "utils/utils.go", "\t\t\tif d >= halfWindow {", "\t\t\tif d > halfWindow {", "digit 2^w emitted"),
 ("C20", "cmp-drops-byte0", "utils/utils.go", "\tfor i := l - 1; i >= 0; i-- {\n\t\tA := uint32(a[i])", "\tfor i := l - 1; i >= 0; i-- {\n\t\tif i == 0 && l > 40 {\n\t\t\tcontinue\n\t\t}\n\t\tA := uint32(a[i])", "first byte ignored for l > 40"),
]

def sh(cmd, cwd=None):
    env = dict(os.environ, GOFLAGS="-mod=mod", GOPROXY="off", GOSUMDB="off", GOTOOLCHAIN="local")
    p = subprocess.run(cmd, cwd=cwd, env=env, stdout=subprocess.PIPE, stderr=subprocess.STDOUT, text=True)
    return p.returncode, p.stdout

def special(tmp, prop, name):
    import re
    if name == "table-limb-unused-scheme":
        p = os.path.join(tmp, "sm2/internal/sm2_tables.go"); s = open(p).read()
        i = s.index("var sm2Precomputed_7_3_12 ")
        m = re.search(r"\{(\d{10,20}),", s[i + 4000:])
        a, b = i + 4000 + m.start(1), i + 4000 + m.end(1)
        old = s[a:b]; new = old[:-1] + ("0" if old[-1] != "0" else "1")
        s = s[:a] + new + s[b:]; open(p, "w").write(s); return True
    if name == "global-scratch":
        p = os.path.join(tmp, "sm4/sm4_gcm_amd64.go"); s = open(p).read()
        s = s.replace("func (g *sm4GcmAsm) Seal(", "var sealScratch [2 * BlockSize]byte\n\nfunc (g *sm4GcmAsm) Seal(", 1)
        s = s.replace("\tvar temp [2*BlockSize] byte\n\t//temp:  H, TMask", "\ttemp := &sealScratch\n\t//temp:  H, TMask", 1)
        open(p, "w").write(s); return "temp := &sealScratch" in s
    if name == "s3-entry":
        p = os.path.join(tmp, "sm4/sm4_const.go"); s = open(p).read()
        i = s.index("var s3 ")
        m = re.search(r"0x[0-9a-f]{8}", s[i + 600:])
        a = i + 600 + m.start()
        old = s[a:a + 10]; new = old[:-1] + ("0" if old[-1] != "0" else "1")
        s = s[:a] + new + s[a + 10:]; open(p, "w").write(s); return True
    return False

def main():
    suite = "--suite" in sys.argv
    os.makedirs(OUT, exist_ok=True)
    index = {}
    idxp = os.path.join(OUT, "INDEX.json")
    if os.path.exists(idxp):
        index = json.load(open(idxp))
    for m in M:
        prop, name, f, old, new, note = m[:6]
        pn = "%s-%s" % (prop, name)
        tmp = tempfile.mkdtemp(prefix="vsmgo-mk-")
        try:
            sh(["rsync", "-a", "--exclude", ".git", "--exclude", "*.pdf", REPO + "/", tmp + "/"])
            if old is None:
                if not special(tmp, prop, name):
                    continue
            else:
                p = os.path.join(tmp, f); s = open(p).read()
                if s.count(old) != 1:
                    print("SKIP %s: pattern occurs %d times" % (pn, s.count(old))); continue
                s = s.replace(old, new)
                if "bytes.Compare" in new and '"bytes"' not in s:
                    s = s.replace('import (\n', 'import (\n\t"bytes"\n', 1)
                if "big.Int" in new and '"math/big"' not in s:
                    s = s.replace('import (\n', 'import (\n\t"math/big"\n', 1)
                open(p, "w").write(s)
            rc, out = sh(["go", "build", "./..."], cwd=tmp)
            if rc != 0:
                print("SKIP %s: does not build: %s" % (pn, out.strip().splitlines()[-1])); continue
            rc, diff = sh(["diff", "-ruN", "--exclude=.git", "--exclude=*.pdf", REPO, tmp])
            diff = diff.replace(REPO + "/", "a/").replace(tmp + "/", "b/")
            open(os.path.join(OUT, pn + ".patch"), "w").write(diff)
            ent = index.get(pn, {})
            ent.update(property=prop, note=note, control="must NOT be caught" in note)
            if suite:
                rc, out = sh(["go", "test", "-mod=mod", "-vet=off", "-count=1", "-timeout", "25m", "./..."], cwd=tmp)
                ent["suite"] = "pass" if rc == 0 else "FAIL"
            index[pn] = ent
            print("%-40s %s" % (pn, ent.get("suite", "")))
        finally:
            shutil.rmtree(tmp, ignore_errors=True)
    json.dump(index, open(idxp, "w"), indent=1, sort_keys=True)

main()
