#!/usr/bin/env python3
"""addfixed.py <property> <commit-subject-grep> <signature> <what failed> — append a 'fixed' entry to known_findings.json"""
import json, subprocess, sys
prop, grep, sig, what = sys.argv[1:5]
h = subprocess.check_output(["git", "-C", "/repo", "log", "--format=%h", "-n1", "--grep", grep], text=True).strip()
assert h, "commit not found"
p = "/verif/known_findings.json"
d = json.load(open(p))
d["findings"].append(dict(status="fixed", property=prop, commit=h, signature=sig, what=what,
                          line="fixed: property=%s %s %s" % (prop, h, what)))
json.dump(d, open(p, "w"), indent=1, ensure_ascii=False)
print("added", prop, h)
