// sm3wordsearch finds 64-byte blocks B for which the SM3 chaining value after compressing B from the IV has a chosen word equal to
// 0x00000000 or 0xffffffff (probability 2^-32 per block; found by brute force with the reference compression function). A hash state
// that contains such a word is indistinguishable, for code that uses a zero word as an "uninitialised" marker or mishandles an
// all-ones word, from a special state; no other message reaches it. The hits become the corpus vectors/sm3_state_words.json (C04).
//
// Usage: sm3wordsearch > vectors/sm3_state_words.json     (about 3 minutes per hit on 16 cores)
package main

import (
	"encoding/binary"
	"encoding/hex"
	"encoding/json"
	"fmt"
	"os"
	"runtime"
	"sync"
	"sync/atomic"

	"verif.local/ref/sm3ref"
)

type hit struct {
	Block string `json:"block"`
	Word  int    `json:"word"`
	Value string `json:"value"`
	State string `json:"state"`
}

func main() {
	targets := []struct {
		word int
		val  uint32
	}{{0, 0}, {7, 0}, {0, 0xffffffff}, {4, 0}}
	var out []hit
	for ti, tg := range targets {
		var found atomic.Bool
		var mu sync.Mutex
		var res hit
		var wg sync.WaitGroup
		for w := 0; w < runtime.NumCPU(); w++ {
			wg.Add(1)
			go func(w int) {
				defer wg.Done()
				var blk [64]byte
				copy(blk[:], fmt.Sprintf("verif sm3 state-word corpus, target %d, worker %02d ........", ti, w))
				for ctr := uint64(0); !found.Load(); ctr++ {
					binary.BigEndian.PutUint64(blk[56:], ctr)
					v := sm3ref.Compress(sm3ref.IV, blk[:])
					if v[tg.word] != tg.val {
						continue
					}
					mu.Lock()
					if !found.Load() {
						found.Store(true)
						var st [32]byte
						for i, x := range v {
							binary.BigEndian.PutUint32(st[4*i:], x)
						}
						res = hit{hex.EncodeToString(blk[:]), tg.word, fmt.Sprintf("%08x", tg.val), hex.EncodeToString(st[:])}
					}
					mu.Unlock()
				}
			}(w)
		}
		wg.Wait()
		fmt.Fprintf(os.Stderr, "target word %d = %08x: block %s\n", tg.word, tg.val, res.Block)
		out = append(out, res)
	}
	enc := json.NewEncoder(os.Stdout)
	enc.SetIndent("", " ")
	enc.Encode(map[string]interface{}{
		"source":  "tools/sm3wordsearch: blocks whose chaining value (from the IV, reference compression function) has one word equal to 00000000 / ffffffff",
		"vectors": out,
	})
}
