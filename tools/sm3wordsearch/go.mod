module verif.local/tools/sm3wordsearch

go 1.23

require verif.local/ref v0.0.0

replace verif.local/ref => ../../harness/ref
