#!/bin/bash
# runall.sh <tier> <seed> — run every check once; summary line per property
tier=${1:-quick}; seed=${2:-1}
for p in C01 C02 C03 C04 C05 C06 C07 C08 C09 C10 C11 C12 C13 C14 C15 C16 C17 C18 C19 C20; do
  s=$(date +%s)
  out=$(VERIF_SEED=$seed /verif/vcheck run $p $tier 2>&1); rc=$?
  echo "$p rc=$rc $(( $(date +%s)-s ))s $(echo "$out" | grep -c '^VIOLATION') violations; $(echo "$out" | grep -E 'seed=' | tail -1)"
  if [ $rc -ne 0 ]; then echo "$out" | tail -30; fi
done
