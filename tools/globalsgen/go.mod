module verif.local/globalsgen

go 1.23
