// divstepsearch builds inputs for which the Bernstein-Yang "divstep" iteration (the safegcd inversion present in the generated field
// code, sm2Divstep / sm2Inv) needs unusually MANY steps to finish: random and structured inputs need about 531 +- 10 steps (maximum
// seen over millions: 573), while the bound the code iterates to is 741. An implementation that iterates fewer times than some input
// needs returns garbage for exactly such inputs and for nothing else. The search is a beam search over the bits of g from the least
// significant end (the first k steps depend only on the low k bits). Output: vectors/divstep_slow.json.
//
// Usage: divstepsearch > vectors/divstep_slow.json   (a few seconds)
package main

import (
	"encoding/json"
	"fmt"
	"math/big"
	"os"
	"sort"
)

var moduli = map[string]string{
	"p": "FFFFFFFEFFFFFFFFFFFFFFFFFFFFFFFFFFFFFFFF00000000FFFFFFFFFFFFFFFF",
	"n": "FFFFFFFEFFFFFFFFFFFFFFFFFFFFFFFF7203DF6B21C6052B53BBF40939D54123",
}

// steps counts divsteps from (delta=1, f=m, g) until g == 0 (at most limit).
func steps(m, g *big.Int, limit int) int {
	delta := 1
	f := new(big.Int).Set(m)
	gg := new(big.Int).Set(g)
	n := 0
	for gg.Sign() != 0 && n < limit {
		if delta > 0 && gg.Bit(0) == 1 {
			delta = 1 - delta
			nf := new(big.Int).Set(gg)
			gg.Sub(gg, f).Rsh(gg, 1)
			f = nf
		} else {
			delta = 1 + delta
			if gg.Bit(0) == 1 {
				gg.Add(gg, f)
			}
			gg.Rsh(gg, 1)
		}
		n++
	}
	return n
}

// potential runs k divsteps on (p, g) and returns bitlen|f|+bitlen|g| afterwards: the larger, the less progress the first k steps
// (which depend on the low k bits of g only) have made.
func potential(m, g *big.Int, k int) int {
	delta := 1
	f := new(big.Int).Set(m)
	gg := new(big.Int).Set(g)
	for n := 0; n < k && gg.Sign() != 0; n++ {
		if delta > 0 && gg.Bit(0) == 1 {
			delta = 1 - delta
			nf := new(big.Int).Set(gg)
			gg.Sub(gg, f).Rsh(gg, 1)
			f = nf
		} else {
			delta = 1 + delta
			if gg.Bit(0) == 1 {
				gg.Add(gg, f)
			}
			gg.Rsh(gg, 1)
		}
	}
	return f.BitLen() + gg.BitLen()
}

type cand struct {
	g    *big.Int
	n, s int
}

type out struct {
	M     string `json:"modulus"`
	G     string `json:"g"`
	Steps int    `json:"divsteps"`
}

func main() {
	var vs []out
	for _, name := range []string{"p", "n"} {
		P, _ := new(big.Int).SetString(moduli[name], 16)
		vs = append(vs, search(name, P)...)
	}
	enc := json.NewEncoder(os.Stdout)
	enc.SetIndent("", " ")
	enc.Encode(map[string]interface{}{"source": "tools/divstepsearch: beam search (potential bitlen|f|+bitlen|g| after the steps fixed so far) plus hill climbing, for residues g of the SM2 field prime p and group order n whose divstep iteration (delta=1, f=modulus, g) is slow to finish; uniformly random values need 531 +- 10 steps", "vectors": vs})
}

func search(name string, P *big.Int) []out {
	var found []cand
	fillers := []string{
		"6a09e667f3bcc908b2fb1366ea957d3e3adec17512775099da2f590b0667322a",
		"243f6a8885a308d313198a2e03707344a4093822299f31d0082efa98ec4e6c89",
		"b7e151628aed2a6abf7158809cf4f3c762e7160f38b4da56a784d9045190cfef",
		"9e3779b97f4a7c15f39cc0605cedc8341082276bf3a27251f86c6a11d0c18e95",
	}
	for fi, fs := range fillers {
		filler, _ := new(big.Int).SetString(fs, 16)
		beam := []cand{{new(big.Int).Set(filler), 0, 0}}
		width := 1024 // the wider the beam the slower the inputs found: 192 gives 591..599 steps, 1024 gives 605..617
		if fi%2 == 1 {
			width = 192
		}
		for bit := 0; bit < 236; bit++ {
			var next []cand
			for _, c := range beam {
				for b := uint(0); b < 2; b++ {
					g := new(big.Int).Set(c.g)
					g.SetBit(g, bit, b)
					if g.Cmp(P) >= 0 || g.Sign() == 0 {
						continue
					}
					next = append(next, cand{g, 0, potential(P, g, bit+1)})
				}
			}
			sort.SliceStable(next, func(i, j int) bool { return next[i].s > next[j].s })
			if len(next) > width {
				next = next[:width]
			}
			beam = next
		}
		for i := range beam {
			beam[i].n = steps(P, beam[i].g, 2000)
		}
		sort.SliceStable(beam, func(i, j int) bool { return beam[i].n > beam[j].n })
		// hill climbing on the best few: single-bit flips that lengthen the iteration
		for _, c := range beam[:6] {
			improved := true
			for improved {
				improved = false
				for bit := 0; bit < 256; bit++ {
					g := new(big.Int).Set(c.g)
					g.SetBit(g, bit, g.Bit(bit)^1)
					if g.Cmp(P) >= 0 || g.Sign() == 0 {
						continue
					}
					if n := steps(P, g, 2000); n > c.n {
						c.g, c.n, improved = g, n, true
					}
				}
			}
			found = append(found, c)
		}
	}
	sort.SliceStable(found, func(i, j int) bool { return found[i].n > found[j].n })
	var vs []out
	seen := map[string]bool{}
	for _, c := range found {
		k := fmt.Sprintf("%064x", c.g)
		if !seen[k] && len(vs) < 32 {
			seen[k] = true
			vs = append(vs, out{name, k, c.n})
		}
	}
	fmt.Fprintf(os.Stderr, "%s: best %d steps, worst kept %d steps\n", name, vs[0].Steps, vs[len(vs)-1].Steps)
	return vs
}
