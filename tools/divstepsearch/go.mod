module verif.local/tools/divstepsearch

go 1.23
