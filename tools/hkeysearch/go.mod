module verif.local/tools/hkeysearch

go 1.23

require (
	github.com/bilibili/smgo v0.0.0
	verif.local/ref v0.0.0
)

require github.com/klauspost/cpuid/v2 v2.0.10 // indirect

replace github.com/bilibili/smgo => /repo

replace verif.local/ref => /verif/harness/ref
