#!/bin/bash
# run.sh — regenerate the hits for vectors/sm4_hashkey_words.json (a few minutes on 16 cores). Prints HIT lines; see main.go for the
# slower stand-alone variant that needs no scratch copy.
export GOFLAGS=-mod=mod GOPROXY=off GOSUMDB=off GOTOOLCHAIN=local
T=$(mktemp -d /tmp/hk-XXXX); rsync -a --exclude .git ${VERIF_REPO:-/repo}/ $T/
cp "$(dirname "$0")/inpackage_search_test.go.txt" $T/sm4/zz_hkeysearch_test.go
(cd $T && go test -vet=off -count=1 -timeout 60m -run TestHashKeySearch -v ./sm4/ | grep HIT | sort -u)
rm -rf $T
