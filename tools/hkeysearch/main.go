// hkeysearch finds SM4 keys whose GCM hash subkey H = SM4_K(0^128) has a 32-bit word equal to 00000000 or ffffffff (2^-32 per key
// and word): code that tests a word of H — "is the cached subkey initialised?", "is this limb zero?" — behaves differently for such
// keys only, and no choice of nonce, data or GHASH state reaches that. The search uses the library's own (fast) block function and
// confirms every hit with the independent reference cipher. Output: vectors/sm4_hashkey_words.json.
//
// Usage: hkeysearch > vectors/sm4_hashkey_words.json   (a few minutes on 16 cores)
package main

import (
	"encoding/binary"
	"encoding/hex"
	"encoding/json"
	"fmt"
	"os"
	"runtime"
	"sync"
	"sync/atomic"

	"github.com/bilibili/smgo/sm4"
	"verif.local/ref/sm4ref"
)

type hit struct {
	Key  string `json:"key"`
	H    string `json:"h"`
	Word int    `json:"word"`
	Val  string `json:"value"`
}

func main() {
	want := map[string]bool{"0:00000000": true, "0:ffffffff": true, "3:00000000": true, "1:00000000": true}
	var mu sync.Mutex
	var hits []hit
	var done atomic.Bool
	workers := runtime.NumCPU()
	var wg sync.WaitGroup
	for w := 0; w < workers; w++ {
		wg.Add(1)
		go func(w int) {
			defer wg.Done()
			key := []byte("verif-hkey-\x00\x00\x00\x00\x00")
			key[11] = byte(w)
			zero := make([]byte, 16)
			out := make([]byte, 16)
			for c := uint32(0); !done.Load(); c++ {
				binary.BigEndian.PutUint32(key[12:], c)
				b, _ := sm4.NewCipher(key)
				b.Encrypt(out, zero)
				for word := 0; word < 4; word++ {
					v := binary.BigEndian.Uint32(out[4*word:])
					if v != 0 && v != 0xffffffff {
						continue
					}
					id := fmt.Sprintf("%d:%08x", word, v)
					mu.Lock()
					if want[id] {
						chk := make([]byte, 16)
						sm4ref.New(key).Encrypt(chk, zero)
						if hex.EncodeToString(chk) == hex.EncodeToString(out) {
							delete(want, id)
							hits = append(hits, hit{hex.EncodeToString(key), hex.EncodeToString(out), word, fmt.Sprintf("%08x", v)})
							fmt.Fprintf(os.Stderr, "hit %s key %x H %x (%d left)\n", id, key, out, len(want))
						}
						if len(want) == 0 {
							done.Store(true)
						}
					}
					mu.Unlock()
				}
				if c == 0xffffffff {
					return
				}
			}
		}(w)
	}
	wg.Wait()
	enc := json.NewEncoder(os.Stdout)
	enc.SetIndent("", " ")
	enc.Encode(map[string]interface{}{"source": "tools/hkeysearch: SM4 keys whose GCM hash subkey H = SM4_K(0^128) has a word equal to 00000000 / ffffffff (library block function for the search, every hit confirmed by the reference cipher)", "vectors": hits})
}
