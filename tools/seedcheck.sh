#!/bin/bash
# seedcheck.sh <PROP> [name] — verify a sub-agent's seeded change in its own worktree (/tmp/seed/wt-<PROP>, out in /tmp/seed/out-<PROP>),
# run our quick (and optionally thorough) check against it, and file it under /verif/seeded/<name>/.
export GOFLAGS=-mod=mod GOPROXY=off GOSUMDB=off GOTOOLCHAIN=local
P=$1; NAME=${2:-$P-agent1}; WT=${WT:-/tmp/seed/wt-$P}; OUT=${OUT:-/tmp/seed/out-$P}
cd $WT || exit 2
git checkout -q -- . ; git clean -fdq
git apply --check $OUT/patch.diff || { echo "PATCH does not apply"; exit 2; }
DEMO=$(python3 -c "import json;print(json.load(open('$OUT/meta.json'))['demo_cmd'])")
echo "demo_cmd: $DEMO"
# without patch: demo must pass
( eval "$DEMO" ) > /tmp/seed/$NAME.nopatch.log 2>&1; rc0=$?
git clean -fdq
git apply $OUT/patch.diff
go build ./... ; b=$?
go test -mod=mod -vet=off -count=1 -timeout 25m ./... > /tmp/seed/$NAME.suite.log 2>&1; s=$?
( eval "$DEMO" ) > /tmp/seed/$NAME.patch.log 2>&1; rc1=$?
git checkout -q -- . ; git clean -fdq; git apply $OUT/patch.diff   # re-apply: the patch may add new files that the clean-up removes
echo "builds=$b suite=$s demo_without_patch=$rc0 demo_with_patch=$rc1"
# our check against the patched tree
TIER=${TIER:-quick}
VERIF_REPO=$WT VERIF_EVIDENCE_SKIP=1 VERIF_REPLAYS=/tmp/seed/replays-$NAME /verif/vcheck run $P $TIER > /tmp/seed/$NAME.vcheck.log 2>&1; v=$?
echo "vcheck $P $TIER rc=$v  $(grep -c '^VIOLATION' /tmp/seed/$NAME.vcheck.log) VIOLATION lines; signatures: $(grep -o 'VERIF-SIG: [^ ]*' /tmp/seed/$NAME.vcheck.log | sort -u | head -5 | tr '\n' ' ')"
git checkout -q -- . ; git clean -fdq
if [ $b -eq 0 ] && [ $s -eq 0 ] && [ $rc0 -eq 0 ] && [ $rc1 -ne 0 ]; then
  mkdir -p /verif/seeded/$NAME
  cp $OUT/patch.diff /verif/seeded/$NAME/patch.diff
  for f in $OUT/demo*; do cp -r $f /verif/seeded/$NAME/; done
  python3 - <<PY
import json
m=json.load(open("$OUT/meta.json"))
m["property"]="$P"
m["confirmed_by_me"]={"builds":True,"existing_suite_passes":True,"demo_passes_without_patch":True,"demo_fails_with_patch":True,
  "how":"tools/seedcheck.sh: git apply in a scratch worktree, go build ./..., go test -mod=mod -vet=off -count=1 ./..., demo_cmd with and without the patch"}
m["our_check"]={"tier":"$TIER","exit":$v,"caught": $v==1}
json.dump(m,open("/verif/seeded/$NAME/meta.json","w"),indent=1)
PY
  echo "FILED /verif/seeded/$NAME (caught=$([ $v -eq 1 ] && echo yes || echo NO))"
else
  echo "NOT KEPT: change does not satisfy the requirements"
fi
