// asmtrace runs a child process under ptrace, single-steps every call of the selected assembly
// routines and records, per executed instruction, its address and the effective address of each of its
// memory operands (decoded from `objdump -d`). Calls are labelled by a plan (one entry per call, in
// order) with a group key; within a group all traces must be identical.
//
// usage: asmtrace -bin <test binary> -plan <plan.json> -out <result.json> -- <child args...>
//
// The child must perform exactly the calls listed in the plan, in that order, on one locked OS thread.
package main

import (
	"bufio"
	"debug/elf"
	"encoding/json"
	"flag"
	"fmt"
	"os"
	"os/exec"
	"regexp"
	"runtime"
	"sort"
	"strconv"
	"strings"
	"syscall"
)

type planEntry struct {
	Routine    string   `json:"routine"`     // short symbol name, e.g. sealAsm
	Group      string   `json:"group"`       // traces of one group must be identical
	Label      string   `json:"label"`       // what varies (for reports)
	RangeNames []string `json:"range_names"` // -bounds: names of the ranges the child announces before this call
}

type memOp struct {
	disp        int64
	base, index string
	scale       uint64
	ripRel      bool
	vectorIndex bool
	size        int  // bytes accessed (-bounds); 1 when the instruction is not in the size table (only the first byte is judged)
	known       bool // size comes from the table
	elem        int  // element size of a masked vector access
	mask        int  // opmask register number of a masked access, -1 if none
}

type memRange struct {
	addr, n uint64
	name    string
}

type boundsViolation struct {
	Routine string `json:"routine"`
	Offset  uint64 `json:"offset"`
	Insn    string `json:"instruction"`
	Addr    uint64 `json:"address"`
	Size    int    `json:"size"`
	Where   string `json:"where"`
	Label   string `json:"label"`
	Call    int    `json:"call"`
}

type insn struct {
	addr uint64
	text string
	mem  []memOp
}

type symInfo struct {
	name       string
	start, end uint64
	insns      map[uint64]*insn
}

type step struct {
	rip uint64
	eas [3]uint64
	n   int
}

type groupState struct {
	first      []step
	firstLabel string
	firstHash  uint64
	count      int
	steps      int
	Mismatch   *mismatch
}

type mismatch struct {
	Group, LabelA, LabelB string
	StepsA, StepsB        int
	At                    int
	What                  string
}

var memRe = regexp.MustCompile(`(%[a-z]s:)?(-?0x[0-9a-f]+|-?[0-9]+)?\((%[a-z0-9]+)?(?:,(%[a-z0-9]+))?(?:,([1248]))?\)`)

func parseObjdump(bin string, s *symInfo) error {
	cmd := exec.Command("objdump", "-d", "--no-show-raw-insn", "--insn-width=16",
		fmt.Sprintf("--start-address=%#x", s.start), fmt.Sprintf("--stop-address=%#x", s.end), bin)
	out, err := cmd.Output()
	if err != nil {
		return fmt.Errorf("objdump: %v", err)
	}
	s.insns = map[uint64]*insn{}
	sc := bufio.NewScanner(strings.NewReader(string(out)))
	sc.Buffer(make([]byte, 1<<20), 1<<20)
	for sc.Scan() {
		line := sc.Text()
		i := strings.Index(line, ":\t")
		if i < 0 {
			continue
		}
		a, err := strconv.ParseUint(strings.TrimSpace(line[:i]), 16, 64)
		if err != nil {
			continue
		}
		text := strings.TrimSpace(line[i+2:])
		if j := strings.Index(text, "#"); j >= 0 {
			text = strings.TrimSpace(text[:j])
		}
		in := &insn{addr: a, text: text}
		mn := strings.Fields(text)
		if len(mn) > 0 && !strings.HasPrefix(mn[0], "lea") && !strings.HasPrefix(mn[0], "nop") && !strings.HasPrefix(mn[0], "prefetch") {
			ops := strings.TrimSpace(strings.TrimPrefix(text, mn[0]))
			for _, m := range memRe.FindAllStringSubmatch(ops, -1) {
				if m[1] != "" {
					continue // segment relative
				}
				var op memOp
				if m[2] != "" {
					op.disp, _ = strconv.ParseInt(m[2], 0, 64)
				}
				op.base, op.index = strings.TrimPrefix(m[3], "%"), strings.TrimPrefix(m[4], "%")
				op.scale = 1
				if m[5] != "" {
					op.scale, _ = strconv.ParseUint(m[5], 10, 64)
				}
				if op.base == "rip" {
					op.ripRel = true
				}
				if strings.HasPrefix(op.index, "xmm") || strings.HasPrefix(op.index, "ymm") || strings.HasPrefix(op.index, "zmm") {
					op.vectorIndex = true
				}
				op.size, op.elem, op.known = accessSize(mn[0], ops)
				op.mask = -1
				if k := maskRe.FindStringSubmatch(ops); k != nil {
					op.mask = int(k[1][0] - '0')
				}
				in.mem = append(in.mem, op)
			}
		}
		s.insns[a] = in
	}
	if len(s.insns) == 0 {
		return fmt.Errorf("objdump produced no instructions for %s", s.name)
	}
	return nil
}

var (
	maskRe = regexp.MustCompile(`\{%k([0-7])\}`)
	vregRe = regexp.MustCompile(`%([xyz])mm[0-9]+`)
	gprRe  = regexp.MustCompile(`%(r[a-d]x|r[sd]i|r[sb]p|r[0-9]+|e[a-d]x|e[sd]i|e[sb]p|r[0-9]+d|[a-d]x|[sd]i|[sb]p|r[0-9]+w|[a-d]l|[a-d]h|[sd]il|[sb]pl|r[0-9]+b)\b`)
)

// accessSize returns the number of bytes the memory operand of the instruction covers (and the element size for masked vector
// moves). Only the forms that occur in the sm4 assembly are tabulated; anything else is reported as not known (1 byte judged).
func accessSize(mn, ops string) (size, elem int, known bool) {
	// strip memory operands so that address registers are not mistaken for data registers
	data := memRe.ReplaceAllString(ops, "")
	vec := 0
	for _, m := range vregRe.FindAllStringSubmatch(data, -1) {
		w := map[string]int{"x": 16, "y": 32, "z": 64}[m[1]]
		if w > vec {
			vec = w
		}
	}
	switch {
	case strings.HasPrefix(mn, "vbroadcasti32x2"), strings.HasPrefix(mn, "vbroadcastf32x2"):
		return 8, 4, true
	case strings.HasPrefix(mn, "vbroadcasti32x4"), strings.HasPrefix(mn, "vbroadcastf32x4"), strings.HasPrefix(mn, "vbroadcasti64x2"), strings.HasPrefix(mn, "vbroadcasti128"):
		return 16, 4, true
	case strings.HasPrefix(mn, "vbroadcasti32x8"), strings.HasPrefix(mn, "vbroadcasti64x4"):
		return 32, 4, true
	case mn == "vpbroadcastd" || mn == "vbroadcastss" || mn == "movd" || mn == "vmovd":
		return 4, 4, true
	case mn == "vpbroadcastq" || mn == "movq" || mn == "vmovq":
		return 8, 8, true
	case strings.HasPrefix(mn, "vmovdq") || strings.HasPrefix(mn, "vmovup") || strings.HasPrefix(mn, "vmovap") || mn == "movdqu" || mn == "movdqa" || mn == "movups" || mn == "movaps":
		if vec == 0 {
			return 1, 1, false
		}
		e := 1
		switch {
		case strings.HasSuffix(mn, "64"):
			e = 8
		case strings.HasSuffix(mn, "32"), strings.HasSuffix(mn, "ps"):
			e = 4
		case strings.HasSuffix(mn, "16"):
			e = 2
		}
		return vec, e, true
	}
	if vec != 0 && strings.HasPrefix(mn, "v") {
		// a vector arithmetic instruction with a full-width memory source (embedded broadcasts are not used by this code)
		if strings.Contains(ops, "{1to") {
			return 1, 1, false
		}
		return vec, 1, true
	}
	for _, base := range []string{"mov", "xor", "add", "sub", "and", "or", "cmp", "test", "adc", "sbb", "inc", "dec", "not", "neg", "xchg", "bswap", "shl", "shr", "rol", "ror", "movzb", "movzw", "movsb", "movsw"} {
		if !strings.HasPrefix(mn, base) {
			continue
		}
		suf := strings.TrimPrefix(mn, base)
		if strings.HasPrefix(base, "movz") || strings.HasPrefix(base, "movs") {
			if strings.HasSuffix(base, "b") {
				return 1, 1, true
			}
			return 2, 2, true
		}
		switch suf {
		case "b":
			return 1, 1, true
		case "w":
			return 2, 2, true
		case "l":
			return 4, 4, true
		case "q":
			return 8, 8, true
		case "":
			if g := gprRe.FindStringSubmatch(data); g != nil {
				if n := gprSize(g[1]); n != 0 {
					return n, n, true
				}
			}
		}
	}
	return 1, 1, false
}

func gprSize(r string) int {
	switch r {
	case "rax", "rbx", "rcx", "rdx", "rsi", "rdi", "rbp", "rsp":
		return 8
	case "eax", "ebx", "ecx", "edx", "esi", "edi", "ebp", "esp":
		return 4
	case "ax", "bx", "cx", "dx", "si", "di", "bp", "sp":
		return 2
	case "al", "bl", "cl", "dl", "ah", "bh", "ch", "dh", "sil", "dil", "bpl", "spl":
		return 1
	}
	if strings.HasPrefix(r, "r") {
		switch {
		case strings.HasSuffix(r, "d"):
			return 4
		case strings.HasSuffix(r, "w"):
			return 2
		case strings.HasSuffix(r, "b"):
			return 1
		default:
			return 8
		}
	}
	return 0
}

func reg(r *syscall.PtraceRegs, name string) (uint64, bool) {
	switch name {
	case "":
		return 0, true
	case "rax":
		return r.Rax, true
	case "rbx":
		return r.Rbx, true
	case "rcx":
		return r.Rcx, true
	case "rdx":
		return r.Rdx, true
	case "rsi":
		return r.Rsi, true
	case "rdi":
		return r.Rdi, true
	case "rbp":
		return r.Rbp, true
	case "rsp":
		return r.Rsp, true
	case "r8":
		return r.R8, true
	case "r9":
		return r.R9, true
	case "r10":
		return r.R10, true
	case "r11":
		return r.R11, true
	case "r12":
		return r.R12, true
	case "r13":
		return r.R13, true
	case "r14":
		return r.R14, true
	case "r15":
		return r.R15, true
	}
	return 0, false
}

func fnv(h uint64, v uint64) uint64 {
	for i := 0; i < 8; i++ {
		h = (h ^ (v >> uint(8*i) & 0xff)) * 1099511628211
	}
	return h
}

func hashSteps(st []step) uint64 {
	h := uint64(14695981039346656037)
	for _, s := range st {
		h = fnv(h, s.rip)
		for i := 0; i < s.n; i++ {
			h = fnv(h, s.eas[i])
		}
	}
	return h
}

func fatal(format string, a ...interface{}) {
	fmt.Fprintf(os.Stderr, "asmtrace: "+format+"\n", a...)
	os.Exit(2)
}

func main() {
	bin := flag.String("bin", "", "child binary")
	planPath := flag.String("plan", "", "plan JSON")
	outPath := flag.String("out", "", "result JSON")
	bounds := flag.Bool("bounds", false, "check every memory access of the traced routines against the ranges the child announces through sm4.verifC11Mark")
	flag.Parse()
	runtime.LockOSThread()
	var plan []planEntry
	pb, err := os.ReadFile(*planPath)
	if err != nil {
		fatal("%v", err)
	}
	if err := json.Unmarshal(pb, &plan); err != nil {
		fatal("plan: %v", err)
	}
	// symbols
	ef, err := elf.Open(*bin)
	if err != nil {
		fatal("%v", err)
	}
	esyms, err := ef.Symbols()
	if err != nil {
		fatal("symbols: %v", err)
	}
	want := map[string]bool{}
	for _, p := range plan {
		want[p.Routine] = true
	}
	syms := map[string]*symInfo{}
	byAddr := map[uint64]*symInfo{}
	for _, s := range esyms {
		for w := range want {
			if strings.HasSuffix(s.Name, "/sm4."+w+".abi0") {
				si := &symInfo{name: w, start: s.Value, end: s.Value + s.Size}
				syms[w] = si
			}
		}
	}
	var markAddr uint64
	koff := 0
	var static []memRange // the binary's own static data (constant tables of the assembly live there)
	if *bounds {
		for _, sec := range ef.Sections {
			if sec.Flags&elf.SHF_ALLOC != 0 && sec.Flags&elf.SHF_EXECINSTR == 0 && sec.Size > 0 {
				static = append(static, memRange{addr: sec.Addr, n: sec.Size, name: sec.Name})
			}
		}
		for _, s := range esyms {
			if strings.HasSuffix(s.Name, "/sm4.verifC11Mark") {
				markAddr = s.Value
			}
		}
		if markAddr == 0 {
			fatal("symbol sm4.verifC11Mark not found in %s", *bin)
		}
		var err error
		if koff, err = opmaskOffset(); err != nil {
			fatal("%v", err)
		}
	}
	for w := range want {
		si, ok := syms[w]
		if !ok {
			fatal("symbol for routine %s not found in %s", w, *bin)
		}
		if err := parseObjdump(*bin, si); err != nil {
			fatal("%v", err)
		}
		byAddr[si.start] = si
	}
	// start the child
	attr := &syscall.ProcAttr{Files: []uintptr{0, 1, 2}, Env: os.Environ(), Sys: &syscall.SysProcAttr{Ptrace: true}}
	args := append([]string{*bin}, flag.Args()...)
	pid, err := syscall.ForkExec(*bin, args, attr)
	if err != nil {
		fatal("fork: %v", err)
	}
	var ws syscall.WaitStatus
	if _, err := syscall.Wait4(pid, &ws, syscall.WALL, nil); err != nil || !ws.Stopped() {
		fatal("initial wait: %v %v", err, ws)
	}
	if err := syscall.PtraceSetOptions(pid, syscall.PTRACE_O_TRACECLONE|0x100000 /* EXITKILL */); err != nil {
		fatal("setoptions: %v", err)
	}
	orig := map[uint64]byte{}
	setBP := func(addr uint64) {
		var b [1]byte
		if _, err := syscall.PtracePeekText(pid, uintptr(addr), b[:]); err != nil {
			fatal("peek %#x: %v", addr, err)
		}
		if b[0] != 0xCC {
			orig[addr] = b[0]
		}
		if _, err := syscall.PtracePokeText(pid, uintptr(addr), []byte{0xCC}); err != nil {
			fatal("poke %#x: %v", addr, err)
		}
	}
	clearBP := func(addr uint64) {
		if _, err := syscall.PtracePokeText(pid, uintptr(addr), []byte{orig[addr]}); err != nil {
			fatal("poke %#x: %v", addr, err)
		}
	}
	for a := range byAddr {
		setBP(a)
	}
	if *bounds {
		setBP(markAddr)
	}
	var allowed []memRange
	var announced bool
	var violations []boundsViolation
	checked, maskedSeen := 0, 0
	unjudged := map[string]bool{}
	peek := func(tid int, addr uint64, n int) []byte {
		b := make([]byte, n)
		if _, err := syscall.PtracePeekData(tid, uintptr(addr), b); err != nil {
			fatal("peek data %#x: %v", addr, err)
		}
		return b
	}
	groups := map[string]*groupState{}
	var order []string
	next := 0
	totalSteps := 0
	suppressed := 0
	vectorIndexed := map[string]bool{}
	alive := map[int]bool{pid: true}
	cont := func(tid, sig int) { syscall.PtraceCont(tid, sig) }
	cont(pid, 0)
	// wait for an event of any thread; returns (tid, status)
	waitAny := func() (int, syscall.WaitStatus) {
		var s syscall.WaitStatus
		tid, err := syscall.Wait4(-1, &s, syscall.WALL, nil)
		if err != nil {
			fatal("wait4: %v", err)
		}
		return tid, s
	}
	exited := false
	exitCode := 0
	for !exited {
		tid, s := waitAny()
		switch {
		case s.Exited() || s.Signaled():
			delete(alive, tid)
			if tid == pid {
				exited = true
				exitCode = s.ExitStatus()
			}
			continue
		case !s.Stopped():
			continue
		}
		sig := s.StopSignal()
		if sig == syscall.SIGTRAP && s.TrapCause() == syscall.PTRACE_EVENT_CLONE {
			cont(tid, 0)
			continue
		}
		if !alive[tid] {
			alive[tid] = true // new thread: initial SIGSTOP
			if sig == syscall.SIGSTOP {
				cont(tid, 0)
				continue
			}
		}
		if sig != syscall.SIGTRAP {
			cont(tid, int(sig)) // pass the signal on
			continue
		}
		var regs syscall.PtraceRegs
		if err := syscall.PtraceGetRegs(tid, &regs); err != nil {
			fatal("getregs: %v", err)
		}
		if *bounds && regs.Rip-1 == markAddr {
			// the child announces the ranges the next traced call may touch: RAX = table of (addr,len) pairs, RBX = count
			n := int(regs.Rbx)
			if n < 0 || n > 64 {
				fatal("verifC11Mark called with count %d", n)
			}
			raw := peek(tid, regs.Rax, 16*n)
			allowed = allowed[:0]
			for i := 0; i < n; i++ {
				var a, l uint64
				for j := 7; j >= 0; j-- {
					a = a<<8 | uint64(raw[16*i+j])
					l = l<<8 | uint64(raw[16*i+8+j])
				}
				allowed = append(allowed, memRange{addr: a, n: l})
			}
			announced = true
			// step over the breakpoint: restore the byte, single-step, re-arm
			regs.Rip--
			if err := syscall.PtraceSetRegs(tid, &regs); err != nil {
				fatal("setregs: %v", err)
			}
			clearBP(markAddr)
			if err := syscall.PtraceSingleStep(tid); err != nil {
				fatal("singlestep: %v", err)
			}
			for {
				t2, s2 := waitAny()
				if t2 == tid {
					break
				}
				if s2.Stopped() {
					sg := s2.StopSignal()
					if !alive[t2] {
						alive[t2] = true
						cont(t2, 0)
					} else if sg == syscall.SIGTRAP {
						cont(t2, 0)
					} else {
						cont(t2, int(sg))
					}
				} else if s2.Exited() || s2.Signaled() {
					delete(alive, t2)
				}
			}
			setBP(markAddr)
			cont(tid, 0)
			continue
		}
		si, ok := byAddr[regs.Rip-1]
		if !ok {
			cont(tid, 0) // a trap that is not ours
			continue
		}
		if next >= len(plan) {
			fatal("child made more traced calls than the plan has entries (%d)", len(plan))
		}
		entry := plan[next]
		next++
		if entry.Routine != si.name {
			fatal("plan entry %d expects %s but the child called %s", next-1, entry.Routine, si.name)
		}
		if *bounds {
			if !announced {
				fatal("call %d (%s) was not preceded by verifC11Mark", next-1, si.name)
			}
			announced = false
			for i := range allowed {
				allowed[i].name = fmt.Sprintf("range#%d", i)
				if i < len(entry.RangeNames) {
					allowed[i].name = entry.RangeNames[i]
				}
			}
		}
		// step through the routine
		regs.Rip--
		entryRsp := regs.Rsp
		if err := syscall.PtraceSetRegs(tid, &regs); err != nil {
			fatal("setregs: %v", err)
		}
		clearBP(si.start)
		var st []step
		first := true
		for {
			if regs.Rip < si.start || regs.Rip >= si.end {
				break
			}
			in := si.insns[regs.Rip]
			cur := step{rip: regs.Rip - si.start}
			if in == nil {
				fatal("no disassembly for %#x in %s", regs.Rip, si.name)
			}
			for _, m := range in.mem {
				if m.ripRel {
					continue
				}
				if m.vectorIndex {
					vectorIndexed[fmt.Sprintf("%s+%#x: %s", si.name, cur.rip, in.text)] = true
					continue
				}
				b, ok1 := reg(&regs, m.base)
				x, ok2 := reg(&regs, m.index)
				if !ok1 || !ok2 {
					fatal("cannot evaluate operand of %q", in.text)
				}
				ea := b + x*m.scale + uint64(m.disp)
				if *bounds {
					lo, hi := ea, ea+uint64(m.size)
					if !m.known {
						unjudged[strings.Fields(in.text)[0]] = true
					}
					skip := false
					if m.mask >= 0 {
						maskedSeen++
						kv, err := readOpmask(tid, koff, m.mask)
						if err != nil {
							fatal("%v", err)
						}
						lanes := m.size / m.elem
						first, last := -1, -1
						for l := 0; l < lanes; l++ {
							if kv>>uint(l)&1 == 1 {
								if first < 0 {
									first = l
								}
								last = l
							}
						}
						if first < 0 {
							skip = true // no lane enabled: no access
						} else {
							lo, hi = ea+uint64(first*m.elem), ea+uint64((last+1)*m.elem)
						}
					}
					// the routine's own frame and its stack arguments: from the current stack pointer up to a little above the entry one
					if onStack := ea+8 >= regs.Rsp && ea < entryRsp+512; !skip && !onStack {
						checked++
						ok := false
						for _, r := range static {
							if lo >= r.addr && hi <= r.addr+r.n {
								ok = true
								break
							}
						}
						for _, r := range allowed {
							if lo >= r.addr && hi <= r.addr+r.n {
								ok = true
								break
							}
						}
						if !ok && len(violations) < 20 {
							where := "not near any announced range"
							best := int64(1 << 62)
							for _, r := range allowed {
								for _, c := range []struct {
									d int64
									s string
								}{{int64(hi) - int64(r.addr+r.n), "bytes past the end of"}, {int64(r.addr) - int64(lo), "bytes before the start of"}} {
									if c.d > 0 && c.d < best && c.d < 4096 {
										best = c.d
										where = fmt.Sprintf("reaches %d %s %s (%d bytes at %#x)", c.d, c.s, r.name, r.n, r.addr)
									}
								}
							}
							violations = append(violations, boundsViolation{si.name, cur.rip, in.text, lo, int(hi - lo), where, entry.Label, next - 1})
						}
					}
				}
				// stack-relative addresses are normalised to the entry stack pointer
				if d := int64(ea - entryRsp); d > -65536 && d < 65536 {
					ea = uint64(d) | 1<<62
				}
				if cur.n < 3 {
					cur.eas[cur.n] = ea
					cur.n++
				}
			}
			st = append(st, cur)
			if err := syscall.PtraceSingleStep(tid); err != nil {
				fatal("singlestep: %v", err)
			}
			// service other threads while waiting for the stepped one
			for {
				t2, s2 := waitAny()
				if t2 == tid {
					if s2.Exited() || s2.Signaled() {
						fatal("traced thread died inside %s", si.name)
					}
					if s2.Stopped() && s2.StopSignal() != syscall.SIGTRAP {
						// a signal arrived for the stepped thread while inside the routine
						switch s2.StopSignal() {
						case syscall.SIGSEGV, syscall.SIGBUS, syscall.SIGILL, syscall.SIGFPE:
							fatal("child got %v inside %s at %#x", s2.StopSignal(), si.name, regs.Rip)
						}
						suppressed++ // e.g. a preemption request: not delivered, the routine is a few thousand instructions long
						if err := syscall.PtraceSingleStep(tid); err != nil {
							fatal("singlestep: %v", err)
						}
						continue
					}
					break
				}
				if s2.Exited() || s2.Signaled() {
					delete(alive, t2)
					continue
				}
				if s2.Stopped() {
					sg := s2.StopSignal()
					if sg == syscall.SIGTRAP && s2.TrapCause() == syscall.PTRACE_EVENT_CLONE {
						cont(t2, 0)
					} else if !alive[t2] {
						alive[t2] = true
						cont(t2, 0)
					} else if sg == syscall.SIGTRAP {
						cont(t2, 0)
					} else {
						cont(t2, int(sg))
					}
				}
			}
			if first {
				setBP(si.start) // re-arm as soon as the entry instruction has executed
				first = false
			}
			if err := syscall.PtraceGetRegs(tid, &regs); err != nil {
				fatal("getregs: %v", err)
			}
		}
		if first {
			setBP(si.start)
		}
		totalSteps += len(st)
		g, ok := groups[entry.Group]
		if !ok {
			g = &groupState{first: st, firstLabel: entry.Label, firstHash: hashSteps(st)}
			groups[entry.Group] = g
			order = append(order, entry.Group)
		} else if g.Mismatch == nil && hashSteps(st) != g.firstHash {
			mm := &mismatch{Group: entry.Group, LabelA: g.firstLabel, LabelB: entry.Label, StepsA: len(g.first), StepsB: len(st)}
			n := len(st)
			if len(g.first) < n {
				n = len(g.first)
			}
			mm.At = n
			mm.What = "one trace is a prefix of the other"
			for i := 0; i < n; i++ {
				a, b := g.first[i], st[i]
				if a.rip != b.rip {
					prev := ""
					if i > 0 {
						if in := si.insns[si.start+g.first[i-1].rip]; in != nil {
							prev = in.text
						}
					}
					mm.At, mm.What = i, fmt.Sprintf("instruction sequence diverges after %s+%#x (%s): next is +%#x vs +%#x — a data-dependent branch", si.name, g.first[max(i-1, 0)].rip, prev, a.rip, b.rip)
					break
				}
				if a != b {
					in := si.insns[si.start+a.rip]
					mm.At, mm.What = i, fmt.Sprintf("memory operand address differs at %s+%#x (%s): %#x vs %#x — a data-dependent address", si.name, a.rip, in.text, a.eas, b.eas)
					break
				}
			}
			g.Mismatch = mm
		}
		g.count++
		g.steps += len(st)
		cont(tid, 0)
	}
	type gout struct {
		Group    string    `json:"group"`
		Entries  int       `json:"entries"`
		Steps    int       `json:"steps"`
		Mismatch *mismatch `json:"mismatch,omitempty"`
	}
	res := struct {
		Groups        []gout            `json:"groups"`
		Calls         int               `json:"calls"`
		PlanEntries   int               `json:"plan_entries"`
		Steps         int               `json:"steps"`
		ChildExit     int               `json:"child_exit"`
		VectorIndexed []string          `json:"vector_indexed_operands"`
		Suppressed    int               `json:"signals_suppressed_while_stepping"`
		Checked       int               `json:"accesses_checked"`
		Masked        int               `json:"masked_accesses"`
		Unjudged      []string          `json:"size_unknown_mnemonics"`
		Violations    []boundsViolation `json:"bounds_violations"`
	}{Checked: checked, Masked: maskedSeen, Violations: violations, Suppressed: suppressed, Calls: next, PlanEntries: len(plan), Steps: totalSteps, ChildExit: exitCode}
	for _, k := range order {
		g := groups[k]
		res.Groups = append(res.Groups, gout{k, g.count, g.steps, g.Mismatch})
	}
	for k := range vectorIndexed {
		res.VectorIndexed = append(res.VectorIndexed, k)
	}
	sort.Strings(res.VectorIndexed)
	for k := range unjudged {
		res.Unjudged = append(res.Unjudged, k)
	}
	sort.Strings(res.Unjudged)
	b, _ := json.Marshal(res)
	if err := os.WriteFile(*outPath, b, 0o644); err != nil {
		fatal("%v", err)
	}
	if exitCode != 0 || next != len(plan) {
		fmt.Fprintf(os.Stderr, "asmtrace: child exit %d, traced %d of %d planned calls\n", exitCode, next, len(plan))
		os.Exit(3)
	}
}
