module verif.local/asmtrace

go 1.23
