package main

import (
	"encoding/binary"
	"fmt"
	"syscall"
	"unsafe"
)

func cpuidex(op, op2 uint32) (eax, ebx, ecx, edx uint32)

const (
	ptraceGetRegSet = 0x4204
	ntX86Xstate     = 0x202
)

// opmaskOffset is the offset of the k0..k7 state component in the standard-format XSAVE area (CPUID.(EAX=0DH,ECX=5).EBX).
func opmaskOffset() (int, error) {
	eax, ebx, _, _ := cpuidex(0xd, 5)
	if eax < 64 || ebx == 0 {
		return 0, fmt.Errorf("CPUID leaf 0DH sub-leaf 5 reports no opmask state (size %d, offset %d)", eax, ebx)
	}
	return int(ebx), nil
}

// readOpmask returns k[n] of the stopped thread.
func readOpmask(tid int, off int, n int) (uint64, error) {
	buf := make([]byte, 16384)
	iov := syscall.Iovec{Base: &buf[0], Len: uint64(len(buf))}
	_, _, e := syscall.Syscall6(syscall.SYS_PTRACE, ptraceGetRegSet, uintptr(tid), ntX86Xstate, uintptr(unsafe.Pointer(&iov)), 0, 0)
	if e != 0 {
		return 0, fmt.Errorf("PTRACE_GETREGSET(NT_X86_XSTATE): %v", e)
	}
	if int(iov.Len) < off+64 {
		return 0, fmt.Errorf("xstate area too short (%d bytes) for the opmask component at %d", iov.Len, off)
	}
	xstateBV := binary.LittleEndian.Uint64(buf[512:])
	if xstateBV&(1<<5) == 0 {
		return 0, nil // component in its initial state: all mask registers are zero
	}
	return binary.LittleEndian.Uint64(buf[off+8*n:]), nil
}
