#include "textflag.h"

// func cpuidex(op, op2 uint32) (eax, ebx, ecx, edx uint32)
TEXT ·cpuidex(SB), NOSPLIT, $0-24
	MOVL op+0(FP), AX
	MOVL op2+4(FP), CX
	CPUID
	MOVL AX, eax+8(FP)
	MOVL BX, ebx+12(FP)
	MOVL CX, ecx+16(FP)
	MOVL DX, edx+20(FP)
	RET
