module verif.local/tools/digestsearch

go 1.23

require verif.local/ref v0.0.0

require pgregory.net/rapid v1.3.0 // indirect

replace verif.local/ref => ../../harness/ref
