// digestsearch finds messages M whose message-level SM2 digest e = SM3(ZA || M) is >= n as a 256-bit integer (probability about
// 2^-32 per message, since n = FFFFFFFE FFFF...): such digests cannot be constructed because e is a hash output, only searched
// for. The hits become a corpus (vectors/sm2_large_digest.json) used by C13/C01/C02/C03 at the id/message level: "e mod n"
// handling in the wrappers is invisible to every other message.
//
// Usage: digestsearch -hits 3 > vectors/sm2_large_digest.json   (about 2 minutes per hit on 16 cores)
package main

import (
	"encoding/binary"
	"encoding/hex"
	"encoding/json"
	"flag"
	"fmt"
	"math/big"
	"os"
	"runtime"
	"sync"
	"sync/atomic"

	"verif.local/ref/gen"
	"verif.local/ref/sm2ref"
	"verif.local/ref/sm3ref"
)

type hit struct {
	Priv string `json:"priv"`
	Px   string `json:"px"`
	Py   string `json:"py"`
	ID   string `json:"id"`
	Msg  string `json:"msg"`
	E    string `json:"e"`
}

func main() {
	want := flag.Int("hits", 3, "number of messages to find")
	flag.Parse()
	var out []hit
	for h := 0; h < *want; h++ {
		// a different key and id per hit
		d := new(big.Int).SetBytes(sm3sum([]byte(fmt.Sprintf("verif corpus key %d", h))))
		d.Mod(d, new(big.Int).Sub(gen.N, big.NewInt(2))).Add(d, big.NewInt(1))
		P := sm2ref.Mul(d, sm2ref.G)
		px, py := gen.Pad32(P.X), gen.Pad32(P.Y)
		id := []byte("1234567812345678")
		if h%2 == 1 {
			id = []byte(fmt.Sprintf("user-%d@example.org", h))
		}
		za, ok := sm2ref.ZA(id, px, py)
		if !ok {
			panic("ZA")
		}
		var found atomic.Bool
		var mu sync.Mutex
		var res hit
		var wg sync.WaitGroup
		nw := runtime.NumCPU()
		for w := 0; w < nw; w++ {
			wg.Add(1)
			go func(w int) {
				defer wg.Done()
				// one block: ZA (32) || "verif" (5) || counter (8) || worker (1) = 46 bytes, padding 0x80, length 368 bits
				var blk [64]byte
				copy(blk[:32], za)
				copy(blk[32:37], "verif")
				blk[45] = byte(w)
				blk[46] = 0x80
				binary.BigEndian.PutUint64(blk[56:], 46*8)
				for ctr := uint64(0); !found.Load(); ctr++ {
					binary.BigEndian.PutUint64(blk[37:45], ctr)
					v := sm3ref.Compress(sm3ref.IV, blk[:])
					if v[0] != 0xffffffff {
						continue
					}
					var e [32]byte
					for i, x := range v {
						binary.BigEndian.PutUint32(e[4*i:], x)
					}
					if new(big.Int).SetBytes(e[:]).Cmp(gen.N) < 0 {
						continue
					}
					mu.Lock()
					if !found.Load() {
						found.Store(true)
						res = hit{hex.EncodeToString(gen.Pad32(d)), hex.EncodeToString(px), hex.EncodeToString(py), hex.EncodeToString(id),
							hex.EncodeToString(blk[32:46]), hex.EncodeToString(e[:])}
					}
					mu.Unlock()
				}
			}(w)
		}
		wg.Wait()
		// re-check through the ordinary interface of the reference
		m, _ := hex.DecodeString(res.Msg)
		chk := sm3ref.Sum(append(append([]byte(nil), za...), m...))
		if hex.EncodeToString(chk[:]) != res.E {
			panic("self-check failed")
		}
		fmt.Fprintf(os.Stderr, "hit %d: msg=%s e=%s\n", h, res.Msg, res.E)
		out = append(out, res)
	}
	enc := json.NewEncoder(os.Stdout)
	enc.SetIndent("", " ")
	enc.Encode(map[string]interface{}{
		"source":  "tools/digestsearch: brute-force search with the reference SM3 for messages whose digest SM3(ZA||M) >= n",
		"vectors": out,
	})
}

func sm3sum(b []byte) []byte { s := sm3ref.Sum(b); return s[:] }
