// ctinstr rewrites the non-test Go files of the given packages (in place, in a scratch copy) so that
// every execution reports, to verif.local/ref/ctrace,
//
//   - the sequence of executed source basic blocks      (ctrace.B at the start of every function body,
//     if/else body, loop body and case clause; the right operand of && and || wrapped in ctrace.C),
//   - the sequence of (site, value) of every non-constant index and slice bound (ctrace.I),
//
// and writes a side table (sites.json): id -> file:line, kind, and — per block — the calls to functions
// outside the module and the comparisons of string/array operands that the block contains (these
// compile to library routines whose running time depends on the operands).
//
// usage: ctinstr -dir <scratch root> -module <module path> -out <sites.json> pkgpattern...
package main

import (
	"encoding/json"
	"flag"
	"fmt"
	"go/ast"
	"go/format"
	"go/token"
	"go/types"
	"os"
	"path/filepath"
	"strings"

	"golang.org/x/tools/go/ast/astutil"
	"golang.org/x/tools/go/packages"
)

type site struct {
	ID      int      `json:"id"`
	Kind    string   `json:"kind"` // block | cond | index
	File    string   `json:"file"`
	Line    int      `json:"line"`
	Func    string   `json:"func"`
	What    string   `json:"what,omitempty"`
	Callees []string `json:"callees,omitempty"` // for blocks: external callees and string/array comparisons inside
}

var (
	sites  []*site
	module string
	root   string
)

func newSite(fset *token.FileSet, pos token.Pos, kind, fn, what string) *site {
	p := fset.Position(pos)
	rel, _ := filepath.Rel(root, p.Filename)
	s := &site{ID: len(sites) + 1, Kind: kind, File: rel, Line: p.Line, Func: fn, What: what}
	sites = append(sites, s)
	return s
}

func call(fn string, id int, args ...ast.Expr) *ast.CallExpr {
	a := []ast.Expr{&ast.BasicLit{Kind: token.INT, Value: fmt.Sprint(id)}}
	a = append(a, args...)
	return &ast.CallExpr{Fun: &ast.SelectorExpr{X: ast.NewIdent("ctrace"), Sel: ast.NewIdent(fn)}, Args: a}
}

type visitor struct {
	fset   *token.FileSet
	info   *types.Info
	fn     string
	blocks []*site // stack of enclosing instrumented blocks
	used   bool
}

func (v *visitor) top() *site {
	if len(v.blocks) == 0 {
		return nil
	}
	return v.blocks[len(v.blocks)-1]
}

func isIntegerNonConst(info *types.Info, e ast.Expr) bool {
	tv, ok := info.Types[e]
	if !ok || tv.Value != nil || tv.Type == nil {
		return false
	}
	b, ok := tv.Type.Underlying().(*types.Basic)
	return ok && b.Info()&types.IsInteger != 0
}

func indexable(info *types.Info, x ast.Expr) bool {
	tv, ok := info.Types[x]
	if !ok || tv.IsType() || tv.Type == nil {
		return false
	}
	t := tv.Type.Underlying()
	if p, ok := t.(*types.Pointer); ok {
		t = p.Elem().Underlying()
	}
	switch u := t.(type) {
	case *types.Array, *types.Slice:
		return true
	case *types.Basic:
		return u.Info()&types.IsString != 0
	}
	return false
}

func (v *visitor) noteCallee(name string) {
	if b := v.top(); b != nil {
		for _, c := range b.Callees {
			if c == name {
				return
			}
		}
		b.Callees = append(b.Callees, name)
	}
}

func (v *visitor) enterBlock(pos token.Pos, what string) *site {
	s := newSite(v.fset, pos, "block", v.fn, what)
	v.blocks = append(v.blocks, s)
	v.used = true
	return s
}
func (v *visitor) leave() { v.blocks = v.blocks[:len(v.blocks)-1] }

func (v *visitor) stmtList(list []ast.Stmt) {
	for _, s := range list {
		v.stmt(s)
	}
}

func (v *visitor) body(b *ast.BlockStmt, what string) {
	if b == nil {
		return
	}
	s := v.enterBlock(b.Lbrace, what)
	v.stmtList(b.List)
	v.leave()
	b.List = append([]ast.Stmt{&ast.ExprStmt{X: call("B", s.ID)}}, b.List...)
}

func (v *visitor) stmt(s ast.Stmt) {
	switch n := s.(type) {
	case nil:
	case *ast.BlockStmt:
		v.stmtList(n.List)
	case *ast.IfStmt:
		v.stmt(n.Init)
		n.Cond = v.expr(n.Cond)
		v.body(n.Body, "if")
		switch e := n.Else.(type) {
		case *ast.BlockStmt:
			v.body(e, "else")
		case *ast.IfStmt:
			v.stmt(e)
		}
	case *ast.ForStmt:
		v.stmt(n.Init)
		if n.Cond != nil {
			n.Cond = v.expr(n.Cond)
		}
		v.stmt(n.Post)
		v.body(n.Body, "for")
	case *ast.RangeStmt:
		n.X = v.expr(n.X)
		v.body(n.Body, "range")
	case *ast.SwitchStmt:
		v.stmt(n.Init)
		if n.Tag != nil {
			n.Tag = v.expr(n.Tag)
		}
		v.clauses(n.Body)
	case *ast.TypeSwitchStmt:
		v.stmt(n.Init)
		v.stmt(n.Assign)
		v.clauses(n.Body)
	case *ast.SelectStmt:
		v.clauses(n.Body)
	case *ast.LabeledStmt:
		v.stmt(n.Stmt)
	case *ast.ExprStmt:
		n.X = v.expr(n.X)
	case *ast.AssignStmt:
		for i := range n.Lhs {
			n.Lhs[i] = v.expr(n.Lhs[i])
		}
		for i := range n.Rhs {
			n.Rhs[i] = v.expr(n.Rhs[i])
		}
	case *ast.IncDecStmt:
		n.X = v.expr(n.X)
	case *ast.ReturnStmt:
		for i := range n.Results {
			n.Results[i] = v.expr(n.Results[i])
		}
	case *ast.DeclStmt:
		if gd, ok := n.Decl.(*ast.GenDecl); ok && gd.Tok == token.VAR {
			for _, sp := range gd.Specs {
				vs := sp.(*ast.ValueSpec)
				for i := range vs.Values {
					vs.Values[i] = v.expr(vs.Values[i])
				}
			}
		}
	case *ast.GoStmt:
		n.Call = v.expr(n.Call).(*ast.CallExpr)
	case *ast.DeferStmt:
		n.Call = v.expr(n.Call).(*ast.CallExpr)
	case *ast.SendStmt:
		n.Chan = v.expr(n.Chan)
		n.Value = v.expr(n.Value)
	case *ast.BranchStmt, *ast.EmptyStmt:
	}
}

func (v *visitor) clauses(b *ast.BlockStmt) {
	for _, c := range b.List {
		switch cc := c.(type) {
		case *ast.CaseClause:
			for i := range cc.List {
				if tv, ok := v.info.Types[cc.List[i]]; ok && !tv.IsType() {
					cc.List[i] = v.expr(cc.List[i])
				}
			}
			s := v.enterBlock(cc.Colon, "case")
			v.stmtList(cc.Body)
			v.leave()
			cc.Body = append([]ast.Stmt{&ast.ExprStmt{X: call("B", s.ID)}}, cc.Body...)
		case *ast.CommClause:
			s := v.enterBlock(cc.Colon, "comm")
			v.stmtList(cc.Body)
			v.leave()
			cc.Body = append([]ast.Stmt{&ast.ExprStmt{X: call("B", s.ID)}}, cc.Body...)
		}
	}
}

func (v *visitor) exprs(list []ast.Expr) {
	for i := range list {
		list[i] = v.expr(list[i])
	}
}

func cmpKind(t types.Type) string {
	switch u := t.Underlying().(type) {
	case *types.Basic:
		if u.Info()&types.IsString != 0 {
			return "string"
		}
	case *types.Array:
		return "array"
	case *types.Struct:
		return "struct"
	}
	return ""
}

func (v *visitor) expr(e ast.Expr) ast.Expr {
	switch n := e.(type) {
	case nil:
		return nil
	case *ast.ParenExpr:
		n.X = v.expr(n.X)
	case *ast.UnaryExpr:
		n.X = v.expr(n.X)
	case *ast.StarExpr:
		n.X = v.expr(n.X)
	case *ast.SelectorExpr:
		n.X = v.expr(n.X)
	case *ast.BinaryExpr:
		n.X = v.expr(n.X)
		n.Y = v.expr(n.Y)
		switch n.Op {
		case token.LAND, token.LOR:
			if tv, ok := v.info.Types[n.Y]; ok && tv.Value == nil {
				s := newSite(v.fset, n.OpPos, "cond", v.fn, n.Op.String())
				v.used = true
				n.Y = call("C", s.ID, n.Y)
			}
		case token.EQL, token.NEQ, token.LSS, token.LEQ, token.GTR, token.GEQ:
			if tv, ok := v.info.Types[n.X]; ok && tv.Type != nil {
				if k := cmpKind(tv.Type); k != "" {
					if tv2, ok2 := v.info.Types[n]; !ok2 || tv2.Value == nil {
						v.noteCallee("compare:" + k + " (" + n.Op.String() + ")")
					}
				}
			}
		}
	case *ast.CallExpr:
		n.Fun = v.expr(n.Fun)
		v.exprs(n.Args)
		v.recordCall(n)
	case *ast.IndexExpr:
		n.X = v.expr(n.X)
		n.Index = v.expr(n.Index)
		if indexable(v.info, n.X) && isIntegerNonConst(v.info, n.Index) {
			s := newSite(v.fset, n.Lbrack, "index", v.fn, "index")
			v.used = true
			n.Index = call("I", s.ID, n.Index)
		}
	case *ast.SliceExpr:
		n.X = v.expr(n.X)
		for _, p := range []*ast.Expr{&n.Low, &n.High, &n.Max} {
			if *p != nil {
				*p = v.expr(*p)
				if isIntegerNonConst(v.info, *p) {
					s := newSite(v.fset, n.Lbrack, "index", v.fn, "slice-bound")
					v.used = true
					*p = call("I", s.ID, *p)
				}
			}
		}
	case *ast.CompositeLit:
		for i, el := range n.Elts {
			if kv, ok := el.(*ast.KeyValueExpr); ok {
				kv.Value = v.expr(kv.Value)
			} else {
				n.Elts[i] = v.expr(el)
			}
		}
	case *ast.KeyValueExpr:
		n.Value = v.expr(n.Value)
	case *ast.TypeAssertExpr:
		n.X = v.expr(n.X)
	case *ast.FuncLit:
		saved := v.fn
		v.fn = saved + ".func"
		v.body(n.Body, "funclit")
		v.fn = saved
	}
	return e
}

func (v *visitor) recordCall(c *ast.CallExpr) {
	if tv, ok := v.info.Types[c.Fun]; ok && tv.IsType() {
		return // conversion
	}
	var obj types.Object
	switch f := ast.Unparen(c.Fun).(type) {
	case *ast.Ident:
		obj = v.info.Uses[f]
	case *ast.SelectorExpr:
		if sel, ok := v.info.Selections[f]; ok {
			obj = sel.Obj()
		} else {
			obj = v.info.Uses[f.Sel]
		}
	}
	switch o := obj.(type) {
	case *types.Func:
		if o.Pkg() == nil {
			return
		}
		if p := o.Pkg().Path(); p == module || strings.HasPrefix(p, module+"/") || p == "verif.local/ref/ctrace" {
			return
		}
		v.noteCallee(o.FullName())
	case *types.Builtin:
		if o.Name() == "copy" || o.Name() == "append" {
			return
		}
	case *types.Var:
		v.noteCallee("indirect call through " + o.Name())
	}
}

func main() {
	dir := flag.String("dir", ".", "module root (scratch copy)")
	mod := flag.String("module", "github.com/bilibili/smgo", "module path")
	out := flag.String("out", "ctrace_sites.json", "side table")
	flag.Parse()
	module = *mod
	root, _ = filepath.Abs(*dir)
	cfg := &packages.Config{Mode: packages.NeedName | packages.NeedFiles | packages.NeedCompiledGoFiles | packages.NeedSyntax | packages.NeedTypes | packages.NeedTypesInfo | packages.NeedImports, Dir: root, Tests: false}
	pkgs, err := packages.Load(cfg, flag.Args()...)
	if err != nil {
		fmt.Fprintln(os.Stderr, "ctinstr: load:", err)
		os.Exit(1)
	}
	if packages.PrintErrors(pkgs) > 0 {
		os.Exit(1)
	}
	nfiles := 0
	for _, pkg := range pkgs {
		for i, f := range pkg.Syntax {
			name := pkg.CompiledGoFiles[i]
			if !strings.HasSuffix(name, ".go") || strings.HasPrefix(filepath.Base(name), "zz_verif_") {
				continue
			}
			v := &visitor{fset: pkg.Fset, info: pkg.TypesInfo}
			for _, d := range f.Decls {
				fd, ok := d.(*ast.FuncDecl)
				if !ok || fd.Body == nil {
					continue
				}
				v.fn = pkg.Name + "." + fd.Name.Name
				if fd.Recv != nil && len(fd.Recv.List) == 1 {
					v.fn = pkg.Name + ".(" + types.ExprString(fd.Recv.List[0].Type) + ")." + fd.Name.Name
				}
				v.body(fd.Body, "func")
			}
			if !v.used {
				continue
			}
			astutil.AddNamedImport(pkg.Fset, f, "ctrace", "verif.local/ref/ctrace")
			w, err := os.Create(name)
			if err != nil {
				fmt.Fprintln(os.Stderr, "ctinstr:", err)
				os.Exit(1)
			}
			if err := format.Node(w, pkg.Fset, f); err != nil {
				fmt.Fprintln(os.Stderr, "ctinstr: format", name, err)
				os.Exit(1)
			}
			w.Close()
			nfiles++
		}
	}
	b, _ := json.MarshalIndent(sites, "", " ")
	if err := os.WriteFile(*out, b, 0o644); err != nil {
		fmt.Fprintln(os.Stderr, "ctinstr:", err)
		os.Exit(1)
	}
	fmt.Printf("ctinstr: %d sites in %d files of %d packages\n", len(sites), nfiles, len(pkgs))
}
